#!/usr/bin/env python3
"""Regenerates MANIFEST.json from the table below (kept next to the driver so the two stay in step)."""
import json, os
ROOT = os.path.dirname(os.path.abspath(__file__))
CLAIMED = {
 "C17": dict(tech="property-based testing (rapid) + exhaustive enumeration of 8-bit pairs/triples against a math/big ordering oracle",
      text="Generated-input search: every ordered pair (quick) and triple (thorough) of int8/uint8 values exhaustively, boundary-biased triples of all wider integer widths, decimal64, string, identity, enum, bool, binary, and mixed key tuples, each compared with an arbitrary-precision oracle for sign, antisymmetry, transitivity and agreement with Equal; keyed-list lookup on the reflection stores.",
      note="Trusts math/big and the harness's reading of 'numeric order'. Wider types are sampled (boundary-biased), not enumerated.", ref="7 C17"),
}
CLAIMED["C10"] = dict(tech="exhaustive enumeration of the boundary product + property-based testing (rapid) against an exact math/big denotation oracle",
      text="Generated-input search: the full product of 13 scalar target formats x 14 source Go kinds x each kind's boundary value set is enumerated completely; random scalar, list and schema-typed (enum, bits, identityref, union, leafref) conversions are drawn on top. A successful conversion must denote exactly the source (big.Rat / text / truth value / element-wise); an error is always accepted.",
      note="decimal64 is float64 in the library: 'same number' means nearest float64. Strings outside strict decimal syntax and NaN/Inf sources carry no assertion for decimal64. One open known finding (float64 -> string rounding, pinned by the suite).", ref="7 C10")
CLAIMED["C14"] = dict(tech="property-based testing (rapid) + enumeration of all truncation points + structured hostile-input families, in crash-isolated worker processes; native go fuzzing in the thorough tier",
      text="Generated-input search for totality: every byte prefix of the repository's 86 test modules (size-limited per tier), token-level mutations of them, a parameterised family of pathological modules (nesting depth, argument counts, unterminated strings/comments, cycles among typedefs/groupings/identities/leafrefs/imports/includes, wrong-kind paths, malformed restriction/feature/when arguments), opener faults, and token soup. Each load must return a module or an error; a returned module is walked through every public accessor. Workers journal each case so a fatal error or hang is attributed and confirmed in a fresh process.",
      note="A hang is a case that does not finish in 15 s alone in a fresh process (normal cases take < 5 ms). The walk covers the compiled schema tree, typedefs, identities, features, extensions; raw grouping/augment templates and the library's schema browser are not walked (see DESIGN.md Corrections).", ref="7 C14")
CLAIMED["C04"] = dict(tech="property-based testing (rapid): generated schema + data tree, export into a recording reference store and JSON round trip through an independent decoder",
      text="Generated-input search: schemas over all node kinds and leaf types with nested lists, compound keys, choices and defaults, conforming trees with boundary values; the tree is exported into a recording reference store (every node exactly once, schema order, nothing extra except optional defaults), written as JSON (compact/pretty, qualified or not), decoded with encoding/json, re-read with the library's reader and exported again (twice, for idempotence).",
      note="Trusts the harness reference store and encoding/json. Reads may or may not report the default of an unset leaf (both accepted). decimal64 values have <= 6 significant digits.", ref="7 C04")
CLAIMED["C03"] = dict(tech="property-based testing (rapid) against a harness reference model of the keyed deep merge, with direct inspection of the stores' backing Go data",
      text="Generated-input search: target and source are overlapping sub-samples of one generated universe tree; strategy x entry point (root, container, list, list entry) x XFrom/XInto x source store (reference, JSON reader) x target store (reference store, map-backed nodeutil.Reflect, map-backed nodeutil.Node). The expected tree or the expected error class (conflict / not-found) comes from the harness merge model; after a failure, paths the source does not mention must be unchanged.",
      note="Case switches are only asserted for upsert. Map-backed stores are compared as keyed sets (Go maps have no insertion order) and are generated with single keys of the types the stores can hold.", ref="7 C03")
CLAIMED["C15"] = dict(tech="property-based testing (rapid) with encoding/json as independent decoder, plus injected output-stream failures",
      text="Generated-input search: schema + data with every leaf type and hostile strings x writer configuration (Pretty, EnumAsIds, QualifyNamespace) x start selection (root, container, list, list entry, leaf). The output must be exactly one RFC 8259 value for encoding/json, have arrays for lists/leaf-lists, objects for containers, [null] for empty, scalars that decode to the stored values, correct (un)qualified names, and pretty == compact modulo insignificant whitespace. A stream failing after k bytes must produce an error.",
      note="Single-module schemas (qualification where the defining module changes is not exercised yet). Below a non-root start both qualified and unqualified names are accepted.", ref="7 C15")
CLAIMED["C19"] = dict(tech="property-based testing (rapid): round trip through both XML writers, the standard library's encoding/xml as independent parser, and the library's reader; metamorphic sibling interleaving",
      text="Generated-input search: schema + data with every leaf type and text containing markup characters, quotes, ]]>, leading/trailing/inner white space and non-ASCII, written by WriteXMLDoc (pretty and compact) and WriteXML. The output must be one well-formed document with a single root for encoding/xml, decode to the data, and read back through ReadXMLDoc into the same tree (order of entries and leaf-list elements kept). A harness-written document whose sibling elements are interleaved must read as the same tree.",
      note="Characters XML 1.0 cannot carry (C0 controls except tab/LF/CR) are outside the domain. Single-namespace schemas so far.", ref="7 C19")
CLAIMED["C18"] = dict(tech="stateful property-based testing (rapid): generated edit histories against a harness tree model, with direct inspection of the stores' backing Go data",
      text="Generated-history search: 1-8 operations {upsert fragment, delete container / whole list / list entry, replace container / entry} on the reference store, map-backed nodeutil.Reflect (map- and slice-backed lists) and map-backed nodeutil.Node (map- and slice-backed lists). After every step the backing data equals the model (siblings, other entries, ancestors untouched; nothing of a replaced node survives), keys are unique and each entry sits under the key its key leaves hold; deleted entries are no longer found, remaining ones are.",
      note="Struct-backed stores are not generated (schemas are random; Go struct types are not). Replace is compared as a keyed set because ReplaceFrom is delete + insert.", ref="7 C18")
CLAIMED["C09"] = dict(tech="stateful property-based testing (rapid): histories of case-switching upserts against a harness model",
      text="Generated-history search: 1-8 upserts of independently drawn fragments into schemas with several choices per container, nested choices, choices in lists, cases holding leaves/containers/lists, on the reference store and map-backed Reflect/Node stores, from reference or JSON sources. After every step no choice may hold two cases in the store's backing data and the data must equal the model.",
      note="Reads of the selected case are covered by C04's export check; rpc-input choices are not generated.", ref="7 C09")
CLAIMED["C08"] = dict(tech="property-based testing (rapid) against the harness tree model: every rendering of the path to a generated target, plus absent / unknown targets",
      text="Generated-input search: schema + data with lists in lists, compound keys, key types string/int/bool/enum and key strings full of URL metacharacters and non-ASCII; target = container, list, entry or leaf present in the tree, or an absent key, absent container or unknown name; start = root, an ancestor or a container elsewhere (../ steps); rendering options: module-qualified segments, trailing slash, encode-everything vs encode-what-is-required, read-filter query attached. The selection must be on the same schema node with the same keys and content, its rendered path must find it again, absent data gives (nil, nil), an unknown name a not-found error, and the store's backing data is unchanged.",
      note="../ starts are containers reached through containers (the parent selection of a list entry is the list). The rendered path is only re-found for keys that need no escaping (Path.String does not escape).", ref="7 C08")
CLAIMED["C07"] = dict(tech="property-based testing (rapid): differential between the constrained and the unconstrained read through the same writer, against per-parameter projection predicates of the harness",
      text="Generated-input search: schema with config/non-config nodes, defaults, nested lists and choices + data with leaves planted at their defaults; target root / container / list entry; 1-3 of content, depth, fields / fc.xfields (multi-segment, alternative and grouped paths), with-defaults, through Find(path?query) and Constrain(query). The set of (path, value) of non-key leaves must equal the intersection of the parameters' projections of the unconstrained read, the store is unchanged, invalid values are errors. A second check windows lists with fc.range (empty, open, out-of-range, nested lists) and bounds fc.max-node-count.",
      note="Tolerances of DESIGN.md 4.2: empty shells and key leaves in emptied regions are not asserted; fc.range end bound accepted as inclusive or exclusive; fc.max-node-count only in clear-cut cases. One open known finding (fc.max-node-count not enforced).", ref="7 C07")
CLAIMED["C05"] = dict(tech="property-based testing (rapid) against a math/big restriction evaluator, plus an enumerated membership product for enum/bits/identityref/union",
      text="Generated-input search: range restrictions on every numeric base (alternatives, single values, min/max, negative and 64-bit bounds, decimal64) and length/pattern restrictions on strings, derived through 0-2 narrowing typedef levels, on leaves and leaf-lists; candidates are the boundaries of every level and their neighbours; written through Set, SetValue, Upsert/Insert/Update from JSON, Upsert from XML and from another node, into the reference store and a map-backed Reflect. Accepted iff the harness evaluator says the value is inside every level and matches every (anchored) pattern; a rejected write returns an error and leaves the leaf unchanged. Membership of enumeration, bits, identityref and union leaves is enumerated as a full product of values x paths.",
      note="Patterns come from a regex subset on which XSD and RE2 agree. One open known finding (several patterns are OR-ed; pinned by the suite). Whether the base identity itself is acceptable is not asserted.", ref="7 C05")
CLAIMED["C16"] = dict(tech="property-based testing (rapid) with a math/big / string comparison oracle over generated operand values around the literal",
      text="Generated-input search: '<leaf> <op> <literal>' with operand leaves of every integer width, decimal64, string, boolean and enumeration, all six operators, operand unset / equal / neighbouring / random (unsigned and 64-bit extremes), placed as when on container, leaf, list, uses and augment (reads and upserts), as where= on a list and as filter= on a notification stream fed by a harness event node. Visibility, written-ness, kept rows and delivered events must equal the oracle's verdict; an unset operand makes the comparison false.",
      note="Evaluation context as the repository's tests pin it (container: itself, leaf: its parent). Edit cases keep the operand identical in source and target. Negative and > int64 literals are written quoted (the XPath subset has no signed number token).", ref="7 C16")
CLAIMED["C12"] = dict(cat="fault_enumeration", tech="property-based scenario generation (rapid) + exhaustive fault injection: every callback position of every generated edit scenario fails once; invariants checked over the recorded callback history",
      text="Generated scenarios (upsert / insert / update / delete / replace x tree shapes x entry point) run with source and target wrapped by a recording node.Node. Each scenario is executed fault-free (K callbacks) and then once per k in 1..K with callback k - Child, Next, Field, Choose, BeginEdit or EndEdit on either side - returning a sentinel error. Over every history: each successful BeginEdit is followed by exactly one EndEdit with the same flags before the call returns, none reaches the source side, the API error wraps the sentinel, and no write follows the failing call.",
      note="Faults are errors returned by callbacks (not panics, not hangs). Target stores are reference stores; ancestors of the edit root are observed through the wrapper. One open known finding (Choose error on the target is swallowed by design).", ref="7 C12")
NOT_YET = {}
props = [json.loads(l) for l in open(os.path.join(ROOT, "properties.jsonl"))]
checks, na = [], []
for p in props:
    i = p["id"]
    if i in CLAIMED:
        c = CLAIMED[i]
        checks.append({
            "property_id": i,
            "quick_cmd": "./check %s --tier quick" % i,
            "thorough_cmd": "./check %s --tier thorough" % i,
            "evidence_file": "evidence/%s.json" % i,
            "replay_cmd_template": "./check %s --replay {path}" % i,
            "engine": "harness",
            "level_claimed": {"category": c.get("cat", "exploration"), "text": c["text"], "design_ref": "DESIGN.md section " + c["ref"]},
            "level_note": c["note"],
            "technique": c["tech"],
        })
    else:
        na.append({"property_id": i, "reason": NOT_YET.get(i, "check not built yet in this round (the family applies; see DESIGN.md section 7); not claimed until its check exists and is quiet on the unchanged tree")})
m = {
 "version": 1,
 "setup_cmd": "./check --setup",
 "hooks": {"guard": "verif", "enable": "no source hooks: checks build /repo as is through a replace directive (go test -c in /verif/harness)", "baseline_off_cmd": "cd /repo && GOFLAGS=-mod=mod GOPROXY=off GOTOOLCHAIN=local go test -vet=off -count=1 ./...", "source_commits": [], "add_only": True},
 "engines": [{"name": "harness", "path": "harness", "serves_properties": sorted(CLAIMED), "kind_free_text": "Go module: pgregory.net/rapid v1.3.0 properties + explicit enumerations + native go fuzz targets, driven by ./check (python3) in worker processes"}],
 "checks": checks,
 "notes": "Known findings: known_findings.txt. Replay files of new violations: replays/<ID>/. DESIGN.md explains every oracle.",
 "not_applicable": na,
}
json.dump(m, open(os.path.join(ROOT, "MANIFEST.json"), "w"), indent=1)
print("claimed", len(checks), "not claimed", len(na))
