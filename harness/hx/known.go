package hx

import (
	"bufio"
	"os"
	"path/filepath"
	"strings"
)

// Known is one line of known_findings.txt.
type Known struct {
	Open     bool
	Property string
	Text     string
	ID       string
	Sig      string   // first signature
	Sigs     []string // all signatures (an entry may list several sig= fields: one root cause, several clauses)
	Witness  string
	Commit   string
}

// LoadKnown parses <root>/known_findings.txt. Lines:
//
//	known: property=C10 <what fails>  # id=.. sig=.. witness=..
//	fixed: property=C17 <commit> <what failed>  # id=.. sig=.. witness=..
func LoadKnown(root string) []Known {
	f, err := os.Open(filepath.Join(root, "known_findings.txt"))
	if err != nil {
		return nil
	}
	defer f.Close()
	var out []Known
	sc := bufio.NewScanner(f)
	sc.Buffer(make([]byte, 1<<20), 1<<20)
	for sc.Scan() {
		line := strings.TrimSpace(sc.Text())
		if line == "" || strings.HasPrefix(line, "#") {
			continue
		}
		var k Known
		switch {
		case strings.HasPrefix(line, "known:"):
			k.Open = true
			line = strings.TrimSpace(strings.TrimPrefix(line, "known:"))
		case strings.HasPrefix(line, "fixed:"):
			line = strings.TrimSpace(strings.TrimPrefix(line, "fixed:"))
		default:
			continue
		}
		meta := ""
		if i := strings.LastIndex(line, "  # "); i >= 0 {
			meta = line[i+4:]
			line = strings.TrimSpace(line[:i])
		}
		if !strings.HasPrefix(line, "property=") {
			continue
		}
		sp := strings.IndexByte(line, ' ')
		if sp < 0 {
			continue
		}
		k.Property = strings.TrimPrefix(line[:sp], "property=")
		k.Text = strings.TrimSpace(line[sp+1:])
		if !k.Open {
			if sp2 := strings.IndexByte(k.Text, ' '); sp2 > 0 {
				k.Commit = k.Text[:sp2]
			}
		}
		// meta fields: id=… sig=… witness=…  (sig may contain spaces? no: written without)
		for _, f := range strings.Fields(meta) {
			switch {
			case strings.HasPrefix(f, "id="):
				k.ID = f[3:]
			case strings.HasPrefix(f, "sig="):
				if k.Sig == "" {
					k.Sig = f[4:]
				}
				k.Sigs = append(k.Sigs, f[4:])
			case strings.HasPrefix(f, "witness="):
				k.Witness = f[8:]
			}
		}
		out = append(out, k)
	}
	return out
}
