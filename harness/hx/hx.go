// Package hx is the core of the property harness: it drives generated cases
// through a check, classifies them, counts distinct non-trivial cases, matches
// failures against the known-findings file, keeps the shrunk failing case for
// the replay file and writes one result file per worker process.
package hx

import (
	"encoding/json"
	"flag"
	"fmt"
	"hash/fnv"
	"os"
	"path/filepath"
	"regexp"
	"runtime/debug"
	"sort"
	"strconv"
	"strings"
	"testing"
	"time"

	"pgregory.net/rapid"
)

// Failure is one violated oracle clause.
type Failure struct {
	Sig string `json:"sig"`
	Msg string `json:"msg"`
}

// Obs is what a check reports about one case.
type Obs struct {
	classes    []string
	nontrivial bool
	fails      []Failure
	excluded   []string
	note       string
}

func (o *Obs) Class(format string, args ...interface{}) {
	o.classes = append(o.classes, fmt.Sprintf(format, args...))
}
func (o *Obs) NonTrivial() { o.nontrivial = true }
func (o *Obs) Excluded(reason string) {
	o.excluded = append(o.excluded, reason)
}
func (o *Obs) Failf(sig string, format string, args ...interface{}) {
	msg := fmt.Sprintf(format, args...)
	if len(msg) > 2000 {
		msg = msg[:2000] + "…"
	}
	o.fails = append(o.fails, Failure{Sig: SanSig(sig), Msg: msg})
}

var wsRe = regexp.MustCompile(`\s+`)

// SanSig makes a signature one whitespace-free token.
func SanSig(s string) string { return wsRe.ReplaceAllString(strings.TrimSpace(s), "_") }
func (o *Obs) Failed() bool { return len(o.fails) > 0 }
func (o *Obs) Fails() []Failure { return o.fails }

// Guard runs f and turns a panic into a failure with a panic signature.
// It returns true when f panicked.
func (o *Obs) Guard(what string, f func()) (panicked bool) {
	defer func() {
		if r := recover(); r != nil {
			panicked = true
			o.fails = append(o.fails, panicFailure(what, r, debug.Stack()))
		}
	}()
	f()
	return false
}

var numRe = regexp.MustCompile(`0x[0-9a-f]+|\d+`)
var quoteRe = regexp.MustCompile(`"[^"]*"|'[^']*'`)

func normMsg(s string) string {
	s = quoteRe.ReplaceAllString(s, "Q")
	s = numRe.ReplaceAllString(s, "N")
	if len(s) > 80 {
		s = s[:80]
	}
	return s
}

func panicFailure(what string, r interface{}, stack []byte) Failure {
	fn := "?"
	lines := strings.Split(string(stack), "\n")
	seenPanic := false
	for _, l := range lines {
		if strings.HasPrefix(l, "panic(") {
			seenPanic = true
			continue
		}
		if !seenPanic {
			continue
		}
		if strings.HasPrefix(l, "github.com/freeconf/yang/") {
			fn = strings.TrimPrefix(l, "github.com/freeconf/yang/")
			if i := strings.LastIndex(fn, "("); i > 0 {
				fn = fn[:i]
			}
			break
		}
	}
	msg := fmt.Sprint(r)
	if e, ok := r.(error); ok {
		msg = e.Error()
	}
	return Failure{
		Sig: SanSig("panic|" + fn + "|" + normMsg(msg)),
		Msg: fmt.Sprintf("panic in %s: %v\n%s", what, r, trimStack(stack)),
	}
}

func trimStack(st []byte) string {
	lines := strings.Split(string(st), "\n")
	var out []string
	for _, l := range lines {
		if strings.Contains(l, "freeconf/yang") && !strings.HasPrefix(l, "\t") {
			out = append(out, l)
		}
		if len(out) >= 8 {
			break
		}
	}
	return strings.Join(out, "\n")
}

// HangAfter is the per-case watchdog for journalled checks and replays. Normal
// cases take micro- to milliseconds; the watchdog only triggers confirmation
// by the driver (the case is re-run alone), it is never a verdict by itself.
var HangAfter = 15 * time.Second

// Check describes one generated check of a property.
type Check[C any] struct {
	Name    string
	Gen     func(*rapid.T) C
	Run     func(C, *Obs)
	Journal bool // write the case to the journal before running it (crash isolation)
	Rule    string
}

type replayFn func(raw json.RawMessage) ([]Failure, error)

var registry = map[string]replayFn{}

// Register makes a check available to --replay by name.
func Register[C any](c *Check[C]) *Check[C] {
	if _, dup := registry[c.Name]; dup {
		panic("duplicate check " + c.Name)
	}
	registry[c.Name] = func(raw json.RawMessage) ([]Failure, error) {
		var cs C
		if err := json.Unmarshal(raw, &cs); err != nil {
			return nil, err
		}
		o := &Obs{}
		runGuarded(c, cs, o)
		return o.fails, nil
	}
	return c
}

func runGuarded[C any](c *Check[C], cs C, o *Obs) {
	defer func() {
		if r := recover(); r != nil {
			o.fails = append(o.fails, panicFailure(c.Name, r, debug.Stack()))
		}
	}()
	c.Run(cs, o)
}

// Violation is an unlisted failure with its replay file.
type Violation struct {
	Check  string    `json:"check"`
	Fails  []Failure `json:"fails"`
	Replay string    `json:"replay"`
}

type checkStats struct {
	Evaluations int64            `json:"evaluations"`
	NonTrivial  int64            `json:"nontrivial"`
	EnumNonTrivial int64         `json:"enum_nontrivial"`
	Classes     map[string]int64 `json:"classes"`
	Samples     []json.RawMessage `json:"samples"`
	Rule        string           `json:"rule,omitempty"`
	Exhaustive  bool             `json:"exhaustive,omitempty"`
	Requested   int64            `json:"requested"`
}

// Result is what one worker process reports to the driver.
type Result struct {
	Property   string                 `json:"property"`
	Shard      int                    `json:"shard"`
	Seed       uint64                 `json:"seed"`
	Tier       string                 `json:"tier"`
	Checks     map[string]*checkStats `json:"checks"`
	Hashes     []uint64               `json:"hashes"`
	Suppressed map[string]int64       `json:"suppressed"`
	Excluded   map[string]int64       `json:"excluded"`
	Violations []Violation            `json:"violations"`
	Complete   bool                   `json:"complete"`
	Survey     map[string]*SurveyEntry `json:"survey,omitempty"`
	WallS      float64                `json:"wall_s"`
}

// SurveyEntry is one signature seen in survey mode (triage aid: all failures
// are collected instead of stopping at the first).
type SurveyEntry struct {
	Count int64           `json:"count"`
	Msg   string          `json:"msg"`
	Check string          `json:"check"`
	Case  json.RawMessage `json:"case"`
}

// Session is one property run in one worker process.
type Session struct {
	T        *testing.T
	Prop     string
	Tier     string
	Shard    int
	NShards  int
	Seed     uint64
	Root     string
	res      *Result
	hashes   map[uint64]struct{}
	known    map[string]bool // open signatures for this property
	start    time.Time
	journal  *os.File
	outPath  string
	scale    float64
	survey   bool
}

func envInt(name string, def int) int {
	if v := os.Getenv(name); v != "" {
		if n, err := strconv.Atoi(v); err == nil {
			return n
		}
	}
	return def
}

// Root returns /verif (the directory holding known_findings.txt).
func Root() string {
	if r := os.Getenv("VERIF_ROOT"); r != "" {
		return r
	}
	wd, _ := os.Getwd()
	for d := wd; d != "/"; d = filepath.Dir(d) {
		if _, err := os.Stat(filepath.Join(d, "properties.jsonl")); err == nil {
			return d
		}
	}
	return "/verif"
}

// Begin starts a session; End must be deferred.
func Begin(t *testing.T, prop string) *Session {
	if os.Getenv("VERIF_RUN") == "" {
		t.Skip("run through /verif/check")
	}
	s := &Session{T: t, Prop: prop, Root: Root(), start: time.Now()}
	s.Tier = os.Getenv("VERIF_TIER")
	if s.Tier == "" {
		s.Tier = "quick"
	}
	s.Shard = envInt("VERIF_SHARD", 0)
	s.NShards = envInt("VERIF_NSHARDS", 1)
	seed := uint64(1)
	if v := os.Getenv("VERIF_SEED"); v != "" {
		if n, err := strconv.ParseUint(v, 10, 64); err == nil {
			seed = n
		} else if n, err := strconv.ParseInt(v, 10, 64); err == nil {
			seed = uint64(n)
		}
	}
	s.Seed = seed
	s.scale = 1
	if v := os.Getenv("VERIF_SCALE"); v != "" {
		if f, err := strconv.ParseFloat(v, 64); err == nil && f > 0 {
			s.scale = f
		}
	}
	s.outPath = os.Getenv("VERIF_OUT")
	s.survey = os.Getenv("VERIF_SURVEY") != ""
	s.res = &Result{Property: prop, Shard: s.Shard, Seed: seed, Tier: s.Tier,
		Checks: map[string]*checkStats{}, Suppressed: map[string]int64{}, Excluded: map[string]int64{}}
	s.hashes = map[uint64]struct{}{}
	s.known = map[string]bool{}
	for _, e := range LoadKnown(s.Root) {
		if e.Property == prop && e.Open {
			for _, sg := range e.Sigs {
				s.known[sg] = true
			}
		}
	}
	if jp := os.Getenv("VERIF_JOURNAL"); jp != "" {
		f, err := os.OpenFile(jp, os.O_CREATE|os.O_RDWR|os.O_TRUNC, 0o644)
		if err == nil {
			s.journal = f
		}
	}
	return s
}

// Thorough reports whether the thorough tier is running.
func (s *Session) Thorough() bool { return s.Tier == "thorough" }

// N picks the per-process case count for the tier.
func (s *Session) N(quick, thorough int) int {
	n := quick
	if s.Thorough() {
		n = thorough
	}
	n = int(float64(n) * s.scale)
	if n < 1 {
		n = 1
	}
	return n
}

func (s *Session) End() {
	s.res.Complete = !s.T.Failed() || len(s.res.Violations) > 0
	s.res.WallS = time.Since(s.start).Seconds()
	s.res.Hashes = make([]uint64, 0, len(s.hashes))
	for h := range s.hashes {
		s.res.Hashes = append(s.res.Hashes, h)
	}
	sort.Slice(s.res.Hashes, func(i, j int) bool { return s.res.Hashes[i] < s.res.Hashes[j] })
	if s.outPath != "" {
		b, _ := json.Marshal(s.res)
		tmp := s.outPath + ".tmp"
		if err := os.WriteFile(tmp, b, 0o644); err == nil {
			os.Rename(tmp, s.outPath)
		}
	}
	if s.journal != nil {
		s.journal.Close()
	}
}

func (s *Session) seedFor(name string) uint64 {
	h := fnv.New64a()
	fmt.Fprintf(h, "%d|%s|%s|%d", s.Seed, s.Prop, name, s.Shard)
	v := h.Sum64() & 0x7fffffffffffffff
	if v == 0 {
		v = 1
	}
	return v
}

func (s *Session) stats(name, rule string) *checkStats {
	st := s.res.Checks[name]
	if st == nil {
		st = &checkStats{Classes: map[string]int64{}, Rule: rule}
		s.res.Checks[name] = st
	}
	return st
}

func hashBytes(name string, b []byte) uint64 {
	h := fnv.New64a()
	h.Write([]byte(name))
	h.Write([]byte{0})
	h.Write(b)
	return h.Sum64()
}

type evalOut struct {
	unlisted []Failure
	raw      []byte
}

// eval runs one case and does the bookkeeping. count=false while shrinking.
func eval[C any](s *Session, c *Check[C], cs C, count bool, enumerated bool) evalOut {
	var raw []byte
	if c.Journal && s.journal != nil {
		raw, _ = json.Marshal(cs)
		rec, _ := json.Marshal(map[string]interface{}{"property": s.Prop, "check": c.Name, "case": json.RawMessage(raw)})
		s.journal.Truncate(0)
		s.journal.WriteAt(rec, 0)
	}
	var wd *time.Timer
	if c.Journal {
		// inside a shard the machine is shared with the other shards (and whatever else runs): four times the
		// budget of a case that runs alone; the driver then replays the journalled case alone with HangAfter
		wd = time.AfterFunc(4*HangAfter, func() {
			fmt.Printf("HANG check=%s\n", c.Name)
			os.Exit(97)
		})
	}
	o := &Obs{}
	runGuarded(c, cs, o)
	if wd != nil {
		wd.Stop()
	}
	var unlisted []Failure
	for _, f := range o.fails {
		if s.isKnown(f.Sig) {
			if count {
				s.res.Suppressed[f.Sig]++
			}
		} else {
			unlisted = append(unlisted, f)
		}
	}
	if count {
		st := s.stats(c.Name, c.Rule)
		st.Evaluations++
		for _, cl := range o.classes {
			st.Classes[cl]++
		}
		for _, ex := range o.excluded {
			s.res.Excluded[ex]++
		}
		if o.nontrivial && enumerated {
			// enumerations yield each case once: distinct by construction
			st.EnumNonTrivial++
			if len(st.Samples) < 3 {
				if raw == nil {
					raw, _ = json.Marshal(cs)
				}
				st.Samples = append(st.Samples, json.RawMessage(raw))
			}
		} else if o.nontrivial {
			if raw == nil {
				raw, _ = json.Marshal(cs)
			}
			h := hashBytes(c.Name, raw)
			if _, dup := s.hashes[h]; !dup {
				s.hashes[h] = struct{}{}
				st.NonTrivial++
				if len(st.Samples) < 3 && len(raw) < 6000 {
					st.Samples = append(st.Samples, json.RawMessage(raw))
				}
			}
		}
	}
	if len(unlisted) > 0 && raw == nil {
		raw, _ = json.Marshal(cs)
	}
	if s.survey && len(unlisted) > 0 {
		if s.res.Survey == nil {
			s.res.Survey = map[string]*SurveyEntry{}
		}
		for _, f := range unlisted {
			e := s.res.Survey[f.Sig]
			if e == nil {
				e = &SurveyEntry{Msg: f.Msg, Check: c.Name, Case: json.RawMessage(raw)}
				s.res.Survey[f.Sig] = e
			} else if len(raw) < len(e.Case) {
				e.Msg, e.Case = f.Msg, json.RawMessage(raw)
			}
			e.Count++
		}
		unlisted = nil
	}
	return evalOut{unlisted: unlisted, raw: raw}
}

func (s *Session) isKnown(sig string) bool {
	if s.known[sig] {
		return true
	}
	for k := range s.known {
		if strings.Contains(k, "*") && Glob(k, sig) {
			return true
		}
	}
	return false
}

// Glob matches pattern with '*' wildcards against s.
func Glob(pattern, s string) bool {
	parts := strings.Split(pattern, "*")
	if len(parts) == 1 {
		return pattern == s
	}
	if !strings.HasPrefix(s, parts[0]) {
		return false
	}
	s = s[len(parts[0]):]
	for i := 1; i < len(parts)-1; i++ {
		j := strings.Index(s, parts[i])
		if j < 0 {
			return false
		}
		s = s[j+len(parts[i]):]
	}
	return strings.HasSuffix(s, parts[len(parts)-1])
}

func (s *Session) writeReplay(name string, raw []byte, fails []Failure) string {
	dir := filepath.Join(s.Root, "replays", s.Prop)
	os.MkdirAll(dir, 0o755)
	h := hashBytes(name, raw)
	p := filepath.Join(dir, fmt.Sprintf("%s-%016x.json", name, h))
	rec, _ := json.MarshalIndent(map[string]interface{}{
		"property": s.Prop, "check": name, "fails": fails, "case": json.RawMessage(raw),
	}, "", " ")
	os.WriteFile(p, rec, 0o644)
	return p
}

// Run drives a check with rapid for n cases (per process).
func Run[C any](s *Session, c *Check[C], n int) {
	st := s.stats(c.Name, c.Rule)
	st.Requested += int64(n)
	flag.Set("rapid.checks", strconv.Itoa(n))
	flag.Set("rapid.seed", strconv.FormatUint(s.seedFor(c.Name), 10))
	flag.Set("rapid.nofailfile", "true")
	flag.Set("rapid.shrinktime", "20s")
	flag.Set("rapid.steps", "30")
	var lastRaw []byte
	var lastFails []Failure
	failed := false
	s.T.Run(c.Name, func(t *testing.T) {
		defer func() {
			if failed && lastRaw != nil {
				p := s.writeReplay(c.Name, lastRaw, lastFails)
				s.res.Violations = append(s.res.Violations, Violation{Check: c.Name, Fails: lastFails, Replay: p})
			}
		}()
		rapid.Check(t, func(rt *rapid.T) {
			cs := c.Gen(rt)
			out := eval(s, c, cs, !failed, false)
			if len(out.unlisted) > 0 {
				failed = true
				lastRaw = out.raw
				lastFails = out.unlisted
				rt.Fatalf("%s: %s", out.unlisted[0].Sig, out.unlisted[0].Msg)
			}
		})
	})
}

// Each drives a check over an explicit (deterministic) enumeration. The
// enumeration must itself be a pure function of the code. exhaustive says
// whether the enumerated space is complete.
func Each[C any](s *Session, c *Check[C], exhaustive bool, iter func(yield func(C) bool)) {
	st := s.stats(c.Name, c.Rule)
	st.Exhaustive = exhaustive
	seen := map[string]bool{}
	nviol := 0
	idx := 0
	iter(func(cs C) bool {
		i := idx
		idx++
		// shard the enumeration
		if s.NShards > 1 && i%s.NShards != s.Shard {
			return true
		}
		st.Requested++
		out := eval(s, c, cs, true, true)
		if len(out.unlisted) > 0 {
			sig := out.unlisted[0].Sig
			if !seen[sig] {
				seen[sig] = true
				nviol++
				p := s.writeReplay(c.Name, out.raw, out.unlisted)
				s.res.Violations = append(s.res.Violations, Violation{Check: c.Name, Fails: out.unlisted, Replay: p})
				s.T.Errorf("%s: %s: %s", c.Name, sig, out.unlisted[0].Msg)
			}
			if nviol >= 5 {
				return false
			}
		}
		return true
	})
}

// ReplayFile runs the case in path through its check; used by --replay and by
// the witness tier.
func ReplayFile(path string) (check string, fails []Failure, err error) {
	b, err := os.ReadFile(path)
	if err != nil {
		return "", nil, err
	}
	var rec struct {
		Check string          `json:"check"`
		Case  json.RawMessage `json:"case"`
	}
	if err := json.Unmarshal(b, &rec); err != nil {
		return "", nil, err
	}
	fn := registry[rec.Check]
	if fn == nil {
		return rec.Check, nil, fmt.Errorf("unknown check %q", rec.Check)
	}
	fails, err = fn(rec.Case)
	return rec.Check, fails, err
}

var knownCache = map[string]map[string]bool{}

// Unlisted filters out failures whose signature is an open known finding of the property
// (for callers outside a Session, e.g. native fuzz targets).
func Unlisted(prop string, fails []Failure) []Failure {
	k, ok := knownCache[prop]
	if !ok {
		k = map[string]bool{}
		for _, e := range LoadKnown(Root()) {
			if e.Property == prop && e.Open {
				for _, sg := range e.Sigs {
					k[sg] = true
				}
			}
		}
		knownCache[prop] = k
	}
	var out []Failure
	for _, f := range fails {
		known := k[f.Sig]
		if !known {
			for p := range k {
				if strings.Contains(p, "*") && Glob(p, f.Sig) {
					known = true
					break
				}
			}
		}
		if !known {
			out = append(out, f)
		}
	}
	return out
}

// RunOnce runs a check on one case outside a session and returns all failures.
func RunOnce[C any](c *Check[C], cs C) []Failure {
	o := &Obs{}
	runGuarded(c, cs, o)
	return o.fails
}
