// Package ydump walks a compiled *meta.Module through its exported accessors
// only (by reflection over the method sets) and produces a canonical,
// ordered, JSON-serialisable value. Every call is guarded: an accessor that
// panics is reported, not propagated.
package ydump

import (
	"fmt"
	"reflect"
	"sort"
	"strings"

	"github.com/freeconf/yang/meta"
	"github.com/freeconf/yang/val"
)

// Dumper holds the result of one walk.
type Dumper struct {
	Panics  []string               // accessor panics seen while walking
	Seen    map[uintptr]string     // pointer -> first path (aliasing detection)
	Aliased []string               // objects reachable under two different parents
	Parents []string               // Parent() inconsistencies
	TooDeep int                    // subtrees cut at MaxDepth
	Cycles  int                    // objects reached again from themselves (recursive groupings)
	depth   int
	onPath  map[uintptr]bool
	MaxDepth int
	visits   int
}

// methods never followed (they leave the tree or are not pure accessors)
var skip = map[string]bool{
	"Parent": true, "Resolve": true, "ExtDefinition": true, "Module": true, "FeatureSet": true,
	"Definition": true, "String": true, "Evaluate": true, "CheckValue": true, "ModuleByPrefix": true,
	"Clone": true, "KeyMeta": true,
	// raw templates: their content is never compiled (expanded copies are what the schema tree holds),
	// so accessors of nodes inside them are not meaningful
	"Groupings": true, "Augments": true,
}

// accessors that are only meaningful when a companion predicate holds (the
// library's own callers test the predicate first)
var guardedBy = map[string]string{
	"DefaultValue": "HasDefault", "Default": "HasDefault",
}

var metaPkg = reflect.TypeOf(meta.Module{}).PkgPath()

func isMetaPtr(t reflect.Type) bool {
	return t.Kind() == reflect.Ptr && t.Elem().Kind() == reflect.Struct && t.Elem().PkgPath() == metaPkg
}

// Module dumps a module.
func Module(m *meta.Module) (map[string]interface{}, *Dumper) {
	d := &Dumper{Seen: map[uintptr]string{}, onPath: map[uintptr]bool{}, MaxDepth: 1200}
	out := d.obj(reflect.ValueOf(m), "/"+safeIdent(m), nil)
	return out, d
}

func safeIdent(x interface{}) (s string) {
	defer func() {
		if r := recover(); r != nil {
			s = "?"
		}
	}()
	if i, ok := x.(meta.Identifiable); ok {
		return i.Ident()
	}
	return "?"
}

func (d *Dumper) call(v reflect.Value, m reflect.Method, path string) (res []reflect.Value, ok bool) {
	defer func() {
		if r := recover(); r != nil {
			d.Panics = append(d.Panics, fmt.Sprintf("%s.%s(): %v", path, m.Name, r))
			ok = false
		}
	}()
	return v.Method(m.Index).Call(nil), true
}

// obj dumps one meta object (pointer to struct).
func (d *Dumper) obj(v reflect.Value, path string, parent interface{}) map[string]interface{} {
	if v.Kind() == reflect.Interface {
		v = v.Elem()
	}
	if !v.IsValid() || (v.Kind() == reflect.Ptr && v.IsNil()) {
		return nil
	}
	out := map[string]interface{}{}
	t := v.Type()
	kind := t.String()
	out["_kind"] = strings.TrimPrefix(kind, "*meta.")
	if v.Kind() == reflect.Ptr {
		p := v.Pointer()
		if d.onPath[p] {
			out["_cycle"] = true
			d.Cycles++
			return out
		}
		d.visits++
		if first, dup := d.Seen[p]; dup && first != path {
			if d.visits > 2500 {
				// a schema graph made of groupings that use each other many times over is walked in full up to a
				// point; from there on an object that was walked before is not walked again (the number of paths
				// through such a graph grows exponentially, the number of objects does not)
				out["_walked_before"] = true
				return out
			}
			d.Aliased = append(d.Aliased, fmt.Sprintf("%s also at %s", first, path))
		} else {
			d.Seen[p] = path
		}
		d.onPath[p] = true
		defer delete(d.onPath, p)
	}
	d.depth++
	defer func() { d.depth-- }()
	if d.depth > d.MaxDepth {
		out["_too_deep"] = true
		d.TooDeep++
		return out
	}
	// Parent() consistency
	if parent != nil {
		if mm, ok := v.Interface().(meta.Meta); ok {
			func() {
				defer func() {
					if r := recover(); r != nil {
						d.Panics = append(d.Panics, fmt.Sprintf("%s.Parent(): %v", path, r))
					}
				}()
				if got := mm.Parent(); got != nil && !sameObj(got, parent) {
					d.Parents = append(d.Parents, fmt.Sprintf("%s: Parent() is %T %s, reached from %T %s", path, got, safeIdent(got), parent, safeIdent(parent)))
				}
			}()
		}
	}
	for i := 0; i < t.NumMethod(); i++ {
		m := t.Method(i)
		if skip[m.Name] || m.Type.NumIn() != 1 || m.Type.NumOut() != 1 {
			continue
		}
		// leafref-only accessor
		rt := m.Type.Out(0)
		if !d.wanted(rt) {
			continue
		}
		if id, isIdentity := v.Interface().(*meta.Identity); isIdentity && (m.Name == "Base" || m.Name == "DerivedDirect") {
			// the identities themselves are dumped where they are defined; here the order in which they are handed out
			if m.Name == "DerivedDirect" {
				var order []interface{}
				for _, x := range id.DerivedDirect() {
					order = append(order, x.Ident())
				}
				if order != nil {
					out["DerivedDirect(order)"] = order
				}
			}
			continue
		}
		if _, isImport := v.Interface().(*meta.Import); isImport && m.Name == "Module" {
			continue
		}
		if g, guarded := guardedBy[m.Name]; guarded {
			if gm, has := t.MethodByName(g); has {
				if gr, ok := d.call(v, gm, path); !ok || !gr[0].Bool() {
					continue
				}
			}
		}
		res, ok := d.call(v, m, path)
		if !ok {
			out[m.Name] = "<panic>"
			continue
		}
		r := d.value(res[0], path+"."+m.Name, v.Interface(), m.Name)
		if r != nil {
			out[m.Name] = r
		}
	}
	// exported plain fields (Range.Entries are handled below, Pattern.Pattern, Bit.Position ...)
	if v.Kind() == reflect.Ptr && v.Elem().Kind() == reflect.Struct {
		st := v.Elem()
		for i := 0; i < st.NumField(); i++ {
			f := st.Type().Field(i)
			if f.PkgPath != "" {
				continue
			}
			switch f.Type.Kind() {
			case reflect.String:
				out["."+f.Name] = st.Field(i).String()
			case reflect.Int, reflect.Int64:
				out["."+f.Name] = st.Field(i).Int()
			case reflect.Bool:
				out["."+f.Name] = st.Field(i).Bool()
			}
		}
	}
	// things needing arguments or special care
	switch x := v.Interface().(type) {
	case *meta.Range:
		func() {
			defer func() {
				if r := recover(); r != nil {
					d.Panics = append(d.Panics, fmt.Sprintf("%s.String(): %v", path, r))
				}
			}()
			out["String"] = x.String()
		}()
	case *meta.Type:
		f := safeFormat(x)
		if f == val.FmtLeafRef || f == val.FmtLeafRefList {
			func() {
				defer func() {
					if r := recover(); r != nil {
						d.Panics = append(d.Panics, fmt.Sprintf("%s.Resolve(): %v", path, r))
					}
				}()
				if r := x.Resolve(); r != nil {
					out["ResolveFormat"] = r.Format().String()
					out["ResolveIdent"] = r.Ident()
				}
			}()
		}
		if f.Single() == val.FmtIdentityRef {
			var ids []string
			for _, b := range x.Base() {
				ids = append(ids, b.Ident())
			}
			out["BaseIdents"] = ids
			delete(out, "Base")
			// what every writer does with an identityref value: look its name up among the identities the leaf accepts
			// (a name that is not there makes the search visit them all)
			func() {
				defer func() {
					if r := recover(); r != nil {
						d.Panics = append(d.Panics, fmt.Sprintf("%s.FindIdentity(): %v", path, r))
					}
				}()
				meta.FindIdentity(x.IdentityBases(), "\x00no such identity")
			}()
		}
	case *meta.List:
		var keys []string
		func() {
			defer func() {
				if r := recover(); r != nil {
					d.Panics = append(d.Panics, fmt.Sprintf("%s.KeyMeta(): %v", path, r))
				}
			}()
			for _, k := range x.KeyMeta() {
				keys = append(keys, k.Ident())
			}
		}()
		out["KeyMeta"] = keys
	}
	return out
}

func safeFormat(t *meta.Type) (f val.Format) {
	defer func() { recover() }()
	return t.Format()
}

func sameObj(a, b interface{}) bool {
	va, vb := reflect.ValueOf(a), reflect.ValueOf(b)
	if va.Kind() == reflect.Ptr && vb.Kind() == reflect.Ptr {
		return va.Pointer() == vb.Pointer()
	}
	return false
}

var definitionT = reflect.TypeOf((*meta.Definition)(nil)).Elem()
var leafableT = reflect.TypeOf((*meta.Leafable)(nil)).Elem()

func (d *Dumper) wanted(t reflect.Type) bool {
	switch t.Kind() {
	case reflect.String, reflect.Bool, reflect.Int, reflect.Int64, reflect.Float64:
		return true
	case reflect.Ptr:
		return isMetaPtr(t)
	case reflect.Interface:
		return t == definitionT || t == leafableT || t.NumMethod() == 0
	case reflect.Slice:
		e := t.Elem()
		if e.Kind() == reflect.String || isMetaPtr(e) || e == definitionT || e == leafableT {
			return true
		}
		if e.Kind() == reflect.Slice && e.Elem().Kind() == reflect.String {
			return true
		}
		if t == reflect.TypeOf(val.EnumList{}) {
			return true
		}
		if e.Kind() == reflect.Int { // val.Format slices etc
			return true
		}
		return false
	case reflect.Map:
		return t.Key().Kind() == reflect.String && isMetaPtr(t.Elem())
	}
	return false
}

func (d *Dumper) value(r reflect.Value, path string, parent interface{}, name string) interface{} {
	switch r.Kind() {
	case reflect.String:
		return r.String()
	case reflect.Bool:
		return r.Bool()
	case reflect.Int, reflect.Int64:
		if r.Type() == reflect.TypeOf(val.Format(0)) {
			return val.Format(r.Int()).String()
		}
		return r.Int()
	case reflect.Float64:
		return r.Float()
	case reflect.Interface:
		if r.IsNil() {
			return nil
		}
		if r.Type().NumMethod() == 0 { // interface{} (DefaultValue)
			return fmt.Sprintf("%T:%v", r.Interface(), r.Interface())
		}
		return d.obj(r.Elem(), path, parent)
	case reflect.Ptr:
		if r.IsNil() {
			return nil
		}
		return d.obj(r, path, parent)
	case reflect.Slice:
		if r.Type() == reflect.TypeOf(val.EnumList{}) {
			var out []interface{}
			for _, e := range r.Interface().(val.EnumList) {
				out = append(out, map[string]interface{}{"Label": e.Label, "Id": e.Id})
			}
			return out
		}
		if r.Len() == 0 {
			return nil
		}
		out := make([]interface{}, 0, r.Len())
		for i := 0; i < r.Len(); i++ {
			e := r.Index(i)
			switch e.Kind() {
			case reflect.String:
				out = append(out, e.String())
			case reflect.Int:
				if e.Type() == reflect.TypeOf(val.Format(0)) {
					out = append(out, val.Format(e.Int()).String())
				} else {
					out = append(out, e.Int())
				}
			case reflect.Slice:
				var in []interface{}
				for j := 0; j < e.Len(); j++ {
					in = append(in, e.Index(j).String())
				}
				out = append(out, in)
			default:
				id := ""
				if e.Kind() == reflect.Interface || e.Kind() == reflect.Ptr {
					if !e.IsNil() {
						id = safeIdent(e.Interface())
					}
				}
				out = append(out, d.obj(e, fmt.Sprintf("%s[%d:%s]", path, i, id), parentFor(name, parent)))
			}
		}
		return out
	case reflect.Map:
		if r.Len() == 0 {
			return nil
		}
		keys := r.MapKeys()
		sort.Slice(keys, func(i, j int) bool { return keys[i].String() < keys[j].String() })
		out := map[string]interface{}{}
		for _, k := range keys {
			out[k.String()] = d.obj(r.MapIndex(k), path+"{"+k.String()+"}", parentFor(name, parent))
		}
		return out
	}
	return nil
}

// parentFor says which object children reached through accessor name should
// report as Parent(); nil disables the Parent() check for that accessor.
func parentFor(name string, parent interface{}) interface{} {
	switch name {
	case "DataDefinitions", "Cases", "Actions", "Notifications":
		return parent
	}
	return nil
}
