package ydump

import (
	"fmt"
	"sort"
)

// Flatten turns a dump into path -> scalar text. List elements are addressed by
// index and identifier ("[2:x]") so that a removed sibling shows as a removal.
func Flatten(v interface{}) map[string]string {
	out := map[string]string{}
	flatten(v, "", out)
	return out
}

func flatten(v interface{}, path string, out map[string]string) {
	switch x := v.(type) {
	case map[string]interface{}:
		keys := make([]string, 0, len(x))
		for k := range x {
			keys = append(keys, k)
		}
		sort.Strings(keys)
		for _, k := range keys {
			flatten(x[k], path+"/"+k, out)
		}
	case []interface{}:
		for i, e := range x {
			id := ""
			if m, ok := e.(map[string]interface{}); ok {
				if s, ok := m["Ident"].(string); ok {
					id = s
				}
			}
			if id != "" {
				flatten(e, fmt.Sprintf("%s[%s]", path, id), out)
				out[fmt.Sprintf("%s[%s]/_pos", path, id)] = fmt.Sprint(i)
			} else {
				flatten(e, fmt.Sprintf("%s[%d]", path, i), out)
			}
		}
	case nil:
	default:
		out[path] = fmt.Sprint(x)
	}
}
