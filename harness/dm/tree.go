package dm

import (
	"encoding/json"
	"fmt"
	"strings"
)

// Tree is the content of a container or list entry: child name -> value, where
// a leaf is a string (canonical text), a leaf-list []interface{} of strings, a
// container a Tree and a list []interface{} of Trees. This is exactly what
// encoding/json produces, so cases serialise without ceremony.
type Tree = map[string]interface{}

// Clone deep-copies a tree value.
func Clone(v interface{}) interface{} {
	switch x := v.(type) {
	case Tree:
		out := Tree{}
		for k, c := range x {
			out[k] = Clone(c)
		}
		return out
	case []interface{}:
		out := make([]interface{}, len(x))
		for i, c := range x {
			out[i] = Clone(c)
		}
		return out
	}
	return v
}

// CloneTree deep-copies a tree.
func CloneTree(t Tree) Tree {
	if t == nil {
		return nil
	}
	return Clone(t).(Tree)
}

// KeyOf returns the key leaf values of an entry.
func KeyOf(list *Node, entry Tree) []string {
	k := make([]string, len(list.Keys))
	for i, name := range list.Keys {
		if s, ok := entry[name].(string); ok {
			k[i] = s
		}
	}
	return k
}

func sameKey(a, b []string) bool {
	if len(a) != len(b) {
		return false
	}
	for i := range a {
		if a[i] != b[i] {
			return false
		}
	}
	return true
}

// FindEntry returns the index of the entry with the key, or -1.
func FindEntry(list *Node, entries []interface{}, key []string) int {
	if len(list.Keys) == 0 {
		return -1
	}
	for i, e := range entries {
		if sameKey(KeyOf(list, e.(Tree)), key) {
			return i
		}
	}
	return -1
}

// Entries returns the entry slice held under name (nil when absent).
func Entries(t Tree, name string) []interface{} {
	l, _ := t[name].([]interface{})
	return l
}

// ---- choices ------------------------------------------------------------------

// hasDataOfCase reports whether t holds any data node of the case (through nested choices).
func hasDataOfCase(cs *Node, t Tree) bool {
	for _, d := range cs.DataChildren() {
		if _, ok := t[d.Name]; ok {
			return true
		}
	}
	return false
}

// SelectedCase returns the first case (schema order) of the choice that has data in t.
func SelectedCase(choice *Node, t Tree) *Node {
	for _, cs := range choice.Children {
		if hasDataOfCase(cs, t) {
			return cs
		}
	}
	return nil
}

// CasesWithData lists all cases of the choice holding data (more than one = violation of C09).
func CasesWithData(choice *Node, t Tree) []string {
	var out []string
	for _, cs := range choice.Children {
		if hasDataOfCase(cs, t) {
			out = append(out, cs.Name)
		}
	}
	return out
}

// casePath returns the chain (choice, case) pairs leading from container n to data child name.
func casePath(n *Node, name string) [][2]*Node {
	for _, c := range n.Children {
		if c.Kind != "choice" {
			continue
		}
		for _, cs := range c.Children {
			for _, d := range cs.Children {
				if d.Kind != "choice" && d.Name == name {
					return [][2]*Node{{c, cs}}
				}
			}
			if sub := casePath(cs, name); sub != nil {
				return append([][2]*Node{{c, cs}}, sub...)
			}
		}
	}
	return nil
}

// clearOtherCases removes from t the data of every other case of every choice on the way to child name.
func clearOtherCases(n *Node, t Tree, name string) {
	for _, cc := range casePath(n, name) {
		choice, want := cc[0], cc[1]
		for _, cs := range choice.Children {
			if cs != want {
				for _, d := range cs.DataChildren() {
					delete(t, d.Name)
				}
			}
		}
	}
}

// visibleChildren lists data children of n as a reader sees them for content t:
// for each choice only the selected case (first with data) is descended.
func visibleChildren(n *Node, t Tree) []*Node {
	var out []*Node
	for _, c := range n.Children {
		switch c.Kind {
		case "choice":
			if cs := SelectedCase(c, t); cs != nil {
				out = append(out, visibleChildren(cs, t)...)
			}
		case "case":
			out = append(out, visibleChildren(c, t)...)
		default:
			out = append(out, c)
		}
	}
	return out
}

// ---- defaults --------------------------------------------------------------------

// applyDefaults writes defaults of leaves unset in t, for the leaves a reader of
// src-shaped content would visit (choices: only the case selected in sel).
func applyDefaults(n *Node, t Tree, sel Tree) {
	for _, d := range visibleChildren(n, sel) {
		if _, set := t[d.Name]; set {
			continue
		}
		switch d.Kind {
		case "leaf":
			if d.Default != nil {
				t[d.Name] = *d.Default
			}
		case "leaf-list":
			if len(d.Defaults) > 0 {
				l := make([]interface{}, len(d.Defaults))
				for i, x := range d.Defaults {
					l[i] = x
				}
				t[d.Name] = l
			}
		}
	}
}

// WithDefaults returns what a full read of t reports: t plus the schema default
// of every unset leaf of every container / entry that exists.
func WithDefaults(n *Node, t Tree) Tree {
	out := Tree{}
	for k, v := range t {
		out[k] = v
	}
	applyDefaults(n, out, t)
	for _, d := range n.DataChildren() {
		switch d.Kind {
		case "container":
			if c, ok := out[d.Name].(Tree); ok {
				out[d.Name] = WithDefaults(d, c)
			}
		case "list":
			if l, ok := out[d.Name].([]interface{}); ok {
				nl := make([]interface{}, len(l))
				for i, e := range l {
					nl[i] = WithDefaults(d, e.(Tree))
				}
				out[d.Name] = nl
			}
		}
	}
	return out
}

// ---- merge ------------------------------------------------------------------------

// Strategy of an edit.
type Strategy string

const (
	Upsert Strategy = "upsert"
	Insert Strategy = "insert"
	Update Strategy = "update"
)

// MergeErr is the expected failure class of a merge.
type MergeErr struct {
	Class string // "conflict" | "notfound"
	Where string
}

func (e *MergeErr) Error() string { return e.Class + " at " + e.Where }

// MergeContent merges src into target (both the content of node n: a
// container, a list entry or the module root). isNew says the target content
// was created by this edit (defaults are materialised). It implements the
// keyed deep merge of property C03; on an expected failure the target may be
// partially modified (the property does not promise atomicity).
func MergeContent(n *Node, target, src Tree, st Strategy, isNew bool, where string) *MergeErr {
	for _, d := range visibleChildren(n, src) {
		sv, present := src[d.Name]
		switch d.Kind {
		case "leaf", "leaf-list":
			if !present {
				continue
			}
			if st == Upsert {
				clearOtherCases(n, target, d.Name)
			}
			target[d.Name] = Clone(sv)
		case "container":
			if !present {
				continue
			}
			sc, _ := sv.(Tree)
			tc, exists := target[d.Name].(Tree)
			created := false
			switch st {
			case Insert:
				if exists {
					return &MergeErr{"conflict", where + "/" + d.Name}
				}
				tc, created = Tree{}, true
			case Upsert:
				clearOtherCases(n, target, d.Name)
				if !exists {
					tc, created = Tree{}, true
				}
			case Update:
				if !exists {
					return &MergeErr{"notfound", where + "/" + d.Name}
				}
			}
			target[d.Name] = tc
			if err := MergeContent(d, tc, sc, st, created, where+"/"+d.Name); err != nil {
				return err
			}
		case "list":
			if !present {
				continue
			}
			sl, _ := sv.([]interface{})
			tl, exists := target[d.Name].([]interface{})
			switch st {
			case Insert:
				if exists {
					return &MergeErr{"conflict", where + "/" + d.Name}
				}
			case Upsert:
				clearOtherCases(n, target, d.Name)
			case Update:
				if !exists {
					return &MergeErr{"notfound", where + "/" + d.Name}
				}
			}
			if tl == nil {
				tl = []interface{}{}
			}
			nl, err := MergeList(d, tl, sl, st, where+"/"+d.Name)
			target[d.Name] = nl
			if err != nil {
				return err
			}
		}
	}
	if isNew && st != Update {
		applyDefaults(n, target, src)
	}
	return nil
}

// MergeList merges source entries into the target entry slice.
func MergeList(list *Node, tl, sl []interface{}, st Strategy, where string) ([]interface{}, *MergeErr) {
	for _, se := range sl {
		s := se.(Tree)
		key := KeyOf(list, s)
		i := FindEntry(list, tl, key)
		created := false
		var te Tree
		switch st {
		case Update:
			if i < 0 {
				return tl, &MergeErr{"notfound", where + "=" + strings.Join(key, ",")}
			}
			te = tl[i].(Tree)
		case Upsert:
			if i < 0 {
				te, created = Tree{}, true
				tl = append(tl, te)
			} else {
				te = tl[i].(Tree)
			}
		case Insert:
			if i >= 0 {
				return tl, &MergeErr{"conflict", where + "=" + strings.Join(key, ",")}
			}
			te, created = Tree{}, true
			tl = append(tl, te)
		}
		if err := MergeContent(list, te, s, st, created, where+"="+strings.Join(key, ",")); err != nil {
			return tl, err
		}
	}
	return tl, nil
}

// ---- addressing --------------------------------------------------------------------

// Seg is one step of a data path.
type Seg struct {
	Name string   `json:"name"`
	Key  []string `json:"key,omitempty"`
}

// Path addresses a node in a tree.
type Path []Seg

func (p Path) String() string {
	var parts []string
	for _, s := range p {
		if s.Key != nil {
			parts = append(parts, s.Name+"="+strings.Join(s.Key, ","))
		} else {
			parts = append(parts, s.Name)
		}
	}
	return strings.Join(parts, "/")
}

// Resolve walks p from (n, t) and returns the schema node and the addressed
// value: a Tree for a container / list entry, []interface{} for a whole list,
// string / []interface{} for leaves. ok=false when the data is absent.
func Resolve(n *Node, t Tree, p Path) (sn *Node, v interface{}, ok bool) {
	cur := interface{}(t)
	sn = n
	for _, s := range p {
		ct, isTree := cur.(Tree)
		if !isTree {
			return nil, nil, false
		}
		d := sn.Child(s.Name)
		if d == nil {
			return nil, nil, false
		}
		cv, present := ct[s.Name]
		if !present {
			return d, nil, false
		}
		sn = d
		cur = cv
		if s.Key != nil {
			l, _ := cv.([]interface{})
			i := FindEntry(d, l, s.Key)
			if i < 0 {
				return d, nil, false
			}
			cur = l[i]
		}
	}
	return sn, cur, true
}

// Parent returns the Tree holding the last segment of p.
func ParentOf(n *Node, t Tree, p Path) (*Node, Tree, bool) {
	if len(p) == 0 {
		return nil, nil, false
	}
	sn, v, ok := Resolve(n, t, p[:len(p)-1])
	if !ok {
		return nil, nil, false
	}
	pt, isTree := v.(Tree)
	return sn, pt, isTree
}

// DeleteAt removes the addressed container, whole list or list entry.
func DeleteAt(n *Node, t Tree, p Path) bool {
	pn, pt, ok := ParentOf(n, t, p)
	if !ok {
		return false
	}
	last := p[len(p)-1]
	d := pn.Child(last.Name)
	if d == nil {
		return false
	}
	if last.Key == nil {
		if _, present := pt[last.Name]; !present {
			return false
		}
		delete(pt, last.Name)
		return true
	}
	l, _ := pt[last.Name].([]interface{})
	i := FindEntry(d, l, last.Key)
	if i < 0 {
		return false
	}
	nl := append(append([]interface{}{}, l[:i]...), l[i+1:]...)
	pt[last.Name] = nl
	return true
}

// ---- comparison ------------------------------------------------------------------

// DiffOpts tunes a comparison.
type DiffOpts struct {
	ListsAsSets     bool // entry order not compared (map-backed stores, replace)
	IgnoreEmptyList bool // [] equals absent
	IgnoreEmptyCont bool // {} equals absent
	AllowDefaults   bool // got may additionally hold an unset leaf at its schema default (reads may report defaults)
	ZeroIsUnset     bool // a non-key leaf holding the zero value of its Go type counts as unset on both sides (struct stores)
}

func isDefaultOf(d *Node, gv interface{}) bool {
	switch d.Kind {
	case "leaf":
		s, ok := gv.(string)
		return ok && d.Default != nil && *d.Default == s
	case "leaf-list":
		l, ok := gv.([]interface{})
		if !ok || len(d.Defaults) == 0 || len(l) != len(d.Defaults) {
			return false
		}
		for i, x := range l {
			if s, _ := x.(string); s != d.Defaults[i] {
				return false
			}
		}
		return true
	}
	return false
}

// Diff returns human readable differences between want and got (content of n); empty = equal.
func Diff(n *Node, want, got Tree, o DiffOpts, where string) []string {
	if o.ZeroIsUnset {
		o.ZeroIsUnset = false
		want, got = StripZero(n, want), StripZero(n, got)
	}
	var out []string
	names := map[string]bool{}
	for k := range want {
		names[k] = true
	}
	for k := range got {
		names[k] = true
	}
	for _, k := range sortedBoolKeys(names) {
		d := n.Child(k)
		wv, wok := want[k]
		gv, gok := got[k]
		if d == nil {
			out = append(out, fmt.Sprintf("%s/%s: not in the schema (want %v got %v)", where, k, wv, gv))
			continue
		}
		if o.IgnoreEmptyList && (d.Kind == "list" || d.Kind == "leaf-list") {
			if l, isL := wv.([]interface{}); wok && isL && len(l) == 0 {
				wok = false
			}
			if l, isL := gv.([]interface{}); gok && isL && len(l) == 0 {
				gok = false
			}
		}
		if o.IgnoreEmptyCont && d.Kind == "container" {
			if c, isC := wv.(Tree); wok && isC && len(c) == 0 {
				wok = false
			}
			if c, isC := gv.(Tree); gok && isC && len(c) == 0 {
				gok = false
			}
		}
		switch {
		case wok && !gok:
			out = append(out, fmt.Sprintf("%s/%s: missing %s (want %s)", where, k, d.Kind, short(wv)))
			continue
		case !wok && gok:
			if o.AllowDefaults && isDefaultOf(d, gv) {
				continue
			}
			out = append(out, fmt.Sprintf("%s/%s: extra %s (got %s)", where, k, d.Kind, short(gv)))
			continue
		case !wok && !gok:
			continue
		}
		switch d.Kind {
		case "leaf":
			ws, _ := wv.(string)
			gs, isS := gv.(string)
			if !isS || ws != gs {
				out = append(out, fmt.Sprintf("%s/%s: value leaf(%s) want %q got %s", where, k, d.Type.Base, ws, short(gv)))
			}
		case "leaf-list":
			if js(wv) != js(gv) {
				out = append(out, fmt.Sprintf("%s/%s: value leaf-list(%s) want %s got %s", where, k, d.Type.Base, short(wv), short(gv)))
			}
		case "container":
			wc, _ := wv.(Tree)
			gc, isT := gv.(Tree)
			if !isT {
				out = append(out, fmt.Sprintf("%s/%s: shape container got %s", where, k, short(gv)))
				continue
			}
			out = append(out, Diff(d, wc, gc, o, where+"/"+k)...)
		case "list":
			wl, _ := wv.([]interface{})
			gl, isL := gv.([]interface{})
			if !isL {
				out = append(out, fmt.Sprintf("%s/%s: shape list got %s", where, k, short(gv)))
				continue
			}
			out = append(out, diffList(d, wl, gl, o, where+"/"+k)...)
		}
	}
	return out
}

func diffList(d *Node, wl, gl []interface{}, o DiffOpts, where string) []string {
	var out []string
	if len(d.Keys) == 0 || !o.ListsAsSets {
		// positional
		if len(wl) != len(gl) {
			out = append(out, fmt.Sprintf("%s: list length want %d got %d (want keys %v got keys %v)", where, len(wl), len(gl), listKeys(d, wl), listKeys(d, gl)))
			if len(d.Keys) == 0 {
				return out
			}
		} else {
			for i := range wl {
				we, _ := wl[i].(Tree)
				ge, isT := gl[i].(Tree)
				if !isT {
					out = append(out, fmt.Sprintf("%s[%d]: shape entry got %s", where, i, short(gl[i])))
					continue
				}
				if len(d.Keys) > 0 && !sameKey(KeyOf(d, we), KeyOf(d, ge)) {
					out = append(out, fmt.Sprintf("%s: order entry %d want key %v got key %v (want keys %v got keys %v)", where, i, KeyOf(d, we), KeyOf(d, ge), listKeys(d, wl), listKeys(d, gl)))
					return out
				}
				out = append(out, Diff(d, we, ge, o, fmt.Sprintf("%s=%s", where, strings.Join(KeyOf(d, we), ",")))...)
			}
			return out
		}
	}
	// keyed set comparison
	seen := map[string]int{}
	for _, ge := range gl {
		g, isT := ge.(Tree)
		if !isT {
			out = append(out, fmt.Sprintf("%s: shape entry got %s", where, short(ge)))
			continue
		}
		ks := strings.Join(KeyOf(d, g), ",")
		seen[ks]++
		if seen[ks] == 2 {
			out = append(out, fmt.Sprintf("%s=%s: dupkey two entries with the same key", where, ks))
		}
		i := FindEntry(d, wl, KeyOf(d, g))
		if i < 0 {
			out = append(out, fmt.Sprintf("%s=%s: extra entry (got %s)", where, ks, short(ge)))
			continue
		}
		if seen[ks] == 1 {
			out = append(out, Diff(d, wl[i].(Tree), g, o, where+"="+ks)...)
		}
	}
	for _, we := range wl {
		w := we.(Tree)
		if FindEntry(d, gl, KeyOf(d, w)) < 0 {
			out = append(out, fmt.Sprintf("%s=%s: missing entry", where, strings.Join(KeyOf(d, w), ",")))
		}
	}
	return out
}

func listKeys(d *Node, l []interface{}) []string {
	var out []string
	for _, e := range l {
		if t, ok := e.(Tree); ok {
			out = append(out, strings.Join(KeyOf(d, t), ","))
		}
	}
	return out
}

func sortedBoolKeys(m map[string]bool) []string {
	x := map[string]interface{}{}
	for k := range m {
		x[k] = nil
	}
	return SortedKeys(x)
}

func js(v interface{}) string {
	b, _ := json.Marshal(v)
	return string(b)
}

func short(v interface{}) string {
	s := js(v)
	if len(s) > 160 {
		s = s[:160] + "…"
	}
	return s
}

// Clause extracts the clause word of a Diff line ("missing", "extra", "value", "order", "shape", "dupkey", "list").
func Clause(diffLine string) string {
	i := strings.Index(diffLine, ": ")
	if i < 0 {
		return "diff"
	}
	rest := diffLine[i+2:]
	parts := strings.Fields(rest)
	if len(parts) == 0 {
		return "diff"
	}
	c := parts[0]
	if len(parts) > 1 && (c == "missing" || c == "extra" || c == "value" || c == "shape") {
		k := parts[1]
		if j := strings.IndexByte(k, '('); j > 0 && c != "value" {
			k = k[:j]
		}
		return c + "-" + strings.Trim(k, "()")
	}
	return c
}
