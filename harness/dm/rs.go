package dm

import (
	"context"
	"fmt"

	"github.com/freeconf/yang/meta"
	"github.com/freeconf/yang/node"
	"github.com/freeconf/yang/nodeutil"
	"github.com/freeconf/yang/val"
)

// RS is the reference store: a literal implementation of the node.Node
// contract over a Tree, written against the harness schema model. It is the
// independent observer (export target) and the control target of edits.
type RS struct {
	Schema *Node
	Data   Tree  // content of the container / entry; for list nodes: the parent content
	list   *Node // non-nil: this node represents the list `list` held in Data[list.Name]
	// OnEvent, when set, is told about every write (recording mode)
	Log *[]RSEvent
	// Detect says how Choose detects the selected case: "" = first case with data at any depth
	path string
	// Lenient: schema nodes the model does not know (written into the module as raw text by a check) read as absent
	// instead of being an error
	Lenient bool
}

// RSEvent records one write to the reference store.
type RSEvent struct {
	Op   string      `json:"op"` // field, clear, new-container, new-list, new-entry, del-child, del-entry
	Path string      `json:"path"`
	Val  interface{} `json:"val,omitempty"`
}

// NewRS returns a reference store over content t of schema node n (module root).
func NewRS(n *Node, t Tree) *RS {
	return &RS{Schema: n, Data: t}
}

func (r *RS) ev(op, name string, v interface{}) {
	if r.Log != nil {
		*r.Log = append(*r.Log, RSEvent{Op: op, Path: r.path + "/" + name, Val: v})
	}
}

func (r *RS) sub(n *Node, t Tree, path string) *RS {
	return &RS{Schema: n, Data: t, Log: r.Log, path: path, Lenient: r.Lenient}
}

func (r *RS) Child(req node.ChildRequest) (node.Node, error) {
	name := req.Meta.Ident()
	d := r.Schema.Child(name)
	if d == nil && r.Lenient && !req.New {
		return nil, nil
	}
	if d == nil {
		return nil, fmt.Errorf("reference store: no child %s in %s", name, r.Schema.Name)
	}
	if req.Delete {
		r.ev("del-child", name, nil)
		delete(r.Data, name)
		return nil, nil
	}
	if d.Kind == "list" {
		if req.New {
			r.ev("new-list", name, nil)
			r.Data[name] = []interface{}{}
		}
		if _, ok := r.Data[name].([]interface{}); !ok {
			return nil, nil
		}
		return &RS{Schema: r.Schema, Data: r.Data, list: d, Log: r.Log, path: r.path + "/" + name}, nil
	}
	if req.New {
		r.ev("new-container", name, nil)
		r.Data[name] = Tree{}
	}
	c, ok := r.Data[name].(Tree)
	if !ok {
		return nil, nil
	}
	return r.sub(d, c, r.path+"/"+name), nil
}

func (r *RS) keyVals(list *Node, e Tree) ([]val.Value, error) {
	out := make([]val.Value, len(list.Keys))
	for i, k := range list.Keys {
		kd := list.Child(k)
		s, ok := e[k].(string)
		if !ok {
			return nil, nil
		}
		v, err := MkVal(kd.Type, s)
		if err != nil {
			return nil, err
		}
		out[i] = v
	}
	return out, nil
}

func (r *RS) keyStrings(list *Node, key []val.Value) ([]string, error) {
	out := make([]string, len(key))
	for i, v := range key {
		if i >= len(list.Keys) {
			return nil, fmt.Errorf("reference store: %d key values for %d keys", len(key), len(list.Keys))
		}
		if v == nil {
			return nil, fmt.Errorf("reference store: nil key value")
		}
		c, err := CanonOf(list.Child(list.Keys[i]).Type, v)
		if err != nil {
			return nil, err
		}
		out[i] = c
	}
	return out, nil
}

func (r *RS) Next(req node.ListRequest) (node.Node, []val.Value, error) {
	list := r.list
	if list == nil {
		return nil, nil, fmt.Errorf("reference store: Next on a non-list node %s", r.Schema.Name)
	}
	entries, _ := r.Data[list.Name].([]interface{})
	if len(req.Key) > 0 {
		ks, err := r.keyStrings(list, req.Key)
		if err != nil {
			return nil, nil, err
		}
		i := FindEntry(list, entries, ks)
		switch {
		case req.New:
			e := Tree{}
			for j, k := range list.Keys {
				if j < len(ks) {
					e[k] = ks[j]
				}
			}
			r.ev("new-entry", fmt.Sprint(ks), nil)
			r.Data[list.Name] = append(entries, e)
			return r.sub(list, e, fmt.Sprintf("%s=%v", r.path, ks)), req.Key, nil
		case req.Delete:
			if i >= 0 {
				r.ev("del-entry", fmt.Sprint(ks), nil)
				r.Data[list.Name] = append(append([]interface{}{}, entries[:i]...), entries[i+1:]...)
			}
			return nil, nil, nil
		}
		if i < 0 {
			return nil, nil, nil
		}
		return r.sub(list, entries[i].(Tree), fmt.Sprintf("%s=%v", r.path, ks)), req.Key, nil
	}
	if req.New {
		// key-less list
		e := Tree{}
		r.ev("new-entry", "", nil)
		r.Data[list.Name] = append(entries, e)
		return r.sub(list, e, fmt.Sprintf("%s[%d]", r.path, len(entries))), nil, nil
	}
	if req.Row < 0 || req.Row >= len(entries) {
		return nil, nil, nil
	}
	e := entries[req.Row].(Tree)
	key, err := r.keyVals(list, e)
	if err != nil {
		return nil, nil, err
	}
	return r.sub(list, e, fmt.Sprintf("%s[%d]", r.path, req.Row)), key, nil
}

func (r *RS) Field(req node.FieldRequest, hnd *node.ValueHandle) error {
	name := req.Meta.Ident()
	d := r.Schema.Child(name)
	if d == nil && r.Lenient && !req.Write {
		return nil
	}
	if d == nil || !d.IsLeafy() {
		return fmt.Errorf("reference store: no leaf %s in %s", name, r.Schema.Name)
	}
	if req.Write {
		if req.Clear || hnd.Val == nil {
			r.ev("clear", name, nil)
			delete(r.Data, name)
			return nil
		}
		if d.Kind == "leaf-list" {
			cs, err := CanonListOf(d.Type, hnd.Val)
			if err != nil {
				return fmt.Errorf("reference store: %s: %w", name, err)
			}
			l := make([]interface{}, len(cs))
			for i, c := range cs {
				l[i] = c
			}
			r.ev("field", name, l)
			r.Data[name] = l
			return nil
		}
		c, err := CanonOf(d.Type, hnd.Val)
		if err != nil {
			return fmt.Errorf("reference store: %s: %w", name, err)
		}
		r.ev("field", name, c)
		r.Data[name] = c
		return nil
	}
	v, ok := r.Data[name]
	if !ok {
		return nil
	}
	var err error
	if d.Kind == "leaf-list" {
		l, _ := v.([]interface{})
		cs := make([]string, len(l))
		for i, x := range l {
			cs[i], _ = x.(string)
		}
		hnd.Val, err = MkListVal(d.Type, cs)
	} else {
		s, _ := v.(string)
		hnd.Val, err = MkVal(d.Type, s)
	}
	return err
}

func (r *RS) Choose(sel *node.Selection, choice *meta.Choice) (*meta.ChoiceCase, error) {
	var ch *Node
	for _, c := range r.Schema.Choices() {
		if c.Name == choice.Ident() {
			ch = c
			break
		}
	}
	if ch == nil && r.Lenient {
		return nil, nil
	}
	if ch == nil {
		return nil, fmt.Errorf("reference store: no choice %s in %s", choice.Ident(), r.Schema.Name)
	}
	cs := SelectedCase(ch, r.Data)
	if cs == nil {
		return nil, nil
	}
	return choice.Cases()[cs.Name], nil
}

func (r *RS) BeginEdit(node.NodeRequest) error { return nil }
func (r *RS) EndEdit(node.NodeRequest) error   { return nil }

// Action reads the whole input (as an implementation would) and answers without output.
func (r *RS) Action(req node.ActionRequest) (node.Node, error) {
	if req.Input != nil {
		if _, err := nodeutil.WriteJSON(req.Input); err != nil {
			return nil, err
		}
	}
	return nil, nil
}
func (r *RS) Notify(node.NotifyRequest) (node.NotifyCloser, error) {
	return nil, fmt.Errorf("reference store: no notifications")
}
func (r *RS) Peek(*node.Selection, interface{}) interface{} { return r.Data }
func (r *RS) Context(sel *node.Selection) context.Context   { return sel.Context }
func (r *RS) Release(*node.Selection)                       {}

// NewRSList returns a reference-store node standing for the list `list` whose
// entries are held in holder[list.Name] (holder is the content of the list's parent).
func NewRSList(parent *Node, list *Node, holder Tree) *RS {
	return &RS{Schema: parent, Data: holder, list: list}
}
