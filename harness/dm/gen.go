package dm

import (
	"encoding/base64"
	"fmt"
	"math/big"
	"strings"

	"pgregory.net/rapid"
)

// GenOpts bounds the generated schemas.
type GenOpts struct {
	Types        []string // leaf base types to draw from
	KeyTypes     []string // key leaf base types
	MaxDepth     int
	MaxChildren  int
	Lists        bool
	CompoundKeys bool
	KeylessLists bool
	Choices      bool
	NestedChoice bool
	LeafLists    bool
	Defaults     bool
	ConfigFalse  bool
	Presence     bool
	Unions       bool
	Leafrefs     bool
	ReuseNames   bool // some data nodes take the name of a node elsewhere in the tree (their parent's, a cousin's)
	Augments     bool // some children are written in augment statements, some one-child cases in shorthand form
}

// AllTypes is every leaf base type the harness models.
var AllTypes = []string{"int8", "int16", "int32", "int64", "uint8", "uint16", "uint32", "uint64", "decimal64", "string", "boolean", "enumeration", "bits", "identityref", "binary", "empty"}

// DefaultGen is a rich default configuration.
func DefaultGen() GenOpts {
	return GenOpts{Types: AllTypes, KeyTypes: []string{"string", "int32", "int64", "uint8", "boolean", "enumeration"}, MaxDepth: 3, MaxChildren: 5,
		Lists: true, CompoundKeys: true, Choices: true, NestedChoice: true, LeafLists: true, Defaults: true, ConfigFalse: true, Presence: true, Unions: true, Augments: true, Leafrefs: true, ReuseNames: true}
}

type genState struct {
	t    *rapid.T
	o    GenOpts
	n    int
	mod  *Module
}

func (g *genState) name(prefix string) string {
	g.n++
	return fmt.Sprintf("%s%d", prefix, g.n)
}

// GenType draws a leaf type.
func GenType(t *rapid.T, bases []string, mod *Module, label string) *Type {
	base := rapid.SampledFrom(bases).Draw(t, label)
	return MakeType(t, base, mod, label)
}

// MakeType builds a type of the given base with drawn details.
func MakeType(t *rapid.T, base string, mod *Module, label string) *Type {
	ty := &Type{Base: base}
	switch base {
	case "decimal64":
		ty.FD = rapid.SampledFrom([]int{1, 2, 3, 3, 5, 8, 12}).Draw(t, label+"-fd")
	case "enumeration":
		n := rapid.IntRange(2, 4).Draw(t, label+"-nenum")
		v := rapid.IntRange(0, 3).Draw(t, label+"-v0")
		names := []string{"red", "green", "blue", "x-ray"}
		switch rapid.IntRange(0, 7).Draw(t, label+"-name-style") {
		case 0:
			names = []string{"1", "0", "other", "10"} // names that read as numbers, crossing the assigned values
		case 1:
			names = []string{"a b", "tab\tinside", "semi;colon", "curly{"} // an enum name is any string: blanks, a tab, punctuation
		}
		vals := make([]int, n)
		for i := 0; i < n; i++ {
			vals[i] = v
			v += rapid.IntRange(1, 3).Draw(t, label+"-dv")
		}
		// enum values need not ascend with the order of declaration
		switch rapid.IntRange(0, 3).Draw(t, label+"-valorder") {
		case 2:
			vals = rapid.Permutation(vals).Draw(t, label+"-perm")
		case 3:
			for i := range vals {
				vals[i] = i // 0 .. n-1, the inner ones swapped
			}
			if n >= 4 {
				vals[1], vals[2] = vals[2], vals[1]
			} else if n == 3 {
				vals[0], vals[1] = vals[1], vals[0]
			}
		}
		for i := 0; i < n; i++ {
			ty.Enums = append(ty.Enums, EnumDef{names[i], vals[i]})
		}
	case "bits":
		n := rapid.IntRange(2, 4).Draw(t, label+"-nbits")
		p := rapid.IntRange(1, 3).Draw(t, label+"-p0")
		names := []string{"b-one", "two", "three", "four"}
		for i := 0; i < n; i++ {
			ty.Bits = append(ty.Bits, BitDef{names[i], p})
			p += rapid.IntRange(1, 4).Draw(t, label+"-dp")
		}
	case "identityref":
		if mod != nil && len(mod.Identities) == 0 {
			mod.Identities = []Identity{{"idbase", ""}, {"id-a", "idbase"}, {"id-b", "idbase"}, {"id-c", "id-a"}, {"unrelated", ""}}
		}
		ty.IdBase = "idbase"
		ty.Idents = []string{"id-a", "id-b", "id-c"}
	case "union":
		switch rapid.IntRange(0, 4).Draw(t, label+"-members") {
		case 4:
			if mod != nil && len(mod.Identities) == 0 {
				mod.Identities = []Identity{{"idbase", ""}, {"id-a", "idbase"}, {"id-b", "idbase"}, {"id-c", "id-a"}, {"unrelated", ""}}
			}
			ty.Members = []*Type{{Base: "int32"}, {Base: "identityref", IdBase: "idbase", Idents: []string{"id-a", "id-b", "id-c"}}}
		case 0:
			ty.Members = []*Type{{Base: "decimal64", FD: 8}, {Base: "string"}}
		case 1:
			ty.Members = []*Type{{Base: "enumeration", Enums: []EnumDef{{"red", 1000}, {"green", 2000}}}, {Base: "int8"}} // no int8 is an enum value
		default:
			ty.Members = []*Type{{Base: "int32"}, {Base: "boolean"}, {Base: "string"}}
		}
	}
	return ty
}

// GenModule draws a module.
func GenModule(t *rapid.T, o GenOpts) *Module {
	g := &genState{t: t, o: o, mod: &Module{Name: "gm"}}
	n := rapid.IntRange(1, o.MaxChildren).Draw(t, "ntop")
	g.mod.Top = g.children(n, 0, true)
	if o.ReuseNames {
		g.reuseNames()
	}
	if o.Leafrefs {
		g.leafrefs()
	}
	if o.Augments {
		GenLayout(t, g.mod)
		if n := len(g.mod.Identities); n > 0 && rapid.IntRange(0, 2).Draw(t, "submodule?") == 0 {
			g.mod.SubIdents = rapid.IntRange(1, n).Draw(t, "sub-identities")
		}
		// some top-level definitions (not the first) are written in the submodule; they follow the module's own
		if len(g.mod.Top) > 1 && rapid.IntRange(0, 3).Draw(t, "sub-nodes?") == 0 {
			var stay, moved []*Node
			for i, n := range g.mod.Top {
				if i > 0 && !usesLeafref(n) && !isLeafrefTarget(g.mod.Top, n) && rapid.Bool().Draw(t, "in-submodule") {
					n.Sub = true
					moved = append(moved, n)
				} else {
					stay = append(stay, n)
				}
			}
			g.mod.Top = append(stay, moved...)
		}
	}
	return g.mod
}

func usesLeafref(n *Node) bool {
	if n.Type != nil && n.Type.Base == "leafref" {
		return true
	}
	for _, c := range n.Children {
		if usesLeafref(c) {
			return true
		}
	}
	return false
}

func isLeafrefTarget(top []*Node, n *Node) bool {
	var refers func(x *Node) bool
	refers = func(x *Node) bool {
		if x.Type != nil && x.Type.Base == "leafref" && x.Type.Path == "/"+n.Name {
			return true
		}
		for _, c := range x.Children {
			if refers(c) {
				return true
			}
		}
		return false
	}
	for _, t := range top {
		if refers(t) {
			return true
		}
	}
	return false
}

// GenLayout draws how the module text is laid out without changing what it means: one-child cases become shorthand
// cases (named after the child), and a subset of the children of a container, list, choice or case moves into one
// augment statement aimed at that node. The moved children follow the others in the model, as they do in the compiled
// schema. Key leaves stay, and every node keeps at least one child written in place.
func GenLayout(t *rapid.T, m *Module) {
	var walk func(n *Node, top bool)
	walk = func(n *Node, top bool) {
		if n.Kind == "choice" {
			for _, cs := range n.Children {
				if cs.Kind == "case" && !cs.Short && len(cs.Children) == 1 && cs.Children[0].Kind != "choice" && cs.When == "" && cs.Config == nil && cs.Extra == "" &&
					rapid.IntRange(0, 2).Draw(t, "shorthand?") == 0 {
					cs.Short = true
					cs.Name = cs.Children[0].Name
				}
			}
		}
		if !top && len(n.Children) >= 2 && !(n.Kind == "case" && n.Short) && rapid.IntRange(0, 3).Draw(t, "augment?") == 0 {
			var stay, move []*Node
			for i, c := range n.Children {
				key := false
				for _, k := range n.Keys {
					key = key || k == c.Name
				}
				if !key && i > 0 && rapid.IntRange(0, 2).Draw(t, "moved?") > 0 {
					c.Aug = true
					move = append(move, c)
				} else {
					stay = append(stay, c)
				}
			}
			n.Children = append(stay, move...)
		}
		for _, c := range n.Children {
			walk(c, false)
		}
	}
	for _, n := range m.Top {
		walk(n, false)
	}
}

// reuseNames renames some data nodes to a name that is in use elsewhere - their parent's or that of a node under another
// parent - whenever the names visible in their own parent (through choices and cases, whose names count too) stay unique.
func (g *genState) reuseNames() {
	root := &Node{Kind: "module", Children: g.mod.Top}
	var all []string
	var collect func(n *Node)
	collect = func(n *Node) {
		for _, c := range n.Children {
			if c.Kind != "choice" && c.Kind != "case" {
				all = append(all, c.Name)
			}
			collect(c)
		}
	}
	collect(root)
	if len(all) < 2 {
		return
	}
	// names visible in the data scope of a container / list / module
	var scope func(n *Node, into map[string]bool)
	scope = func(n *Node, into map[string]bool) {
		for _, c := range n.Children {
			into[c.Name] = true
			if c.Kind == "choice" || c.Kind == "case" {
				scope(c, into)
			}
		}
	}
	var walk func(holder, parent, n *Node)
	walk = func(holder, parent, n *Node) {
		if n.Kind != "choice" && n.Kind != "case" && rapid.IntRange(0, 5).Draw(g.t, "reuse-name?") == 0 {
			want := holder.Name
			if holder.Kind == "module" || rapid.Bool().Draw(g.t, "cousin") {
				want = all[rapid.IntRange(0, len(all)-1).Draw(g.t, "reused-name")]
			}
			taken := map[string]bool{}
			scope(holder, taken)
			if !taken[want] && want != n.Name {
				for i, k := range parent.Keys {
					if k == n.Name {
						parent.Keys[i] = want
					}
				}
				n.Name = want
			}
		}
		h := holder
		if n.Kind != "choice" && n.Kind != "case" {
			h = n
		}
		for _, c := range n.Children {
			walk(h, n, c)
		}
	}
	for _, c := range g.mod.Top {
		walk(root, root, c)
	}
}

// leafrefs turns some leaves and leaf-lists into leafrefs to a top-level leaf (absolute path), the values being those of
// the target's type.
func (g *genState) leafrefs() {
	var targets []*Node
	for _, n := range g.mod.Top {
		if n.Kind == "leaf" {
			switch n.Type.Base {
			case "empty", "leafref":
			default:
				targets = append(targets, n)
			}
		}
	}
	if len(targets) == 0 {
		return
	}
	// some top-level leaves are leafrefs to another one themselves and targets all the same: a chain of two steps
	if len(targets) > 1 {
		for i := 1; i < len(targets); i++ {
			if n := targets[i]; rapid.IntRange(0, 5).Draw(g.t, "leafref-hop?") == 0 {
				tg := targets[rapid.IntRange(0, i-1).Draw(g.t, "hop-target")]
				n.Type = &Type{Base: "leafref", Path: "/" + tg.Name, Target: tg.Type}
				n.Default, n.Defaults = nil, nil
			}
		}
	}
	var walk func(parent, n *Node)
	walk = func(parent, n *Node) {
		if n.Kind == "leaf" && n.Type.Base == "union" {
			// the string member of a union may be a leafref to a string leaf instead
			for i, mt := range n.Type.Members {
				if mt.Base != "string" || mt.Name != "" || len(mt.Patterns) > 0 || mt.Length != "" {
					continue
				}
				for _, tg := range targets {
					if tg != n && tg.Type.Base == "string" && tg.Type.Name == "" && len(tg.Type.Patterns) == 0 && tg.Type.Length == "" && rapid.IntRange(0, 2).Draw(g.t, "union-leafref-member?") == 0 {
						cp := *n.Type
						cp.Members = append([]*Type{}, n.Type.Members...)
						cp.Members[i] = &Type{Base: "leafref", Path: "/" + tg.Name, Target: tg.Type}
						n.Type = &cp
						break
					}
				}
				break
			}
		}
		if n.IsLeafy() && n.Type.Base != "leafref" {
			key, isTarget := false, false
			for _, k := range parent.Keys {
				key = key || k == n.Name
			}
			for _, tg := range targets {
				isTarget = isTarget || tg == n
			}
			if !key && !isTarget && rapid.IntRange(0, 9).Draw(g.t, "leafref?") == 0 {
				tg := targets[rapid.IntRange(0, len(targets)-1).Draw(g.t, "leafref-target")]
				if eb := tg.Type.Eff().Base; n.Kind == "leaf-list" && (eb == "union" || eb == "binary") {
					return // the harness has no leaf-lists of unions or binaries
				}
				n.Type = &Type{Base: "leafref", Path: "/" + tg.Name, Target: tg.Type}
				n.Default, n.Defaults = nil, nil
				if g.o.Defaults && n.Kind == "leaf" && rapid.IntRange(0, 2).Draw(g.t, "leafref-default?") == 0 {
					d := GenValue(g.t, n.Type, "default", true)
					n.Default = &d
				}
			}
		}
		for _, c := range n.Children {
			walk(n, c)
		}
	}
	root := &Node{Kind: "module", Children: g.mod.Top}
	for _, c := range g.mod.Top {
		walk(root, c)
	}
}

func (g *genState) children(n int, depth int, cfg bool) []*Node {
	var out []*Node
	for i := 0; i < n; i++ {
		out = append(out, g.node(depth, cfg))
	}
	return out
}

func (g *genState) leaf(cfg bool) *Node {
	t := g.t
	types := g.o.Types
	if g.o.Unions && rapid.IntRange(0, 11).Draw(t, "union?") == 0 {
		types = []string{"union"}
	}
	ty := GenType(t, types, g.mod, "ltype")
	lf := &Node{Kind: "leaf", Name: g.name("f"), Type: ty}
	if g.o.Defaults && ty.Base != "empty" && rapid.IntRange(0, 2).Draw(t, "default?") == 0 {
		d := GenValue(t, ty, "default", true)
		lf.Default = &d
	}
	if cfg && g.o.ConfigFalse && rapid.IntRange(0, 5).Draw(t, "cfgfalse?") == 0 {
		f := false
		lf.Config = &f
	}
	return lf
}

func (g *genState) node(depth int, cfg bool) *Node {
	t := g.t
	kinds := []string{"leaf", "leaf", "leaf"}
	if g.o.LeafLists {
		kinds = append(kinds, "leaf-list")
	}
	if depth < g.o.MaxDepth {
		kinds = append(kinds, "container", "container")
		if g.o.Lists {
			kinds = append(kinds, "list", "list")
		}
		if g.o.Choices {
			kinds = append(kinds, "choice")
		}
	}
	kind := rapid.SampledFrom(kinds).Draw(t, "kind")
	switch kind {
	case "leaf":
		return g.leaf(cfg)
	case "leaf-list":
		var bases []string
		for _, b := range g.o.Types {
			if b != "empty" && b != "binary" {
				bases = append(bases, b)
			}
		}
		ty := GenType(t, bases, g.mod, "lltype")
		ll := &Node{Kind: "leaf-list", Name: g.name("ll"), Type: ty}
		if g.o.Defaults && rapid.IntRange(0, 4).Draw(t, "lldefault?") == 0 {
			ll.Defaults = genListValueEasy(t, ty, "lldefault", 1, 2)
		}
		return ll
	case "container":
		c := &Node{Kind: "container", Name: g.name("c")}
		if g.o.Presence && rapid.IntRange(0, 4).Draw(t, "presence?") == 0 {
			c.Presence = true
		}
		ccfg := cfg
		if cfg && g.o.ConfigFalse && rapid.IntRange(0, 6).Draw(t, "ccfgfalse?") == 0 {
			f := false
			c.Config = &f
			ccfg = false
		}
		c.Children = g.children(rapid.IntRange(0, g.o.MaxChildren).Draw(t, "nchildren"), depth+1, ccfg)
		return c
	case "list":
		l := &Node{Kind: "list", Name: g.name("l")}
		nk := 1
		if g.o.CompoundKeys && rapid.IntRange(0, 3).Draw(t, "compound?") == 0 {
			nk = rapid.IntRange(2, 3).Draw(t, "nkeys")
		}
		if g.o.KeylessLists && rapid.IntRange(0, 7).Draw(t, "keyless?") == 0 {
			nk = 0
		}
		for i := 0; i < nk; i++ {
			ty := GenType(t, g.o.KeyTypes, g.mod, "ktype")
			k := &Node{Kind: "leaf", Name: g.name("k"), Type: ty}
			l.Keys = append(l.Keys, k.Name)
			l.Children = append(l.Children, k)
		}
		l.Children = append(l.Children, g.children(rapid.IntRange(0, g.o.MaxChildren-1).Draw(t, "nchildren"), depth+1, cfg)...)
		if len(l.Children) == 0 {
			l.Children = append(l.Children, g.leaf(cfg)) // a keyless list needs some content (the grammar has no empty body)
		}
		return l
	case "choice":
		ch := &Node{Kind: "choice", Name: g.name("ch")}
		nc := rapid.IntRange(2, 3).Draw(t, "ncases")
		for i := 0; i < nc; i++ {
			cs := &Node{Kind: "case", Name: g.name("cs")}
			nn := rapid.IntRange(1, 2).Draw(t, "ncase-children")
			for j := 0; j < nn; j++ {
				var c *Node
				if g.o.NestedChoice && depth+1 < g.o.MaxDepth && rapid.IntRange(0, 5).Draw(t, "nested?") == 0 {
					c = g.choiceOnly(depth + 1, cfg)
				} else {
					c = g.node(depth+1, cfg)
					for c.Kind == "choice" { // a choice directly inside is drawn via choiceOnly
						c = g.leaf(cfg)
					}
				}
				cs.Children = append(cs.Children, c)
			}
			ch.Children = append(ch.Children, cs)
		}
		return ch
	}
	return g.leaf(cfg)
}

func (g *genState) choiceOnly(depth int, cfg bool) *Node {
	ch := &Node{Kind: "choice", Name: g.name("ch")}
	for i := 0; i < 2; i++ {
		cs := &Node{Kind: "case", Name: g.name("cs")}
		if depth < g.o.MaxDepth+2 && rapid.IntRange(0, 3).Draw(g.t, "deeper-choice?") == 0 {
			// the case holds nothing but a further choice: its data is one more level of choices down
			cs.Children = append(cs.Children, g.choiceOnly(depth+2, cfg))
		} else {
			cs.Children = append(cs.Children, g.leaf(cfg))
		}
		ch.Children = append(ch.Children, cs)
	}
	return ch
}

// ---- values ----------------------------------------------------------------------

// HardStrings exercise every JSON / XML / URL metacharacter and Unicode class.
var HardStrings = []string{"", " ", "a", "abc", "a b", " lead", "trail ", "a\"b", "a\\b", "a/b", "<x>", "a&b", "a'b", "]]>", "a,b", "a=b", "100%", "a+b", "a;b", "a?b", "a#b",
	"\t", "line\nbreak", "\r", "\x01", "\x1f", "\x7f", " ", " ", "é", "日本", "\U0001F600", "a\u0000b", "{}", "[]", "null", "true", "12", "-1", "1e3", "0x1", ":", "m:x", "..", "../x", "%2F", "%", "a%2Cb"}

// EasyStrings are plain identifiers-like texts.
var EasyStrings = []string{"a", "b", "c", "alpha", "beta", "gamma", "x1", "y-2", "z_3", "Hello"}

// GenValue draws canonical text of a value of type ty. easy restricts strings to plain ones.
func GenValue(t *rapid.T, ty *Type, label string, easy bool) string {
	ty = ty.Eff()
	if min, max, ok := intRange(ty.Base); ok {
		one := big.NewInt(1)
		cands := []*big.Int{min, max, new(big.Int).Add(min, one), new(big.Int).Sub(max, one), big.NewInt(0), big.NewInt(1), big.NewInt(7), big.NewInt(100)}
		if min.Sign() < 0 {
			cands = append(cands, big.NewInt(-1), big.NewInt(-100))
		}
		if max.BitLen() > 53 {
			cands = append(cands, new(big.Int).Add(new(big.Int).Lsh(one, 53), one))
		}
		if rapid.IntRange(0, 2).Draw(t, label+"-how") > 0 {
			return cands[rapid.IntRange(0, len(cands)-1).Draw(t, label)].String()
		}
		span := new(big.Int).Sub(max, min)
		v := new(big.Int).SetUint64(rapid.Uint64().Draw(t, label))
		v.Mod(v, new(big.Int).Add(span, one))
		return v.Add(v, min).String()
	}
	switch ty.Base {
	case "decimal64":
		fd := ty.FD
		if fd == 0 {
			fd = 2
		}
		m := rapid.Int64Range(-999999, 999999).Draw(t, label)
		if fd > 3 && rapid.Bool().Draw(t, label+"-long") {
			// up to 12 significant digits: exactly representable as the shortest float64 text
			m = rapid.Int64Range(-999999999999, 999999999999).Draw(t, label+"-m")
		}
		den := new(big.Int).Exp(big.NewInt(10), big.NewInt(int64(fd)), nil)
		f, _ := new(big.Rat).SetFrac(big.NewInt(m), den).Float64()
		return CanonFloat(f)
	case "string":
		if easy {
			return rapid.SampledFrom(EasyStrings).Draw(t, label)
		}
		switch rapid.IntRange(0, 3).Draw(t, label+"-how") {
		case 0:
			return rapid.SampledFrom(HardStrings).Draw(t, label)
		case 1:
			return rapid.StringN(0, 6, 16).Draw(t, label)
		}
		return rapid.SampledFrom(EasyStrings).Draw(t, label)
	case "boolean":
		return b2s(rapid.Bool().Draw(t, label))
	case "enumeration":
		return ty.Enums[rapid.IntRange(0, len(ty.Enums)-1).Draw(t, label)].Name
	case "bits":
		var l []string
		for _, b := range ty.Bits {
			if rapid.Bool().Draw(t, label+"-"+b.Name) {
				l = append(l, b.Name)
			}
		}
		if len(l) == 0 {
			l = []string{ty.Bits[0].Name}
		}
		return strings.Join(l, " ")
	case "identityref":
		return rapid.SampledFrom(ty.Idents).Draw(t, label)
	case "binary":
		b := rapid.SliceOfN(rapid.Byte(), 0, 6).Draw(t, label)
		return base64.StdEncoding.EncodeToString(b)
	case "empty":
		return ""
	case "union":
		if len(ty.Members) == 0 {
			return "v"
		}
		// texts of a string member are such that no other member reads them
		if m := ty.Members[rapid.IntRange(0, len(ty.Members)-1).Draw(t, label+"-member")]; m.Eff().Base != "string" {
			return GenValue(t, m, label, easy)
		}
		if !easy {
			return rapid.SampledFrom([]string{"alpha", "x y", "n/a", "ü", " v ", "a<b&c"}).Draw(t, label)
		}
		return rapid.SampledFrom([]string{"alpha", "x y", "n/a", "ü"}).Draw(t, label)
	}
	return "v"
}

// GenListValue draws a leaf-list value with distinct elements.
func GenListValue(t *rapid.T, ty *Type, label string, min, max int) []string {
	n := rapid.IntRange(min, max).Draw(t, label+"-n")
	seen := map[string]bool{}
	var out []string
	for i := 0; i < n; i++ {
		v := GenValue(t, ty, fmt.Sprintf("%s-%d", label, i), false)
		if !seen[v] {
			seen[v] = true
			out = append(out, v)
		}
	}
	return out
}

func genListValueEasy(t *rapid.T, ty *Type, label string, min, max int) []string {
	n := rapid.IntRange(min, max).Draw(t, label+"-n")
	seen := map[string]bool{}
	var out []string
	for i := 0; i < n; i++ {
		v := GenValue(t, ty, fmt.Sprintf("%s-%d", label, i), true)
		if !seen[v] {
			seen[v] = true
			out = append(out, v)
		}
	}
	return out
}

// TreeOpts bounds generated data trees.
type TreeOpts struct {
	MaxEntries  int
	EasyKeys    bool // key strings from the easy pool
	EasyStrings bool // all strings from the easy pool
	PresentPct  int  // probability (percent) that an optional node is present
	NoEmptyStr  bool // never draw "" for string leaves (stores that cannot tell "" from unset)
}

// DefaultTree is a reasonable default.
func DefaultTree() TreeOpts { return TreeOpts{MaxEntries: 3, PresentPct: 65} }

// GenTree draws content for node n (container, list entry or module root).
func GenTree(t *rapid.T, n *Node, o TreeOpts) Tree {
	out := Tree{}
	genInto(t, n, out, o, false)
	return out
}

func present(t *rapid.T, o TreeOpts) bool {
	return rapid.IntRange(0, 99).Draw(t, "present?") < o.PresentPct
}

func genInto(t *rapid.T, n *Node, out Tree, o TreeOpts, inCase bool) {
	for _, c := range n.Children {
		switch c.Kind {
		case "choice":
			if !present(t, o) {
				continue
			}
			cs := c.Children[rapid.IntRange(0, len(c.Children)-1).Draw(t, "case")]
			genInto(t, cs, out, o, true)
			if !hasDataOfCase(cs, out) {
				// make sure the selected case holds something: force its first data child
				forceFirst(t, cs, out, o)
			}
		case "case":
			genInto(t, c, out, o, true)
		case "leaf":
			if isKeyOf(n, c.Name) {
				continue // keys are set by the list generator
			}
			if present(t, o) {
				out[c.Name] = genLeaf(t, c, o, false)
			}
		case "leaf-list":
			if present(t, o) {
				vs := GenListValue(t, c.Type, c.Name, 1, 3)
				if o.EasyStrings || o.NoEmptyStr {
					vs = fixStrings(t, c.Type, vs, o)
				}
				l := make([]interface{}, len(vs))
				for i, v := range vs {
					l[i] = v
				}
				out[c.Name] = l
			}
		case "container":
			if present(t, o) {
				out[c.Name] = GenTree(t, c, o)
			}
		case "list":
			if present(t, o) {
				out[c.Name] = GenEntries(t, c, o)
			}
		}
	}
}

func fixStrings(t *rapid.T, ty *Type, vs []string, o TreeOpts) []string {
	if ty.Eff().Base != "string" {
		return vs
	}
	seen := map[string]bool{}
	var out []string
	for i, v := range vs {
		if o.EasyStrings || v == "" {
			v = rapid.SampledFrom(EasyStrings).Draw(t, fmt.Sprintf("easy%d", i))
		}
		if !seen[v] {
			seen[v] = true
			out = append(out, v)
		}
	}
	return out
}

func genLeaf(t *rapid.T, c *Node, o TreeOpts, key bool) string {
	easy := o.EasyStrings || (key && o.EasyKeys)
	v := GenValue(t, c.Type, c.Name, easy)
	if o.NoEmptyStr && v == "" && c.Type.Eff().Base == "string" {
		v = "e"
	}
	return v
}

func forceFirst(t *rapid.T, cs *Node, out Tree, o TreeOpts) {
	for _, c := range cs.Children {
		switch c.Kind {
		case "leaf":
			out[c.Name] = genLeaf(t, c, o, false)
			return
		case "leaf-list":
			out[c.Name] = []interface{}{GenValue(t, c.Type, c.Name, o.EasyStrings)}
			return
		case "container":
			out[c.Name] = GenTree(t, c, o)
			return
		case "list":
			out[c.Name] = GenEntries(t, c, o)
			return
		case "choice":
			forceFirst(t, c.Children[0], out, o)
			return
		}
	}
}

func isKeyOf(n *Node, name string) bool {
	if n.Kind != "list" {
		return false
	}
	for _, k := range n.Keys {
		if k == name {
			return true
		}
	}
	return false
}

// GenEntries draws list entries with distinct keys.
func GenEntries(t *rapid.T, l *Node, o TreeOpts) []interface{} {
	n := rapid.IntRange(0, o.MaxEntries).Draw(t, l.Name+"-n")
	seen := map[string]bool{}
	out := []interface{}{}
	for i := 0; i < n; i++ {
		e := Tree{}
		var ks []string
		for _, k := range l.Keys {
			kv := genLeaf(t, l.Child(k), o, true)
			if kv == "" && l.Child(k).Type.Eff().Base == "string" {
				kv = "k"
			}
			e[k] = kv
			ks = append(ks, kv)
		}
		id := strings.Join(ks, "\x00")
		if len(l.Keys) > 0 {
			if seen[id] {
				continue
			}
			seen[id] = true
		}
		genInto(t, l, e, o, false)
		out = append(out, e)
	}
	return out
}

// Subsample draws a sub-tree of u: every optional node is kept with
// probability keepPct, list entries likewise, and kept non-key leaves are
// redrawn with probability redrawPct. Two subsamples of one universe overlap,
// differ and nest in every way a merge has to handle.
func Subsample(t *rapid.T, n *Node, u Tree, keepPct, redrawPct int, o TreeOpts) Tree {
	out := Tree{}
	for _, d := range n.DataChildren() {
		v, ok := u[d.Name]
		if !ok {
			continue
		}
		isKey := isKeyOf(n, d.Name)
		if !isKey && rapid.IntRange(0, 99).Draw(t, "keep?") >= keepPct {
			continue
		}
		switch d.Kind {
		case "leaf":
			if !isKey && rapid.IntRange(0, 99).Draw(t, "redraw?") < redrawPct {
				out[d.Name] = genLeaf(t, d, o, false)
			} else {
				out[d.Name] = v
			}
		case "leaf-list":
			out[d.Name] = Clone(v)
		case "container":
			out[d.Name] = Subsample(t, d, v.(Tree), keepPct, redrawPct, o)
		case "list":
			var nl []interface{}
			for _, e := range v.([]interface{}) {
				if rapid.IntRange(0, 99).Draw(t, "keepentry?") < keepPct {
					nl = append(nl, Subsample(t, d, e.(Tree), keepPct, redrawPct, o))
				}
			}
			if nl == nil {
				nl = []interface{}{}
			}
			out[d.Name] = nl
		}
	}
	// a choice must not end up with two cases: keep only the first selected case's data
	for _, ch := range n.Choices() {
		cases := CasesWithData(ch, out)
		if len(cases) > 1 {
			for _, cs := range ch.Children {
				if cs.Name != cases[0] {
					for _, dd := range cs.DataChildren() {
						delete(out, dd.Name)
					}
				}
			}
		}
	}
	return out
}

// AllPaths lists the paths of every container, list and list entry present in t.
func AllPaths(n *Node, t Tree, prefix Path) []Path {
	var out []Path
	for _, d := range n.DataChildren() {
		v, ok := t[d.Name]
		if !ok {
			continue
		}
		switch d.Kind {
		case "container":
			p := append(append(Path{}, prefix...), Seg{Name: d.Name})
			out = append(out, p)
			out = append(out, AllPaths(d, v.(Tree), p)...)
		case "list":
			p := append(append(Path{}, prefix...), Seg{Name: d.Name})
			out = append(out, p)
			if len(d.Keys) == 0 {
				continue
			}
			for _, e := range v.([]interface{}) {
				ep := append(append(Path{}, prefix...), Seg{Name: d.Name, Key: KeyOf(d, e.(Tree))})
				out = append(out, ep)
				out = append(out, AllPaths(d, e.(Tree), ep)...)
			}
		}
	}
	return out
}
