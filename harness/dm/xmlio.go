package dm

import (
	"bytes"
	"encoding/xml"
	"fmt"
	"io"
	"strings"
)

// XNode is a generic XML element decoded with the standard library.
type XNode struct {
	Name     string
	NS       string
	Text     string
	Children []*XNode
}

// ParseXML decodes text with encoding/xml and insists on exactly one root
// element with nothing but whitespace, comments or a declaration around it.
func ParseXML(text string) (*XNode, error) {
	dec := xml.NewDecoder(strings.NewReader(text))
	var root *XNode
	var stack []*XNode
	for {
		tok, err := dec.Token()
		if err == io.EOF {
			break
		}
		if err != nil {
			return nil, fmt.Errorf("malformed XML: %w", err)
		}
		switch x := tok.(type) {
		case xml.StartElement:
			n := &XNode{Name: x.Name.Local, NS: x.Name.Space}
			if len(stack) == 0 {
				if root != nil {
					return nil, fmt.Errorf("multi-root: second root element <%s>", n.Name)
				}
				root = n
			} else {
				p := stack[len(stack)-1]
				p.Children = append(p.Children, n)
			}
			stack = append(stack, n)
		case xml.EndElement:
			stack = stack[:len(stack)-1]
		case xml.CharData:
			if len(stack) == 0 {
				if strings.TrimSpace(string(x)) != "" {
					return nil, fmt.Errorf("multi-root: text %q outside the root element", string(x))
				}
				continue
			}
			stack[len(stack)-1].Text += string(x)
		}
	}
	if root == nil {
		return nil, fmt.Errorf("no root element")
	}
	return root, nil
}

// XMLToTree reads the children of element x as content of schema node n.
// Leaf text is taken exactly as decoded.
func XMLToTree(n *Node, x *XNode, ns string, where string) (Tree, []Problem) {
	out := Tree{}
	var probs []Problem
	for _, c := range x.Children {
		d := n.Child(c.Name)
		if d == nil {
			probs = append(probs, Problem{"name", n.Kind, fmt.Sprintf("%s: element <%s> is not a schema child", where, c.Name)})
			continue
		}
		if c.NS != "" && c.NS != ns {
			probs = append(probs, Problem{"namespace", d.Kind, fmt.Sprintf("%s: element <%s> is in namespace %q, want %q", where, c.Name, c.NS, ns)})
		}
		switch d.Kind {
		case "leaf":
			if _, dup := out[d.Name]; dup {
				probs = append(probs, Problem{"dup", "leaf", fmt.Sprintf("%s: leaf <%s> twice", where, c.Name)})
			}
			v, p := normXMLLeaf(d.Type, c.Text)
			if p != "" {
				probs = append(probs, Problem{"value", d.Type.Eff().Base, fmt.Sprintf("%s/%s: %s", where, d.Name, p)})
				continue
			}
			out[d.Name] = v
		case "leaf-list":
			v, p := normXMLLeaf(d.Type, c.Text)
			if p != "" {
				probs = append(probs, Problem{"value", d.Type.Eff().Base, fmt.Sprintf("%s/%s: %s", where, d.Name, p)})
				continue
			}
			l, _ := out[d.Name].([]interface{})
			out[d.Name] = append(l, v)
		case "container":
			if _, dup := out[d.Name]; dup {
				probs = append(probs, Problem{"dup", "container", fmt.Sprintf("%s: container <%s> twice", where, c.Name)})
			}
			t, ps := XMLToTree(d, c, ns, where+"/"+d.Name)
			probs = append(probs, ps...)
			out[d.Name] = t
		case "list":
			t, ps := XMLToTree(d, c, ns, where+"/"+d.Name)
			probs = append(probs, ps...)
			l, _ := out[d.Name].([]interface{})
			out[d.Name] = append(l, t)
		}
	}
	return out, probs
}

func normXMLLeaf(t *Type, text string) (string, string) {
	t = t.Eff()
	switch t.Base {
	case "bits":
		return CanonBits(t, strings.Fields(text)), ""
	case "identityref":
		if i := strings.IndexByte(text, ':'); i >= 0 {
			text = text[i+1:]
		}
		return text, ""
	case "union":
		for _, m := range t.Members {
			if ValidFor(m, text) {
				return text, ""
			}
		}
		return text, ""
	}
	return text, ""
}

// TreeToXML renders content t of node n as child elements (harness writer) in
// the given element order; order lists the data child names to emit in
// sequence (each occurrence emits the next pending element of that name).
func TreeToXML(n *Node, t Tree) []*XNode {
	var out []*XNode
	for _, d := range n.DataChildren() {
		v, ok := t[d.Name]
		if !ok {
			continue
		}
		switch d.Kind {
		case "leaf":
			s, _ := v.(string)
			out = append(out, &XNode{Name: d.Name, Text: s})
		case "leaf-list":
			l, _ := v.([]interface{})
			for _, x := range l {
				s, _ := x.(string)
				out = append(out, &XNode{Name: d.Name, Text: s})
			}
		case "container":
			c, _ := v.(Tree)
			out = append(out, &XNode{Name: d.Name, Children: TreeToXML(d, c)})
		case "list":
			l, _ := v.([]interface{})
			for _, e := range l {
				out = append(out, &XNode{Name: d.Name, Children: TreeToXML(d, e.(Tree))})
			}
		}
	}
	return out
}

// Render writes the element with escaped text.
func (x *XNode) Render(b *bytes.Buffer, ns string) {
	b.WriteString("<" + x.Name)
	if ns != "" {
		b.WriteString(" xmlns=\"")
		xml.EscapeText(b, []byte(ns))
		b.WriteString("\"")
	}
	b.WriteString(">")
	if len(x.Children) == 0 {
		xml.EscapeText(b, []byte(x.Text))
	}
	for _, c := range x.Children {
		c.Render(b, "")
	}
	b.WriteString("</" + x.Name + ">")
}
