package dm

import (
	"fmt"
	"math/big"
	"regexp"
	"strings"
	"unicode/utf8"
)

// Interval is a closed interval of a range / length restriction.
type Interval struct {
	Lo, Hi *big.Rat
}

// BaseBounds returns the value space bounds of a numeric base type (length: 0..2^64-1).
func BaseBounds(base string, fd int) (lo, hi *big.Rat) {
	if min, max, ok := intRange(base); ok {
		return new(big.Rat).SetInt(min), new(big.Rat).SetInt(max)
	}
	switch base {
	case "decimal64":
		den := new(big.Int).Exp(big.NewInt(10), big.NewInt(int64(fd)), nil)
		min, _ := new(big.Int).SetString("-9223372036854775808", 10)
		max, _ := new(big.Int).SetString("9223372036854775807", 10)
		return new(big.Rat).SetFrac(min, den), new(big.Rat).SetFrac(max, den)
	case "length":
		max, _ := new(big.Int).SetString("18446744073709551615", 10)
		return new(big.Rat), new(big.Rat).SetInt(max)
	}
	return nil, nil
}

// ParseRange evaluates a range / length argument against the parent bounds
// (what "min" and "max" denote at this level).
func ParseRange(expr string, parentLo, parentHi *big.Rat) ([]Interval, error) {
	var out []Interval
	num := func(s string) (*big.Rat, error) {
		s = strings.TrimSpace(s)
		switch s {
		case "min":
			return parentLo, nil
		case "max":
			return parentHi, nil
		}
		r, ok := new(big.Rat).SetString(s)
		if !ok {
			return nil, fmt.Errorf("bad number %q", s)
		}
		return r, nil
	}
	for _, part := range strings.Split(expr, "|") {
		if i := strings.Index(part, ".."); i >= 0 {
			lo, err := num(part[:i])
			if err != nil {
				return nil, err
			}
			hi, err := num(part[i+2:])
			if err != nil {
				return nil, err
			}
			out = append(out, Interval{lo, hi})
		} else {
			v, err := num(part)
			if err != nil {
				return nil, err
			}
			out = append(out, Interval{v, v})
		}
	}
	return out, nil
}

// InIntervals reports membership.
func InIntervals(ivs []Interval, v *big.Rat) bool {
	for _, iv := range ivs {
		if v.Cmp(iv.Lo) >= 0 && v.Cmp(iv.Hi) <= 0 {
			return true
		}
	}
	return false
}

// Hull returns the overall bounds of a set of intervals.
func Hull(ivs []Interval) (lo, hi *big.Rat) {
	for _, iv := range ivs {
		if lo == nil || iv.Lo.Cmp(lo) < 0 {
			lo = iv.Lo
		}
		if hi == nil || iv.Hi.Cmp(hi) > 0 {
			hi = iv.Hi
		}
	}
	return
}

// Restr is the restriction statements of one derivation level.
type Restr struct {
	Range    string   `json:"range,omitempty"`
	Length   string   `json:"length,omitempty"`
	Patterns []string `json:"patterns,omitempty"` // "!re" = invert-match
}

// InRange evaluates the numeric value against every level's range (RFC 7950 9.2.4:
// each level restricts its parent, so the value has to be inside all of them).
func InRange(base string, fd int, levels []Restr, v *big.Rat, length bool) (bool, error) {
	lo, hi := BaseBounds(base, fd)
	if length {
		lo, hi = BaseBounds("length", 0)
	}
	if v.Cmp(lo) < 0 || v.Cmp(hi) > 0 {
		return false, nil
	}
	for _, l := range levels {
		expr := l.Range
		if length {
			expr = l.Length
		}
		if expr == "" {
			continue
		}
		ivs, err := ParseRange(expr, lo, hi)
		if err != nil {
			return false, err
		}
		if !InIntervals(ivs, v) {
			return false, nil
		}
		lo, hi = Hull(ivs)
	}
	return true, nil
}

// MatchesPatterns: every pattern of every level must match the whole string
// (XSD patterns are implicitly anchored), with invert-match honoured.
func MatchesPatterns(levels []Restr, s string) (bool, error) {
	for _, l := range levels {
		for _, p := range l.Patterns {
			inv := strings.HasPrefix(p, "!")
			if inv {
				p = p[1:]
			}
			re, err := regexp.Compile("^(?:" + p + ")$")
			if err != nil {
				return false, err
			}
			if re.MatchString(s) == inv {
				return false, nil
			}
		}
	}
	return true, nil
}

// StringOK evaluates length (in characters) and patterns.
func StringOK(levels []Restr, s string) (bool, error) {
	n := new(big.Rat).SetInt64(int64(utf8.RuneCountInString(s)))
	ok, err := InRange("string", 0, levels, n, true)
	if err != nil || !ok {
		return false, err
	}
	return MatchesPatterns(levels, s)
}
