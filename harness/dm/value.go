package dm

import (
	"encoding/base64"
	"fmt"
	"math/big"
	"sort"
	"strconv"
	"strings"

	"github.com/freeconf/yang/val"
)

// Canonical leaf values are strings:
//   intN/uintN   decimal digits                         decimal64  shortest float64 text ('f', -1)
//   string       the text                               boolean    true | false
//   enumeration  the label                              bits       labels sorted by position, blank separated
//   identityref  bare identity name                     binary     base64 text
//   empty        ""                                     union      text of the member value
// leaf-lists are []string of those.

func intRange(base string) (min, max *big.Int, ok bool) {
	s := func(x string) *big.Int { v, _ := new(big.Int).SetString(x, 10); return v }
	switch base {
	case "int8":
		return s("-128"), s("127"), true
	case "int16":
		return s("-32768"), s("32767"), true
	case "int32":
		return s("-2147483648"), s("2147483647"), true
	case "int64":
		return s("-9223372036854775808"), s("9223372036854775807"), true
	case "uint8":
		return s("0"), s("255"), true
	case "uint16":
		return s("0"), s("65535"), true
	case "uint32":
		return s("0"), s("4294967295"), true
	case "uint64":
		return s("0"), s("18446744073709551615"), true
	}
	return nil, nil, false
}

// IsInt reports an integer base type.
func IsInt(base string) bool { _, _, ok := intRange(base); return ok }

// CanonFloat is the canonical text of a decimal64 held as float64.
func CanonFloat(f float64) string {
	if f == 0 {
		return "0"
	}
	return strconv.FormatFloat(f, 'f', -1, 64)
}

// MkVal builds the library value for canonical text c of type t directly from
// the val constructors (no library conversion involved).
func MkVal(t *Type, c string) (val.Value, error) {
	t = t.Eff()
	switch t.Base {
	case "int8", "int16", "int32", "int64", "uint8", "uint16", "uint32", "uint64":
		b, ok := new(big.Int).SetString(c, 10)
		if !ok {
			return nil, fmt.Errorf("not an integer %q", c)
		}
		switch t.Base {
		case "int8":
			return val.Int8(int8(b.Int64())), nil
		case "int16":
			return val.Int16(int16(b.Int64())), nil
		case "int32":
			return val.Int32(int32(b.Int64())), nil
		case "int64":
			return val.Int64(b.Int64()), nil
		case "uint8":
			return val.UInt8(uint8(b.Uint64())), nil
		case "uint16":
			return val.UInt16(uint16(b.Uint64())), nil
		case "uint32":
			return val.UInt32(uint32(b.Uint64())), nil
		default:
			return val.UInt64(uint(b.Uint64())), nil
		}
	case "decimal64":
		f, err := strconv.ParseFloat(c, 64)
		if err != nil {
			return nil, err
		}
		return val.Decimal64(f), nil
	case "string":
		return val.String(c), nil
	case "boolean":
		return val.Bool(c == "true"), nil
	case "enumeration":
		for _, e := range t.Enums {
			if e.Name == c {
				return val.Enum{Id: e.Value, Label: e.Name}, nil
			}
		}
		return nil, fmt.Errorf("no enum %q", c)
	case "bits":
		var b val.Bits
		for _, l := range strings.Fields(c) {
			found := false
			for _, d := range t.Bits {
				if d.Name == l {
					b.Positions |= 1 << uint(d.Pos)
					b.Labels = append(b.Labels, l)
					found = true
				}
			}
			if !found {
				return nil, fmt.Errorf("no bit %q", l)
			}
		}
		return b, nil
	case "identityref":
		return val.IdentRef{Label: c}, nil
	case "binary":
		return val.Binary([]byte(c)), nil
	case "empty":
		return val.NotEmpty, nil
	case "union":
		for _, m := range t.Members {
			if ValidFor(m, c) {
				return MkVal(m, c)
			}
		}
		return nil, fmt.Errorf("no union member for %q", c)
	}
	return nil, fmt.Errorf("type %s", t.Base)
}

// MkListVal builds the leaf-list value.
func MkListVal(t *Type, cs []string) (val.Value, error) {
	t = t.Eff()
	vals := make([]val.Value, len(cs))
	for i, c := range cs {
		v, err := MkVal(t, c)
		if err != nil {
			return nil, err
		}
		vals[i] = v
	}
	switch t.Base {
	case "int8":
		l := make([]int8, len(vals))
		for i, v := range vals {
			l[i] = int8(v.(val.Int8))
		}
		return val.Int8List(l), nil
	case "int16":
		l := make([]int16, len(vals))
		for i, v := range vals {
			l[i] = int16(v.(val.Int16))
		}
		return val.Int16List(l), nil
	case "int32":
		l := make([]int32, len(vals))
		for i, v := range vals {
			l[i] = int32(v.(val.Int32))
		}
		return val.Int32List(l), nil
	case "int64":
		l := make([]int64, len(vals))
		for i, v := range vals {
			l[i] = int64(v.(val.Int64))
		}
		return val.Int64List(l), nil
	case "uint8":
		l := make([]uint8, len(vals))
		for i, v := range vals {
			l[i] = uint8(v.(val.UInt8))
		}
		return val.UInt8List(l), nil
	case "uint16":
		l := make([]uint16, len(vals))
		for i, v := range vals {
			l[i] = uint16(v.(val.UInt16))
		}
		return val.UInt16List(l), nil
	case "uint32":
		l := make([]uint32, len(vals))
		for i, v := range vals {
			l[i] = uint32(v.(val.UInt32))
		}
		return val.UInt32List(l), nil
	case "uint64":
		l := make([]uint64, len(vals))
		for i, v := range vals {
			l[i] = uint64(v.(val.UInt64))
		}
		return val.UInt64List(l), nil
	case "decimal64":
		l := make([]float64, len(vals))
		for i, v := range vals {
			l[i] = float64(v.(val.Decimal64))
		}
		return val.Decimal64List(l), nil
	case "string":
		return val.StringList(cs), nil
	case "boolean":
		l := make([]bool, len(vals))
		for i, v := range vals {
			l[i] = bool(v.(val.Bool))
		}
		return val.BoolList(l), nil
	case "enumeration":
		l := make([]val.Enum, len(vals))
		for i, v := range vals {
			l[i] = v.(val.Enum)
		}
		return val.EnumList(l), nil
	case "identityref":
		l := make([]val.IdentRef, len(vals))
		for i, v := range vals {
			l[i] = v.(val.IdentRef)
		}
		return val.IdentRefList(l), nil
	case "bits":
		l := make([]val.Bits, len(vals))
		for i, v := range vals {
			l[i] = v.(val.Bits)
		}
		return val.BitsList(l), nil
	}
	return nil, fmt.Errorf("leaf-list of %s not supported by the harness", t.Base)
}

// ValidFor reports whether canonical text c is a value of type t (type-level
// only: restrictions are the business of C05's own evaluator).
func ValidFor(t *Type, c string) bool {
	t = t.Eff()
	if min, max, ok := intRange(t.Base); ok {
		b, ok := new(big.Int).SetString(c, 10)
		return ok && b.Cmp(min) >= 0 && b.Cmp(max) <= 0 && b.String() == c
	}
	switch t.Base {
	case "decimal64":
		f, err := strconv.ParseFloat(c, 64)
		return err == nil && CanonFloat(f) == c
	case "boolean":
		return c == "true" || c == "false"
	case "enumeration":
		for _, e := range t.Enums {
			if e.Name == c {
				return true
			}
		}
		return false
	case "bits":
		for _, l := range strings.Fields(c) {
			ok := false
			for _, d := range t.Bits {
				ok = ok || d.Name == l
			}
			if !ok {
				return false
			}
		}
		return true
	case "identityref":
		for _, i := range t.Idents {
			if i == c {
				return true
			}
		}
		return false
	case "binary":
		_, err := base64.StdEncoding.DecodeString(c)
		return err == nil
	case "empty":
		return c == ""
	case "union":
		for _, m := range t.Members {
			if ValidFor(m, c) {
				return true
			}
		}
		return false
	}
	return true
}

// CanonBits orders labels by position.
func CanonBits(t *Type, labels []string) string {
	pos := map[string]int{}
	for _, d := range t.Bits {
		pos[d.Name] = d.Pos
	}
	l := append([]string{}, labels...)
	sort.SliceStable(l, func(i, j int) bool { return pos[l[i]] < pos[l[j]] })
	return strings.Join(l, " ")
}

// CanonOf maps a library value of a leaf of type t to canonical text using
// only Format(), Value() and String().
func CanonOf(t *Type, v val.Value) (string, error) {
	t = t.Eff()
	if v == nil {
		return "", fmt.Errorf("nil value")
	}
	switch x := v.Value().(type) {
	case int8:
		return strconv.FormatInt(int64(x), 10), nil
	case int16:
		return strconv.FormatInt(int64(x), 10), nil
	case int32:
		return strconv.FormatInt(int64(x), 10), nil
	case int:
		return strconv.FormatInt(int64(x), 10), nil
	case int64:
		return strconv.FormatInt(x, 10), nil
	case uint8:
		return strconv.FormatUint(uint64(x), 10), nil
	case uint16:
		return strconv.FormatUint(uint64(x), 10), nil
	case uint32:
		return strconv.FormatUint(uint64(x), 10), nil
	case uint:
		return strconv.FormatUint(uint64(x), 10), nil
	case uint64:
		if v.Format() == val.FmtBits {
			if b, ok := v.(val.Bits); ok {
				return CanonBits(t, b.Labels), nil
			}
		}
		return strconv.FormatUint(x, 10), nil
	case float64:
		return CanonFloat(x), nil
	case bool:
		return b2s(x), nil
	case string:
		return x, nil
	case val.Enum:
		return x.Label, nil
	case val.IdentRef:
		return x.Label, nil
	case []byte:
		return v.String(), nil // Binary keeps the base64 text
	case val.NotEmptyType:
		return "", nil
	}
	return "", fmt.Errorf("value %T (format %s) not understood", v.Value(), v.Format())
}

// CanonListOf maps a list value to canonical texts.
func CanonListOf(t *Type, v val.Value) ([]string, error) {
	l, ok := v.(val.Listable)
	if !ok {
		if v != nil && !v.Format().IsList() {
			c, err := CanonOf(t, v)
			return []string{c}, err
		}
		return nil, fmt.Errorf("value %T is not listable", v)
	}
	out := make([]string, l.Len())
	for i := 0; i < l.Len(); i++ {
		c, err := CanonOf(t, l.Item(i))
		if err != nil {
			return nil, err
		}
		out[i] = c
	}
	return out, nil
}
