package dm

import (
	"fmt"
	"reflect"
	"sort"
	"strconv"

	"github.com/freeconf/yang/node"
	"github.com/freeconf/yang/nodeutil"
)

// Struct-backed stores: Go struct types are built at run time (reflect.StructOf) from the schema model: a container is
// a pointer to a struct, a list a slice of struct pointers (or a map keyed by a single string key), a leaf a plain Go
// field, a leaf-list a slice. Every second field is named the way the library derives field names from YANG names,
// the others carry a `yang:"name"` tag. A plain Go field cannot be "unset": its zero value is what a struct-backed
// node reports for a leaf nobody wrote, so comparisons against the model treat zero-valued non-key leaves as unset
// on both sides (Store.ZeroIsUnset / DiffOpts.ZeroIsUnset).

// StructTypesOK lists the leaf base types struct stores are built for.
var StructTypes = []string{"int8", "int32", "int64", "uint16", "uint64", "decimal64", "string", "boolean"}

// goLeafType: exact = the Go type the library's values carry natively (nodeutil.Node assigns without converting; its
// tests declare int fields for int32 leaves), otherwise the width-matching Go type (nodeutil.Reflect converts).
func goLeafType(t *Type, exact bool) (reflect.Type, error) {
	if exact {
		switch t.Eff().Base {
		case "int32":
			return reflect.TypeOf(int(0)), nil
		case "uint32":
			return reflect.TypeOf(uint(0)), nil
		}
	}
	switch t.Eff().Base {
	case "int8":
		return reflect.TypeOf(int8(0)), nil
	case "int16":
		return reflect.TypeOf(int16(0)), nil
	case "int32":
		return reflect.TypeOf(int32(0)), nil
	case "int64":
		return reflect.TypeOf(int64(0)), nil
	case "uint8":
		return reflect.TypeOf(uint8(0)), nil
	case "uint16":
		return reflect.TypeOf(uint16(0)), nil
	case "uint32":
		return reflect.TypeOf(uint32(0)), nil
	case "uint64":
		return reflect.TypeOf(uint64(0)), nil
	case "decimal64":
		return reflect.TypeOf(float64(0)), nil
	case "string", "enumeration", "identityref":
		return reflect.TypeOf(""), nil
	case "boolean":
		return reflect.TypeOf(false), nil
	}
	return nil, fmt.Errorf("no struct field type for %s", t.Eff().Base)
}

type structLayout struct {
	exact  bool
	types  map[*Node]reflect.Type
	fields map[*Node]map[string]string // container -> yang name -> field name
}

// listOfValues: the list is a slice of struct values ([]S) rather than of pointers ([]*S); only nodeutil.Reflect
// documents support for that.
func (l *structLayout) listOfValues(d *Node) bool {
	if l.exact || l.listIsMap(d) {
		return false
	}
	h := 0
	for _, r := range d.Name {
		h += int(r)
	}
	return h%2 == 0
}

func (l *structLayout) listIsMap(d *Node) bool {
	if len(d.Keys) != 1 || d.Child(d.Keys[0]).Type.Eff().Base != "string" {
		return false
	}
	h := 0
	for _, r := range d.Name {
		h += int(r)
	}
	return h%2 == 1
}

func (l *structLayout) typeOf(n *Node) (reflect.Type, error) {
	if t, ok := l.types[n]; ok {
		return t, nil
	}
	var fs []reflect.StructField
	names := map[string]string{}
	for i, d := range n.DataChildren() {
		f := reflect.StructField{}
		if i%2 == 0 {
			f.Name = nodeutil.MetaNameToFieldName(d.Name)
		} else {
			f.Name = fmt.Sprintf("Zz%d", i)
			f.Tag = reflect.StructTag(fmt.Sprintf(`yang:%q`, d.Name))
		}
		names[d.Name] = f.Name
		switch d.Kind {
		case "leaf":
			t, err := goLeafType(d.Type, l.exact)
			if err != nil {
				return nil, err
			}
			f.Type = t
		case "leaf-list":
			t, err := goLeafType(d.Type, false) // list values carry width-exact element types natively
			if err != nil {
				return nil, err
			}
			f.Type = reflect.SliceOf(t)
		case "container":
			t, err := l.typeOf(d)
			if err != nil {
				return nil, err
			}
			f.Type = reflect.PtrTo(t)
		case "list":
			t, err := l.typeOf(d)
			if err != nil {
				return nil, err
			}
			if l.listIsMap(d) {
				f.Type = reflect.MapOf(reflect.TypeOf(""), reflect.PtrTo(t))
			} else if l.listOfValues(d) {
				f.Type = reflect.SliceOf(t)
			} else {
				f.Type = reflect.SliceOf(reflect.PtrTo(t))
			}
		default:
			return nil, fmt.Errorf("no struct field for %s %s", d.Kind, d.Name)
		}
		fs = append(fs, f)
	}
	t := reflect.StructOf(fs)
	l.types[n] = t
	l.fields[n] = names
	return t, nil
}

func (l *structLayout) setLeaf(f reflect.Value, t *Type, c string) error {
	switch f.Kind() {
	case reflect.String:
		f.SetString(c)
	case reflect.Bool:
		f.SetBool(c == "true")
	case reflect.Int, reflect.Int8, reflect.Int16, reflect.Int32, reflect.Int64:
		i, err := strconv.ParseInt(c, 10, 64)
		if err != nil {
			return err
		}
		f.SetInt(i)
	case reflect.Uint, reflect.Uint8, reflect.Uint16, reflect.Uint32, reflect.Uint64:
		u, err := strconv.ParseUint(c, 10, 64)
		if err != nil {
			return err
		}
		f.SetUint(u)
	case reflect.Float64:
		x, err := strconv.ParseFloat(c, 64)
		if err != nil {
			return err
		}
		f.SetFloat(x)
	default:
		return fmt.Errorf("field kind %s", f.Kind())
	}
	return nil
}

// fill writes tree t into the struct value v (addressable) of node n.
func (l *structLayout) fill(n *Node, v reflect.Value, t Tree) error {
	for _, d := range n.DataChildren() {
		x, ok := t[d.Name]
		if !ok {
			continue
		}
		f := v.FieldByName(l.fields[n][d.Name])
		switch d.Kind {
		case "leaf":
			if err := l.setLeaf(f, d.Type, x.(string)); err != nil {
				return err
			}
		case "leaf-list":
			xs := x.([]interface{})
			s := reflect.MakeSlice(f.Type(), len(xs), len(xs))
			for i, e := range xs {
				if err := l.setLeaf(s.Index(i), d.Type, e.(string)); err != nil {
					return err
				}
			}
			f.Set(s)
		case "container":
			p := reflect.New(l.types[d])
			if err := l.fill(d, p.Elem(), x.(Tree)); err != nil {
				return err
			}
			f.Set(p)
		case "list":
			xs := x.([]interface{})
			if l.listIsMap(d) {
				m := reflect.MakeMap(f.Type())
				for _, e := range xs {
					p := reflect.New(l.types[d])
					if err := l.fill(d, p.Elem(), e.(Tree)); err != nil {
						return err
					}
					m.SetMapIndex(reflect.ValueOf(e.(Tree)[d.Keys[0]].(string)), p)
				}
				f.Set(m)
			} else if l.listOfValues(d) {
				// len == cap, so that the first append reallocates
				s := reflect.MakeSlice(f.Type(), len(xs), len(xs))
				for i, e := range xs {
					if err := l.fill(d, s.Index(i), e.(Tree)); err != nil {
						return err
					}
				}
				f.Set(s)
			} else {
				s := reflect.MakeSlice(f.Type(), 0, len(xs))
				for _, e := range xs {
					p := reflect.New(l.types[d])
					if err := l.fill(d, p.Elem(), e.(Tree)); err != nil {
						return err
					}
					s = reflect.Append(s, p)
				}
				f.Set(s)
			}
		}
	}
	return nil
}

func (l *structLayout) read(n *Node, v reflect.Value, where string) (Tree, error) {
	out := Tree{}
	for _, d := range n.DataChildren() {
		f := v.FieldByName(l.fields[n][d.Name])
		switch d.Kind {
		case "leaf":
			c, err := CanonNative(d.Type, f.Interface())
			if err != nil {
				return nil, fmt.Errorf("%s/%s: %w", where, d.Name, err)
			}
			out[d.Name] = c
		case "leaf-list":
			if f.Len() == 0 {
				continue
			}
			var xs []interface{}
			for i := 0; i < f.Len(); i++ {
				c, err := CanonNative(d.Type, f.Index(i).Interface())
				if err != nil {
					return nil, fmt.Errorf("%s/%s: %w", where, d.Name, err)
				}
				xs = append(xs, c)
			}
			out[d.Name] = xs
		case "container":
			if f.IsNil() {
				continue
			}
			c, err := l.read(d, f.Elem(), where+"/"+d.Name)
			if err != nil {
				return nil, err
			}
			out[d.Name] = c
		case "list":
			if f.IsNil() {
				continue
			}
			xs := []interface{}{}
			if f.Kind() == reflect.Map {
				keys := f.MapKeys()
				sort.Slice(keys, func(i, j int) bool { return keys[i].String() < keys[j].String() })
				for _, k := range keys {
					p := f.MapIndex(k)
					if p.IsNil() {
						return nil, fmt.Errorf("%s/%s=%s: nil entry", where, d.Name, k)
					}
					e, err := l.read(d, p.Elem(), where+"/"+d.Name+"="+k.String())
					if err != nil {
						return nil, err
					}
					if ek, _ := e[d.Keys[0]].(string); ek != k.String() {
						return nil, fmt.Errorf("%s/%s: keymismatch entry stored under %q holds key leaf %q", where, d.Name, k.String(), ek)
					}
					xs = append(xs, e)
				}
			} else {
				for i := 0; i < f.Len(); i++ {
					p := f.Index(i)
					if p.Kind() == reflect.Struct {
						p = p.Addr()
					}
					if p.IsNil() {
						return nil, fmt.Errorf("%s/%s[%d]: nil entry", where, d.Name, i)
					}
					e, err := l.read(d, p.Elem(), fmt.Sprintf("%s/%s[%d]", where, d.Name, i))
					if err != nil {
						return nil, err
					}
					xs = append(xs, e)
				}
			}
			out[d.Name] = xs
		}
	}
	return out, nil
}

type structStore struct {
	kind   string
	root   *Node
	layout *structLayout
	ptr    reflect.Value
}

func newStructStore(kind string, root *Node, t Tree) (Store, error) {
	l := &structLayout{exact: kind == "node-struct", types: map[*Node]reflect.Type{}, fields: map[*Node]map[string]string{}}
	rt, err := l.typeOf(root)
	if err != nil {
		return nil, err
	}
	p := reflect.New(rt)
	if err := l.fill(root, p.Elem(), t); err != nil {
		return nil, err
	}
	return &structStore{kind: kind, root: root, layout: l, ptr: p}, nil
}

func (s *structStore) Kind() string { return s.kind }
func (s *structStore) Node() node.Node {
	if s.kind == "node-struct" {
		return &nodeutil.Node{Object: s.ptr.Interface()}
	}
	return nodeutil.ReflectChild(s.ptr.Interface())
}
func (s *structStore) KeepsOrder() bool  { return false }
func (s *structStore) ZeroIsUnset() bool { return true }
func (s *structStore) Snapshot() (Tree, error) {
	return s.layout.read(s.root, s.ptr.Elem(), "")
}

// StripZero removes non-key leaves holding the zero value of their Go type, and empty leaf-lists.
func StripZero(n *Node, t Tree) Tree {
	out := Tree{}
	for k, v := range t {
		d := n.Child(k)
		if d == nil {
			out[k] = v
			continue
		}
		switch d.Kind {
		case "leaf":
			s, _ := v.(string)
			if !isKeyOf(n, k) && isZeroCanon(d.Type, s) {
				continue
			}
			out[k] = v
		case "leaf-list":
			if l, _ := v.([]interface{}); len(l) == 0 {
				continue
			}
			out[k] = v
		case "container":
			if c, ok := v.(Tree); ok {
				out[k] = StripZero(d, c)
			} else {
				out[k] = v
			}
		case "list":
			l, _ := v.([]interface{})
			nl := make([]interface{}, len(l))
			for i, e := range l {
				if et, ok := e.(Tree); ok {
					nl[i] = StripZero(d, et)
				} else {
					nl[i] = e
				}
			}
			out[k] = nl
		default:
			out[k] = v
		}
	}
	return out
}

func isZeroCanon(t *Type, s string) bool {
	switch t.Eff().Base {
	case "string", "enumeration", "identityref":
		return s == ""
	case "boolean":
		return s == "false"
	case "decimal64":
		f, err := strconv.ParseFloat(s, 64)
		return err == nil && f == 0
	}
	return s == "0"
}
