package dm

import (
	"bytes"
	"encoding/json"
	"fmt"
	"io"
	"math/big"
	"strconv"
	"strings"
)

// JSONStyle chooses between equivalent encodings accepted on input.
type JSONStyle struct {
	Num64AsString bool // RFC 7951 style for 64-bit integers
	DecAsString   bool // decimal64 as string
	QualifyTop    bool // "mod:name" for top-level members
	EnumAsID      bool
	Pretty        bool
}

func jsonString(s string) string {
	var b bytes.Buffer
	enc := json.NewEncoder(&b)
	enc.SetEscapeHTML(false)
	enc.Encode(s)
	return strings.TrimRight(b.String(), "\n")
}

func leafJSON(t *Type, c string, st JSONStyle) string {
	t = t.Eff()
	switch t.Base {
	case "int8", "int16", "int32", "uint8", "uint16", "uint32":
		return c
	case "int64", "uint64":
		if st.Num64AsString {
			return jsonString(c)
		}
		return c
	case "decimal64":
		if st.DecAsString {
			return jsonString(c)
		}
		return c
	case "boolean":
		return c
	case "empty":
		return "[null]"
	case "enumeration":
		if st.EnumAsID {
			for _, e := range t.Enums {
				if e.Name == c {
					return strconv.Itoa(e.Value)
				}
			}
		}
		return jsonString(c)
	case "union":
		for _, m := range t.Members {
			if ValidFor(m, c) {
				return leafJSON(m, c, st)
			}
		}
	}
	return jsonString(c)
}

// ToJSON renders tree content of node n as a JSON object text (harness writer,
// independent of the library's).
func ToJSON(mod string, n *Node, t Tree, st JSONStyle) string {
	var b strings.Builder
	writeObj(&b, mod, n, t, st, true)
	return b.String()
}

func writeObj(b *strings.Builder, mod string, n *Node, t Tree, st JSONStyle, top bool) {
	b.WriteString("{")
	first := true
	for _, d := range n.DataChildren() {
		v, ok := t[d.Name]
		if !ok {
			continue
		}
		if !first {
			b.WriteString(",")
		}
		first = false
		name := d.Name
		if top && st.QualifyTop && mod != "" {
			name = mod + ":" + name
		}
		b.WriteString(jsonString(name))
		b.WriteString(":")
		switch d.Kind {
		case "leaf":
			s, _ := v.(string)
			b.WriteString(leafJSON(d.Type, s, st))
		case "leaf-list":
			l, _ := v.([]interface{})
			b.WriteString("[")
			for i, x := range l {
				if i > 0 {
					b.WriteString(",")
				}
				s, _ := x.(string)
				b.WriteString(leafJSON(d.Type, s, st))
			}
			b.WriteString("]")
		case "container":
			c, _ := v.(Tree)
			writeObj(b, mod, d, c, st, false)
		case "list":
			l, _ := v.([]interface{})
			b.WriteString("[")
			for i, x := range l {
				if i > 0 {
					b.WriteString(",")
				}
				e, _ := x.(Tree)
				writeObj(b, mod, d, e, st, false)
			}
			b.WriteString("]")
		}
	}
	b.WriteString("}")
}

// DecodeOne decodes exactly one JSON value (numbers kept as text) and insists
// on EOF after it.
func DecodeOne(text string) (interface{}, error) {
	dec := json.NewDecoder(strings.NewReader(text))
	dec.UseNumber()
	var v interface{}
	if err := dec.Decode(&v); err != nil {
		return nil, fmt.Errorf("malformed JSON: %w", err)
	}
	if _, err := dec.Token(); err != io.EOF {
		return nil, fmt.Errorf("trailing data after the JSON value")
	}
	return v, nil
}

// NormOpts controls how library JSON output is read back.
type NormOpts struct {
	EnumAsID bool
	Mod      string // module name: members may be "name" or "Mod:name"
	// QualifiedTop: when non-nil, receives for each top-level member whether it was qualified
	Strict bool // JSON types must match the YANG type (C15); otherwise numbers in strings are tolerated
}

// Problem is one defect found while reading library output.
type Problem struct {
	Clause string // malformed, name, shape, value, dup
	Kind   string // leaf type or node kind
	Msg    string
}

func (p Problem) String() string { return p.Clause + "(" + p.Kind + "): " + p.Msg }

// NormJSON maps decoded library output (content of node n) to a canonical Tree.
func NormJSON(n *Node, v interface{}, o NormOpts, where string) (Tree, []Problem) {
	obj, ok := v.(map[string]interface{})
	if !ok {
		return nil, []Problem{{"shape", n.Kind, fmt.Sprintf("%s: want an object, got %s", where, short(v))}}
	}
	out := Tree{}
	var probs []Problem
	for _, k := range SortedKeys(obj) {
		name := k
		if i := strings.IndexByte(k, ':'); i >= 0 {
			if o.Mod != "" && k[:i] != o.Mod {
				probs = append(probs, Problem{"name", n.Kind, fmt.Sprintf("%s: member %q is qualified with the wrong module", where, k)})
			}
			name = k[i+1:]
		}
		d := n.Child(name)
		if d == nil {
			probs = append(probs, Problem{"name", n.Kind, fmt.Sprintf("%s: member %q is not a schema child", where, k)})
			continue
		}
		if _, dup := out[name]; dup {
			probs = append(probs, Problem{"dup", d.Kind, fmt.Sprintf("%s: member %q twice", where, name)})
		}
		cv := obj[k]
		switch d.Kind {
		case "leaf":
			c, p := normLeaf(d.Type, cv, o)
			if p != "" {
				probs = append(probs, Problem{"value", d.Type.Eff().Base, fmt.Sprintf("%s/%s: %s", where, name, p)})
				continue
			}
			out[name] = c
		case "leaf-list":
			l, isL := cv.([]interface{})
			if !isL {
				probs = append(probs, Problem{"shape", "leaf-list", fmt.Sprintf("%s/%s: want an array, got %s", where, name, short(cv))})
				continue
			}
			nl := make([]interface{}, 0, len(l))
			for _, x := range l {
				c, p := normLeaf(d.Type, x, o)
				if p != "" {
					probs = append(probs, Problem{"value", d.Type.Eff().Base, fmt.Sprintf("%s/%s: %s", where, name, p)})
					continue
				}
				nl = append(nl, c)
			}
			out[name] = nl
		case "container":
			c, ps := NormJSON(d, cv, o, where+"/"+name)
			probs = append(probs, ps...)
			if c != nil {
				out[name] = c
			}
		case "list":
			l, isL := cv.([]interface{})
			if !isL {
				probs = append(probs, Problem{"shape", "list", fmt.Sprintf("%s/%s: want an array, got %s", where, name, short(cv))})
				continue
			}
			nl := make([]interface{}, 0, len(l))
			for i, x := range l {
				e, ps := NormJSON(d, x, o, fmt.Sprintf("%s/%s[%d]", where, name, i))
				probs = append(probs, ps...)
				if e != nil {
					nl = append(nl, e)
				}
			}
			out[name] = nl
		}
	}
	return out, probs
}

func normLeaf(t *Type, v interface{}, o NormOpts) (string, string) {
	t = t.Eff()
	if IsInt(t.Base) {
		var text string
		switch x := v.(type) {
		case json.Number:
			text = x.String()
		case string:
			if o.Strict && t.Base != "int64" && t.Base != "uint64" {
				return "", fmt.Sprintf("integer written as string %q", x)
			}
			text = x
		default:
			return "", fmt.Sprintf("want a number for %s, got %s", t.Base, short(v))
		}
		b, ok := new(big.Int).SetString(text, 10)
		if !ok {
			return "", fmt.Sprintf("not an integer literal %q", text)
		}
		return b.String(), ""
	}
	switch t.Base {
	case "decimal64":
		var text string
		switch x := v.(type) {
		case json.Number:
			text = x.String()
		case string:
			text = x
		default:
			return "", fmt.Sprintf("want a number for decimal64, got %s", short(v))
		}
		f, err := strconv.ParseFloat(text, 64)
		if err != nil {
			return "", fmt.Sprintf("not a decimal literal %q", text)
		}
		return CanonFloat(f), ""
	case "boolean":
		b, ok := v.(bool)
		if !ok {
			return "", fmt.Sprintf("want true/false, got %s", short(v))
		}
		return b2s(b), ""
	case "empty":
		l, ok := v.([]interface{})
		if !ok || len(l) != 1 || l[0] != nil {
			return "", fmt.Sprintf("want [null] for empty, got %s", short(v))
		}
		return "", ""
	case "enumeration":
		if o.EnumAsID {
			num, ok := v.(json.Number)
			if !ok {
				return "", fmt.Sprintf("want the enum value as a number, got %s", short(v))
			}
			for _, e := range t.Enums {
				if strconv.Itoa(e.Value) == num.String() {
					return e.Name, ""
				}
			}
			return "", fmt.Sprintf("no enum with value %s", num)
		}
		s, ok := v.(string)
		if !ok {
			return "", fmt.Sprintf("want the enum name as a string, got %s", short(v))
		}
		return s, ""
	case "bits":
		s, ok := v.(string)
		if !ok {
			return "", fmt.Sprintf("want a string for bits, got %s", short(v))
		}
		return CanonBits(t, strings.Fields(s)), ""
	case "identityref":
		s, ok := v.(string)
		if !ok {
			return "", fmt.Sprintf("want a string for identityref, got %s", short(v))
		}
		if i := strings.IndexByte(s, ':'); i >= 0 {
			if o.Mod != "" && s[:i] != o.Mod {
				return "", fmt.Sprintf("identity %q qualified with the wrong module", s)
			}
			s = s[i+1:]
		}
		return s, ""
	case "union":
		var last string
		for _, m := range t.Members {
			c, p := normLeaf(m, v, o)
			if p == "" && ValidFor(m, c) {
				return c, ""
			}
			last = p
		}
		return "", "no union member reads " + short(v) + " (" + last + ")"
	}
	s, ok := v.(string)
	if !ok {
		return "", fmt.Sprintf("want a string for %s, got %s", t.Base, short(v))
	}
	return s, ""
}

// StripInsignificantWS removes whitespace outside strings (for pretty == compact).
func StripInsignificantWS(s string) string {
	var b strings.Builder
	inStr, esc := false, false
	for _, r := range s {
		if inStr {
			b.WriteRune(r)
			if esc {
				esc = false
			} else if r == '\\' {
				esc = true
			} else if r == '"' {
				inStr = false
			}
			continue
		}
		switch r {
		case ' ', '\n', '\t', '\r':
		case '"':
			inStr = true
			b.WriteRune(r)
		default:
			b.WriteRune(r)
		}
	}
	return b.String()
}
