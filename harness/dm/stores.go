package dm

import (
	"bytes"
	"encoding/base64"
	"fmt"
	"reflect"
	"sort"
	"strconv"
	"strings"

	"github.com/freeconf/yang/node"
	"github.com/freeconf/yang/nodeutil"
	"github.com/freeconf/yang/val"
)

// Store is a node implementation under test together with a way to look at
// its backing Go data directly (not through the library).
type Store interface {
	Kind() string
	Node() node.Node
	Snapshot() (Tree, error)
	// KeepsOrder reports whether lists keep insertion order (slices, RS) or are
	// iterated in key order (Go maps).
	KeepsOrder() bool
	// ZeroIsUnset: the store cannot tell an unset leaf from one holding its Go zero value (plain struct fields).
	ZeroIsUnset() bool
}

// StoreKinds lists the implemented stores.
var StoreKinds = []string{"rs", "reflect-map", "reflect-slice", "node-map", "node-slice", "reflect-struct", "node-struct"}

// NewStore builds a store of the given kind holding a copy of t.
func NewStore(kind string, root *Node, t Tree) (Store, error) {
	switch kind {
	case "rs":
		return &rsStore{root: root, data: CloneTree(t)}, nil
	case "rs-lenient":
		return &rsStore{root: root, data: CloneTree(t), lenient: true}, nil
	case "reflect-map", "reflect-slice", "node-map", "node-slice":
		slices := kind == "reflect-slice" || kind == "node-slice"
		nat, err := toNativeContainer(root, t, slices, true)
		if err != nil {
			return nil, err
		}
		return &mapStore{kind: kind, root: root, data: nat.(map[string]interface{}), slices: slices}, nil
	case "reflect-struct", "node-struct":
		return newStructStore(kind, root, t)
	case "json-reader":
		// a document read by the library's JSON reader, served as it is (for reads and navigation)
		n, err := nodeutil.ReadJSON(ToJSON("", root, t, JSONStyle{Num64AsString: true}))
		if err != nil {
			return nil, err
		}
		return &readerStore{node: n, data: CloneTree(t)}, nil
	case "xml-reader":
		// the same for the XML reader
		doc := &XNode{Name: root.Name, Children: TreeToXML(root, t)}
		var b bytes.Buffer
		doc.Render(&b, "urn:"+root.Name)
		n, err := nodeutil.ReadXMLDoc(strings.NewReader(b.String()))
		if err != nil {
			return nil, err
		}
		return &readerStore{kind: "xml-reader", node: n, data: CloneTree(t)}, nil
	}
	return nil, fmt.Errorf("store kind %q", kind)
}

type readerStore struct {
	kind string
	node node.Node
	data Tree
}

func (s *readerStore) Kind() string {
	if s.kind != "" {
		return s.kind
	}
	return "json-reader"
}
func (s *readerStore) Node() node.Node         { return s.node }
func (s *readerStore) Snapshot() (Tree, error) { return CloneTree(s.data), nil }
func (s *readerStore) KeepsOrder() bool        { return true }
func (s *readerStore) ZeroIsUnset() bool       { return false }

type rsStore struct {
	root    *Node
	data    Tree
	lenient bool
}

func (s *rsStore) Kind() string { return "rs" }
func (s *rsStore) Node() node.Node {
	r := NewRS(s.root, s.data)
	r.Lenient = s.lenient
	return r
}
func (s *rsStore) Snapshot() (Tree, error) { return CloneTree(s.data), nil }
func (s *rsStore) KeepsOrder() bool        { return true }
func (s *rsStore) ZeroIsUnset() bool       { return false }

type mapStore struct {
	kind   string
	root   *Node
	data   map[string]interface{}
	slices bool
}

func (s *mapStore) Kind() string { return s.kind }
func (s *mapStore) Node() node.Node {
	if s.kind == "node-map" || s.kind == "node-slice" {
		return &nodeutil.Node{Object: s.data}
	}
	return nodeutil.ReflectChild(s.data)
}
func (s *mapStore) KeepsOrder() bool  { return false }
func (s *mapStore) ZeroIsUnset() bool { return false }
func (s *mapStore) Snapshot() (Tree, error) {
	return fromNativeContainer(s.root, reflect.ValueOf(s.data), "")
}

// NativeLeaf is the Go value the library's reflection nodes keep for a leaf:
// Value() of the typed value.
func NativeLeaf(d *Node, v interface{}) (interface{}, error) {
	if d.Kind == "leaf-list" {
		l, _ := v.([]interface{})
		cs := make([]string, len(l))
		for i, x := range l {
			cs[i], _ = x.(string)
		}
		lv, err := MkListVal(d.Type, cs)
		if err != nil {
			return nil, err
		}
		return lv.Value(), nil
	}
	s, _ := v.(string)
	lv, err := MkVal(d.Type, s)
	if err != nil {
		return nil, err
	}
	return lv.Value(), nil
}

func toNativeContainer(n *Node, t Tree, slices bool, top bool) (interface{}, error) {
	var set func(k string, v interface{})
	var out interface{}
	if top {
		m := map[string]interface{}{}
		out, set = m, func(k string, v interface{}) { m[k] = v }
	} else {
		m := map[interface{}]interface{}{}
		out, set = m, func(k string, v interface{}) { m[k] = v }
	}
	for _, d := range n.DataChildren() {
		v, ok := t[d.Name]
		if !ok {
			continue
		}
		switch d.Kind {
		case "leaf", "leaf-list":
			nv, err := NativeLeaf(d, v)
			if err != nil {
				return nil, err
			}
			set(d.Name, nv)
		case "container":
			c, _ := v.(Tree)
			nc, err := toNativeContainer(d, c, slices, false)
			if err != nil {
				return nil, err
			}
			set(d.Name, nc)
		case "list":
			l, _ := v.([]interface{})
			nl, err := toNativeList(d, l, slices)
			if err != nil {
				return nil, err
			}
			set(d.Name, nl)
		}
	}
	return out, nil
}

func toNativeList(d *Node, l []interface{}, slices bool) (interface{}, error) {
	if slices || len(d.Keys) != 1 {
		// (a Go map holds an entry under one key value; the library itself creates slices for other lists)
		out := make([]map[interface{}]interface{}, 0, len(l))
		for _, e := range l {
			ne, err := toNativeContainer(d, e.(Tree), slices, false)
			if err != nil {
				return nil, err
			}
			out = append(out, ne.(map[interface{}]interface{}))
		}
		return out, nil
	}
	// the map type the library itself would create for this key
	var m reflect.Value
	switch d.Child(d.Keys[0]).Type.Eff().Base {
	case "string":
		m = reflect.ValueOf(map[string]interface{}{})
	case "int32":
		m = reflect.ValueOf(map[int]interface{}{})
	case "int64":
		m = reflect.ValueOf(map[int64]interface{}{})
	case "decimal64":
		m = reflect.ValueOf(map[float64]interface{}{})
	default:
		m = reflect.ValueOf(map[interface{}]interface{}{})
	}
	for _, e := range l {
		et := e.(Tree)
		ne, err := toNativeContainer(d, et, slices, false)
		if err != nil {
			return nil, err
		}
		kv, err := NativeLeaf(d.Child(d.Keys[0]), et[d.Keys[0]])
		if err != nil {
			return nil, err
		}
		m.SetMapIndex(reflect.ValueOf(kv), reflect.ValueOf(ne))
	}
	return m.Interface(), nil
}

// CanonNative maps a Go value kept by a reflection node back to canonical text.
func CanonNative(t *Type, v interface{}) (string, error) {
	t = t.Eff()
	switch x := v.(type) {
	case val.Value:
		return CanonOf(t, x)
	case int8, int16, int32, int64, int:
		return strconv.FormatInt(reflect.ValueOf(x).Int(), 10), nil
	case uint8, uint16, uint32, uint:
		return strconv.FormatUint(reflect.ValueOf(x).Uint(), 10), nil
	case uint64:
		if t.Base == "bits" {
			var labels []string
			for _, b := range t.Bits {
				if x&(1<<uint(b.Pos)) != 0 {
					labels = append(labels, b.Name)
				}
			}
			if rest := x &^ bitsMask(t); rest != 0 {
				return "", fmt.Errorf("undeclared bit positions %b", rest)
			}
			return CanonBits(t, labels), nil
		}
		return strconv.FormatUint(x, 10), nil
	case float64:
		return CanonFloat(x), nil
	case bool:
		return b2s(x), nil
	case string:
		return x, nil
	case []byte:
		return base64.StdEncoding.EncodeToString(x), nil
	}
	rv := reflect.ValueOf(v)
	if rv.IsValid() && rv.Kind() == reflect.String {
		return rv.String(), nil
	}
	return "", fmt.Errorf("native value %T %v not understood for %s", v, v, t.Base)
}

func bitsMask(t *Type) uint64 {
	var m uint64
	for _, b := range t.Bits {
		m |= 1 << uint(b.Pos)
	}
	return m
}

func canonNativeLeaf(d *Node, v interface{}) (interface{}, error) {
	if d.Kind == "leaf" {
		return CanonNative(d.Type, v)
	}
	if lv, ok := v.(val.Value); ok {
		cs, err := CanonListOf(d.Type, lv)
		if err != nil {
			return nil, err
		}
		out := make([]interface{}, len(cs))
		for i, c := range cs {
			out[i] = c
		}
		return out, nil
	}
	rv := reflect.ValueOf(v)
	if !rv.IsValid() || rv.Kind() != reflect.Slice {
		return nil, fmt.Errorf("leaf-list %s holds %T", d.Name, v)
	}
	if b, isBytes := v.([]byte); isBytes && d.Type.Eff().Base != "uint8" {
		return nil, fmt.Errorf("leaf-list %s holds []byte %v", d.Name, b)
	}
	out := make([]interface{}, rv.Len())
	for i := 0; i < rv.Len(); i++ {
		c, err := CanonNative(d.Type, rv.Index(i).Interface())
		if err != nil {
			return nil, err
		}
		out[i] = c
	}
	return out, nil
}

func mapGet(m reflect.Value, name string) (reflect.Value, bool) {
	if m.Kind() == reflect.Interface || m.Kind() == reflect.Ptr {
		m = m.Elem()
	}
	if m.Kind() != reflect.Map {
		return reflect.Value{}, false
	}
	k := reflect.ValueOf(name)
	if !k.Type().AssignableTo(m.Type().Key()) {
		return reflect.Value{}, false
	}
	v := m.MapIndex(k)
	if !v.IsValid() {
		return v, false
	}
	for v.Kind() == reflect.Interface && !v.IsNil() {
		v = v.Elem()
	}
	return v, true
}

func fromNativeContainer(n *Node, m reflect.Value, where string) (Tree, error) {
	for m.Kind() == reflect.Interface || m.Kind() == reflect.Ptr {
		if m.IsNil() {
			return nil, fmt.Errorf("%s: nil container", where)
		}
		m = m.Elem()
	}
	if m.Kind() != reflect.Map {
		return nil, fmt.Errorf("%s: container is a %s", where, m.Type())
	}
	out := Tree{}
	known := map[string]bool{}
	for _, d := range n.DataChildren() {
		known[d.Name] = true
		v, ok := mapGet(m, d.Name)
		if !ok {
			continue
		}
		switch d.Kind {
		case "leaf", "leaf-list":
			c, err := canonNativeLeaf(d, v.Interface())
			if err != nil {
				return nil, fmt.Errorf("%s/%s: %w", where, d.Name, err)
			}
			out[d.Name] = c
		case "container":
			c, err := fromNativeContainer(d, v, where+"/"+d.Name)
			if err != nil {
				return nil, err
			}
			out[d.Name] = c
		case "list":
			l, err := fromNativeList(d, v, where+"/"+d.Name)
			if err != nil {
				return nil, err
			}
			out[d.Name] = l
		}
	}
	for _, k := range m.MapKeys() {
		for k.Kind() == reflect.Interface {
			k = k.Elem()
		}
		if k.Kind() != reflect.String || !known[k.String()] {
			return nil, fmt.Errorf("%s: backing map has a key %v that is no schema child", where, k)
		}
	}
	return out, nil
}

func fromNativeList(d *Node, v reflect.Value, where string) ([]interface{}, error) {
	for v.Kind() == reflect.Interface || v.Kind() == reflect.Ptr {
		if v.IsNil() {
			return nil, fmt.Errorf("%s: nil list", where)
		}
		v = v.Elem()
	}
	out := []interface{}{}
	switch v.Kind() {
	case reflect.Slice:
		for i := 0; i < v.Len(); i++ {
			e, err := fromNativeContainer(d, v.Index(i), fmt.Sprintf("%s[%d]", where, i))
			if err != nil {
				return nil, err
			}
			out = append(out, e)
		}
	case reflect.Map:
		type kv struct {
			canon string
			entry Tree
		}
		var all []kv
		kd := d.Child(d.Keys[0])
		for _, k := range v.MapKeys() {
			kk := k
			for kk.Kind() == reflect.Interface {
				kk = kk.Elem()
			}
			canon, err := CanonNative(kd.Type, kk.Interface())
			if err != nil {
				return nil, fmt.Errorf("%s: map key: %w", where, err)
			}
			e, err := fromNativeContainer(d, v.MapIndex(k), where+"="+canon)
			if err != nil {
				return nil, err
			}
			// the entry's own key leaf must agree with the map key
			if ek, has := e[d.Keys[0]].(string); has && ek != canon {
				return nil, fmt.Errorf("%s: keymismatch entry stored under %q holds key leaf %q", where, canon, ek)
			}
			all = append(all, kv{canon, e})
		}
		sort.Slice(all, func(i, j int) bool { return all[i].canon < all[j].canon })
		for _, x := range all {
			out = append(out, x.entry)
		}
	default:
		return nil, fmt.Errorf("%s: list is a %s", where, v.Type())
	}
	return out, nil
}
