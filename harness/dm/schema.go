// Package dm is the harness's own data-modelling layer: a schema model that is
// rendered to YANG text (the library compiles the text; the oracle walks the
// model), data trees with canonical leaf values, the reference operations
// (merge, delete, projection ...) and the stores the checks run against.
package dm

import (
	"fmt"
	"sort"
	"strings"
)

// EnumDef is one enum of an enumeration type; Value is the assigned value.
type EnumDef struct {
	Name  string `json:"name"`
	Value int    `json:"value"`
}

// BitDef is one bit of a bits type.
type BitDef struct {
	Name string `json:"name"`
	Pos  int    `json:"pos"`
}

// Type is the effective type of a leaf or leaf-list.
type Type struct {
	Name    string    `json:"name,omitempty"` // when set: the type statement names this typedef (Base stays the built-in it derives from)
	Base    string    `json:"base"` // int8..uint64, decimal64, string, boolean, enumeration, bits, identityref, binary, empty, union, leafref
	FD      int       `json:"fd,omitempty"`
	Enums   []EnumDef `json:"enums,omitempty"`
	Bits    []BitDef  `json:"bits,omitempty"`
	IdBase  string    `json:"idbase,omitempty"`
	Idents  []string  `json:"idents,omitempty"` // identities derived from IdBase (acceptable values)
	Members []*Type   `json:"members,omitempty"`
	Path    string    `json:"path,omitempty"`
	Target  *Type     `json:"target,omitempty"`
	// restriction statements written verbatim inside the type body (C05, C02)
	Range    string   `json:"range,omitempty"`
	Length   string   `json:"length,omitempty"`
	Patterns []string `json:"patterns,omitempty"`
}

// Eff follows leafrefs to the type values are written in.
func (t *Type) Eff() *Type {
	for t != nil && t.Base == "leafref" && t.Target != nil {
		t = t.Target
	}
	return t
}

// Node is a schema node.
type Node struct {
	Kind      string   `json:"kind"` // container, list, leaf, leaf-list, choice, case
	Name      string   `json:"name"`
	Config    *bool    `json:"config,omitempty"` // as stated; nil = inherited
	Presence  bool     `json:"presence,omitempty"`
	Keys      []string `json:"keys,omitempty"`
	Children  []*Node  `json:"children,omitempty"`
	Type      *Type    `json:"type,omitempty"`
	Default   *string  `json:"default,omitempty"`  // leaf default (canonical text)
	Defaults  []string `json:"defaults,omitempty"` // leaf-list defaults
	When      string   `json:"when,omitempty"`
	Mandatory bool     `json:"mandatory,omitempty"`
	Mod       string   `json:"mod,omitempty"` // defining module when it is not the main module (augmented in)
	Extra     string   `json:"extra,omitempty"` // raw statements added to the body
	// layout of the text (the meaning stays the same): Aug = written inside an augment statement of the same module that
	// is aimed at the parent (such children come after the ones written in place); Short = a case written in shorthand
	// form (its only child stands for it; the case is named after the child)
	Aug   bool `json:"aug,omitempty"`
	Short bool `json:"short,omitempty"`
	// Sub (top-level nodes only): the definition is written in the submodule <module>-sub; such nodes come after the
	// module's own
	Sub bool `json:"sub,omitempty"`
}

// Identity of the module.
type Identity struct {
	Name string `json:"name"`
	Base string `json:"base,omitempty"`
}

// Module is a generated module.
type Module struct {
	Name       string     `json:"name"`
	Identities []Identity `json:"identities,omitempty"`
	Top        []*Node    `json:"top"`
	Extra      string     `json:"extra,omitempty"`
	// SubIdents > 0: the last SubIdents identities are written in the submodule <name>-sub, which the module includes
	SubIdents int `json:"subIdents,omitempty"`
	// NS: the argument of the namespace statement; "" stands for urn:<name>, "-" for a module written without the statement
	NS   string `json:"ns,omitempty"`
	root *Node
}

// Namespace is the namespace the module's elements are in ("" when the module states none).
func (m *Module) Namespace() string {
	switch m.NS {
	case "":
		return "urn:" + m.Name
	case "-":
		return ""
	}
	return m.NS
}

// Root returns the synthetic root node whose children are the top-level nodes.
func (m *Module) Root() *Node {
	if m.root == nil {
		m.root = &Node{Kind: "module", Name: m.Name, Children: m.Top}
	}
	return m.root
}

func b2s(b bool) string {
	if b {
		return "true"
	}
	return "false"
}

// Yang renders the module.
func (m *Module) Yang() string {
	var b strings.Builder
	fmt.Fprintf(&b, "module %s {\n", m.Name)
	if m.NS != "-" {
		fmt.Fprintf(&b, " namespace \"%s\";\n", m.Namespace())
	}
	fmt.Fprintf(&b, " prefix %s;\n", m.Name)
	inMain := m.Identities
	if m.SubIdents > 0 && m.SubIdents <= len(m.Identities) {
		inMain = m.Identities[:len(m.Identities)-m.SubIdents]
	}
	if m.hasSub() {
		fmt.Fprintf(&b, " include %s-sub;\n", m.Name)
	}
	b.WriteString(" revision 2020-01-01;\n")
	writeIdentities(&b, inMain)
	if m.Extra != "" {
		b.WriteString(" " + m.Extra + "\n")
	}
	for _, n := range m.Top {
		if !n.Sub {
			n.yang(&b, " ")
		}
	}
	for _, n := range m.Top {
		n.yangAugments(&b, "/"+n.Name)
	}
	b.WriteString("}\n")
	return b.String()
}

func (m *Module) hasSub() bool {
	if m.SubIdents > 0 && m.SubIdents <= len(m.Identities) {
		return true
	}
	for _, n := range m.Top {
		if n.Sub {
			return true
		}
	}
	return false
}

func writeIdentities(b *strings.Builder, ids []Identity) {
	for _, id := range ids {
		if id.Base == "" {
			fmt.Fprintf(b, " identity %s;\n", id.Name)
		} else {
			fmt.Fprintf(b, " identity %s { base %s; }\n", id.Name, id.Base)
		}
	}
}

// Files returns the texts the module's include statements refer to (file name -> text).
func (m *Module) Files() map[string]string {
	if !m.hasSub() {
		return nil
	}
	var b strings.Builder
	fmt.Fprintf(&b, "submodule %s-sub {\n belongs-to %s { prefix %s; }\n", m.Name, m.Name, m.Name)
	if m.SubIdents > 0 && m.SubIdents <= len(m.Identities) {
		writeIdentities(&b, m.Identities[len(m.Identities)-m.SubIdents:])
	}
	for _, n := range m.Top {
		if n.Sub {
			n.yang(&b, " ")
		}
	}
	b.WriteString("}\n")
	return map[string]string{m.Name + "-sub.yang": b.String()}
}

// yangAugments writes, parents before their descendants, one augment statement per node that has children marked Aug.
func (n *Node) yangAugments(b *strings.Builder, path string) {
	first := true
	for _, c := range n.Children {
		if c.Aug {
			if first {
				fmt.Fprintf(b, " augment \"%s\" {\n", path)
				first = false
			}
			c.yangNode(b, "  ")
		}
	}
	if !first {
		b.WriteString(" }\n")
	}
	for _, c := range n.Children {
		c.yangAugments(b, path+"/"+c.Name)
	}
}

// QuoteYang renders s as a double-quoted YANG string.
func QuoteYang(s string) string {
	r := strings.NewReplacer("\\", "\\\\", "\"", "\\\"", "\n", "\\n", "\t", "\\t")
	return "\"" + r.Replace(s) + "\""
}

// quoteArg renders an argument the pinned lexer reads back literally: single
// quotes when possible (no escapes processed), else double quotes.
func quoteArg(s string) string {
	if !strings.ContainsAny(s, "'") {
		return "'" + s + "'"
	}
	if !strings.ContainsAny(s, "\"\\") {
		return "\"" + s + "\""
	}
	// concatenate pieces
	var parts []string
	cur := ""
	for _, r := range s {
		if r == '\'' {
			if cur != "" {
				parts = append(parts, "'"+cur+"'")
				cur = ""
			}
			parts = append(parts, "\"'\"")
		} else {
			cur += string(r)
		}
	}
	if cur != "" {
		parts = append(parts, "'"+cur+"'")
	}
	return strings.Join(parts, " + ")
}

func (t *Type) yang(b *strings.Builder) {
	switch t.Base {
	case "enumeration":
		b.WriteString("type enumeration {")
		for _, e := range t.Enums {
			name := e.Name
			if (name[0] >= '0' && name[0] <= '9') || strings.ContainsAny(name, " \t;{}") {
				name = "\"" + name + "\"" // (the lexer reads an unquoted digit as the start of a number)
			}
			fmt.Fprintf(b, " enum %s { value %d; }", name, e.Value)
		}
		b.WriteString(" }")
	case "bits":
		b.WriteString("type bits {")
		for _, e := range t.Bits {
			fmt.Fprintf(b, " bit %s { position %d; }", e.Name, e.Pos)
		}
		b.WriteString(" }")
	case "identityref":
		fmt.Fprintf(b, "type identityref { base %s; }", t.IdBase)
	case "decimal64":
		if t.Name != "" {
			fmt.Fprintf(b, "type %s {", t.Name)
		} else {
			fmt.Fprintf(b, "type decimal64 { fraction-digits %d;", t.FD)
		}
		if t.Range != "" {
			fmt.Fprintf(b, " range %s;", quoteArg(t.Range))
		}
		b.WriteString(" }")
	case "union":
		b.WriteString("type union {")
		for _, m := range t.Members {
			b.WriteString(" ")
			m.yang(b)
		}
		b.WriteString(" }")
	case "leafref":
		fmt.Fprintf(b, "type leafref { path %s; }", quoteArg(t.Path))
	default:
		name := t.Base
		if t.Name != "" {
			name = t.Name
		}
		if t.Range == "" && t.Length == "" && len(t.Patterns) == 0 {
			fmt.Fprintf(b, "type %s;", name)
			return
		}
		fmt.Fprintf(b, "type %s {", name)
		if t.Range != "" {
			fmt.Fprintf(b, " range %s;", quoteArg(t.Range))
		}
		if t.Length != "" {
			fmt.Fprintf(b, " length %s;", quoteArg(t.Length))
		}
		for _, p := range t.Patterns {
			if strings.HasPrefix(p, "!") {
				fmt.Fprintf(b, " pattern %s { modifier invert-match; }", quoteArg(p[1:]))
			} else {
				fmt.Fprintf(b, " pattern %s;", quoteArg(p))
			}
		}
		b.WriteString(" }")
	}
}

// yang writes a node where it stands; nodes that live in an augment statement are left to yangAugments.
func (n *Node) yang(b *strings.Builder, ind string) {
	if n.Aug {
		return
	}
	n.yangNode(b, ind)
}

func (n *Node) yangNode(b *strings.Builder, ind string) {
	if n.Kind == "case" && n.Short && len(n.Children) == 1 {
		n.Children[0].yangNode(b, ind)
		return
	}
	common := func() {
		if n.When != "" {
			fmt.Fprintf(b, "%s when %s;\n", ind, quoteArg(n.When))
		}
		if n.Config != nil {
			fmt.Fprintf(b, "%s config %s;\n", ind, b2s(*n.Config))
		}
		if n.Extra != "" {
			fmt.Fprintf(b, "%s %s\n", ind, n.Extra)
		}
	}
	switch n.Kind {
	case "container":
		fmt.Fprintf(b, "%scontainer %s {\n", ind, n.Name)
		if n.Presence {
			fmt.Fprintf(b, "%s presence \"p\";\n", ind)
		}
		common()
	case "list":
		fmt.Fprintf(b, "%slist %s {\n", ind, n.Name)
		if len(n.Keys) > 0 {
			fmt.Fprintf(b, "%s key \"%s\";\n", ind, strings.Join(n.Keys, " "))
		}
		common()
	case "choice":
		fmt.Fprintf(b, "%schoice %s {\n", ind, n.Name)
		common()
	case "case":
		fmt.Fprintf(b, "%scase %s {\n", ind, n.Name)
		common()
	case "leaf":
		fmt.Fprintf(b, "%sleaf %s {\n%s ", ind, n.Name, ind)
		n.Type.yang(b)
		b.WriteString("\n")
		if n.Default != nil {
			fmt.Fprintf(b, "%s default %s;\n", ind, quoteArg(*n.Default))
		}
		if n.Mandatory {
			fmt.Fprintf(b, "%s mandatory true;\n", ind)
		}
		common()
	case "leaf-list":
		fmt.Fprintf(b, "%sleaf-list %s {\n%s ", ind, n.Name, ind)
		n.Type.yang(b)
		b.WriteString("\n")
		for _, d := range n.Defaults {
			fmt.Fprintf(b, "%s default %s;\n", ind, quoteArg(d))
		}
		common()
	}
	for _, c := range n.Children {
		c.yang(b, ind+" ")
	}
	fmt.Fprintf(b, "%s}\n", ind)
}

// DataChildren returns the data nodes (container, list, leaf, leaf-list)
// directly visible in a container/list entry, in schema order, looking through
// choices and cases.
func (n *Node) DataChildren() []*Node {
	var out []*Node
	for _, c := range n.Children {
		switch c.Kind {
		case "choice", "case":
			out = append(out, c.DataChildren()...)
		default:
			out = append(out, c)
		}
	}
	return out
}

// Child finds a data child by name (through choices).
func (n *Node) Child(name string) *Node {
	for _, c := range n.DataChildren() {
		if c.Name == name {
			return c
		}
	}
	return nil
}

// IsLeafy reports leaf or leaf-list.
func (n *Node) IsLeafy() bool { return n.Kind == "leaf" || n.Kind == "leaf-list" }

// Choices returns the choice nodes directly in n (through cases of other choices too).
func (n *Node) Choices() []*Node {
	var out []*Node
	for _, c := range n.Children {
		if c.Kind == "choice" {
			out = append(out, c)
			for _, cs := range c.Children {
				out = append(out, cs.Choices()...)
			}
		}
	}
	return out
}

// CaseOf returns the data node names held (at any depth of nested choices) by a case.
func (cs *Node) CaseMembers() []string {
	var out []string
	for _, d := range cs.DataChildren() {
		out = append(out, d.Name)
	}
	return out
}

// Walk visits every node depth first with its effective config.
func (n *Node) Walk(cfg bool, f func(n *Node, cfg bool)) {
	if n.Config != nil {
		cfg = *n.Config
	}
	f(n, cfg)
	for _, c := range n.Children {
		c.Walk(cfg, f)
	}
}

// SortedKeys returns sorted map keys.
func SortedKeys(m map[string]interface{}) []string {
	ks := make([]string, 0, len(m))
	for k := range m {
		ks = append(ks, k)
	}
	sort.Strings(ks)
	return ks
}
