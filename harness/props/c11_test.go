package props

import (
	"fmt"
	"sort"
	"strings"
	"testing"

	"github.com/freeconf/yang/meta"
	"github.com/freeconf/yang/parser"
	"pgregory.net/rapid"

	"verif/harness/hx"
)

// ---- C11: if-feature expressions and deviations ------------------------------------------------

// fexpr is a feature expression tree.
type fexpr struct {
	Op    string   `json:"op"` // "", not, and, or
	Name  string   `json:"name,omitempty"`
	Kids  []*fexpr `json:"kids,omitempty"`
	Paren bool     `json:"paren,omitempty"` // redundant parentheses around this node
}

func (e *fexpr) eval(on map[string]bool) bool {
	switch e.Op {
	case "":
		return on[e.Name]
	case "not":
		return !e.Kids[0].eval(on)
	case "and":
		return e.Kids[0].eval(on) && e.Kids[1].eval(on)
	}
	return e.Kids[0].eval(on) || e.Kids[1].eval(on)
}

func prec(op string) int {
	switch op {
	case "or":
		return 1
	case "and":
		return 2
	case "not":
		return 3
	}
	return 4
}

// render writes the expression with the parentheses RFC 7950 precedence requires, plus the redundant ones.
func (e *fexpr) render(b *strings.Builder, parent int, sp string) {
	need := prec(e.Op) < parent || e.Paren
	if need {
		b.WriteString("(" + sp)
	}
	switch e.Op {
	case "":
		b.WriteString(e.Name)
	case "not":
		b.WriteString("not ")
		e.Kids[0].render(b, 3, sp)
	default:
		e.Kids[0].render(b, prec(e.Op), sp)
		b.WriteString(" " + e.Op + " ")
		// right operand of the same operator needs no parentheses either (associative)
		e.Kids[1].render(b, prec(e.Op), sp)
	}
	if need {
		b.WriteString(sp + ")")
	}
}

func (e *fexpr) String() string {
	var b strings.Builder
	e.render(&b, 0, "")
	return b.String()
}

func (e *fexpr) ops() int {
	n := 0
	if e.Op != "" {
		n = 1
	}
	for _, k := range e.Kids {
		n += k.ops()
	}
	return n
}

// shape abstracts the expression to its operator / parenthesis pattern (signature discriminator)
func (e *fexpr) shape() string {
	s := strings.NewReplacer("a", "x", "b", "x", "c", "x", "d", "x").Replace(e.String())
	s = strings.ReplaceAll(s, "xnx", "and") // undo the damage to "and"
	return strings.ReplaceAll(s, " ", "_")
}

func exprShape(s string) string {
	var out []string
	for _, tok := range strings.Fields(strings.NewReplacer("(", " ( ", ")", " ) ").Replace(s)) {
		switch tok {
		case "and", "or", "not", "(", ")":
			out = append(out, tok)
		default:
			out = append(out, "x")
		}
	}
	return strings.Join(out, "_")
}

var featNames = []string{"a", "b", "c", "d"}

func genFexpr(t *rapid.T, depth int) *fexpr {
	if depth <= 0 || rapid.IntRange(0, 3).Draw(t, "leaf?") == 0 {
		return &fexpr{Name: rapid.SampledFrom(featNames).Draw(t, "feat"), Paren: rapid.IntRange(0, 7).Draw(t, "paren") == 0}
	}
	op := rapid.SampledFrom([]string{"and", "or", "not"}).Draw(t, "op")
	e := &fexpr{Op: op, Paren: rapid.IntRange(0, 5).Draw(t, "paren") == 0}
	e.Kids = append(e.Kids, genFexpr(t, depth-1))
	if op != "not" {
		e.Kids = append(e.Kids, genFexpr(t, depth-1))
	}
	return e
}

type c11Case struct {
	Expr     string `json:"expr"`     // the if-feature argument as written
	Tree     *fexpr `json:"tree"`     // nil for malformed expressions
	Stmt     string `json:"stmt"`     // guarded statement kind
	Sub      bool   `json:"sub"`      // features a, b are defined in a submodule
	Mask     int    `json:"mask"`     // -1: every one of the 16 assignments; else only this one (replay of a shrunk failure)
	Spacing  string `json:"spacing"`
	// More: further if-feature statements on the same definition (all of them have to hold)
	More      []string `json:"more,omitempty"`
	MoreTrees []*fexpr `json:"more_trees,omitempty"`
	// Inner (container, choice, case): everything inside the guarded definition is guarded by this expression of its
	// own: the definition is there (empty) when its own expression holds, whatever becomes of its content
	// OwnPrefix: the feature names are written with the module's own prefix (m:a), which names the same features
	OwnPrefix bool   `json:"own_prefix,omitempty"`
	Inner     string `json:"inner,omitempty"`
	InnerTree *fexpr `json:"inner_tree,omitempty"`
}

var c11Stmts = []string{"leaf", "leaf-list", "container", "list", "choice", "case", "anyxml", "uses", "augment", "refine", "rpc", "notification", "action", "action-in-grouping", "notification-in-grouping", "action-in-augment", "notification-in-augment", "case-in-uses-augment", "leaf-in-uses-augment"}

func c11Yang(c c11Case) (string, map[string]string) {
	q := "\"" + c.Expr + "\""
	for _, e := range c.More {
		q += "; if-feature \"" + e + "\"" // (every use below closes the statement)
	}
	var feats, body, extra string
	in := ""
	if c.Inner != "" {
		in = "if-feature \"" + c.Inner + "\"; "
	}
	files := map[string]string{}
	if c.Sub {
		feats = "include c11sub; feature c; feature d;"
		files["c11sub.yang"] = "submodule c11sub { belongs-to c11 { prefix s; } feature a; feature b; }"
	} else {
		feats = "feature a; feature b; feature c; feature d;"
	}
	switch c.Stmt {
	case "leaf":
		body = "leaf g { if-feature " + q + "; type string; }"
	case "leaf-list":
		body = "leaf-list g { if-feature " + q + "; type string; }"
	case "container":
		body = "container g { if-feature " + q + "; leaf x { " + in + "type string; } }"
	case "list":
		body = "list g { if-feature " + q + "; key x; leaf x { type string; } }"
	case "choice":
		body = "choice g { if-feature " + q + "; leaf x { " + in + "type string; } }"
	case "case":
		body = "choice ch { case g { if-feature " + q + "; leaf gl { " + in + "type string; } } case other { leaf ol { type string; } } }"
	case "anyxml":
		body = "anyxml g { if-feature " + q + "; }"
	case "uses":
		extra = "grouping grp { leaf g { type string; } }"
		body = "uses grp { if-feature " + q + "; }"
	case "augment":
		extra = "augment \"/top\" { if-feature " + q + "; leaf g { type string; } }"
	case "refine":
		extra = "grouping grp { leaf g { type string; } leaf h { type string; } }"
		body = "uses grp { refine g { if-feature " + q + "; description \"refined\"; } refine h { description \"always\"; } }"
	case "rpc":
		extra = "rpc g { if-feature " + q + "; }"
	case "notification":
		extra = "notification g { if-feature " + q + "; }"
	case "action":
		body = "action g { if-feature " + q + "; }"
	case "case-in-uses-augment":
		extra = "grouping grp { choice ch { case other { leaf ol { type string; } } } }"
		body = "uses grp { augment \"ch\" { case g { if-feature " + q + "; leaf gl { " + in + "type string; } } } }"
	case "leaf-in-uses-augment":
		extra = "grouping grp { container gc { leaf gx { type string; } } }"
		body = "uses grp { augment \"gc\" { leaf g { if-feature " + q + "; type string; } } }"
	case "action-in-grouping":
		extra = "grouping grp { action g { if-feature " + q + "; } leaf gl { type string; } }"
		body = "uses grp;"
	case "notification-in-grouping":
		extra = "grouping grp { notification g { if-feature " + q + "; } leaf gl { type string; } }"
		body = "uses grp;"
	case "action-in-augment":
		extra = "augment \"/top\" { action g { if-feature " + q + "; } }"
	case "notification-in-augment":
		extra = "augment \"/top\" { notification g { if-feature " + q + "; } }"
	}
	y := "module c11 { yang-version 1.1; namespace \"urn:c11\"; prefix m; " + feats + " " + extra +
		" container top { leaf before { type string; } " + body + " leaf after { type string; } } }"
	return y, files
}

// c11Present inspects the compiled module for the guarded statement.
func c11Present(m *meta.Module, stmt string) (present bool, problem string) {
	top, _ := findDef(m, "top").(*meta.Container)
	if top == nil {
		return false, "container top missing"
	}
	if findDef(top, "before") == nil || findDef(top, "after") == nil {
		return false, "siblings of the guarded statement are missing"
	}
	switch stmt {
	case "leaf-in-uses-augment":
		gc, _ := findDef(top, "gc").(*meta.Container)
		if gc == nil || findDef(gc, "gx") == nil {
			return false, "container gc of the used grouping (or its leaf gx) is missing"
		}
		return findDef(gc, "g") != nil, ""
	case "case", "case-in-uses-augment":
		ch, _ := findDef(top, "ch").(*meta.Choice)
		if ch == nil {
			return false, "choice ch missing"
		}
		if _, ok := ch.Cases()["other"]; !ok {
			return false, "unguarded case 'other' missing"
		}
		_, ok := ch.Cases()["g"]
		return ok, ""
	case "refine":
		g, _ := findDef(top, "g").(*meta.Leaf)
		h, _ := findDef(top, "h").(*meta.Leaf)
		if g == nil || h == nil {
			return false, "leaves of the used grouping missing"
		}
		if h.Description() != "always" {
			return false, "the unguarded refine of sibling h was not applied"
		}
		return g.Description() == "refined", ""
	case "rpc":
		_, ok := m.Actions()["g"]
		return ok, ""
	case "notification":
		_, ok := m.Notifications()["g"]
		return ok, ""
	case "action", "action-in-grouping", "action-in-augment":
		_, ok := top.Actions()["g"]
		return ok, ""
	case "notification-in-grouping", "notification-in-augment":
		_, ok := top.Notifications()["g"]
		return ok, ""
	}
	return findDef(top, "g") != nil, ""
}

// c11InnerPresent looks for the leaf inside the guarded container, choice or case.
func c11InnerPresent(m *meta.Module, stmt string) bool {
	top, _ := findDef(m, "top").(*meta.Container)
	switch stmt {
	case "container":
		g, _ := findDef(top, "g").(*meta.Container)
		return g != nil && findDef(g, "x") != nil
	case "choice":
		g, _ := findDef(top, "g").(*meta.Choice)
		if g == nil {
			return false
		}
		for _, cs := range g.Cases() {
			if findDef(cs, "x") != nil {
				return true
			}
		}
		return false
	case "case", "case-in-uses-augment":
		ch, _ := findDef(top, "ch").(*meta.Choice)
		if ch == nil {
			return false
		}
		cs := ch.Cases()["g"]
		return cs != nil && findDef(cs, "gl") != nil
	}
	return false
}

func c11Run(c c11Case, o *hx.Obs) {
	y, files := c11Yang(c)
	o.Class("stmt=%s", c.Stmt)
	if c.Tree == nil {
		// malformed expression: loading must fail under every configuration
		o.Class("malformed")
		o.NonTrivial()
		var err error
		if o.Guard("LoadModule(malformed)", func() { _, err = parser.LoadModuleFromString(memOpener(files), y) }) {
			return
		}
		if err == nil {
			o.Failf("iffeature-malformed|"+exprShape(c.Expr), "if-feature %q on a %s is not a valid expression but the module loaded", c.Expr, c.Stmt)
		}
		return
	}
	nops := c.Tree.ops()
	o.Class("ops=%d", nops)
	if len(c.More) > 0 {
		o.Class("several if-feature statements on the definition")
	}
	if c.Inner != "" {
		o.Class("the content of the definition has an if-feature of its own")
	}
	if c.OwnPrefix {
		o.Class("feature names carry the module's own prefix")
	}
	if nops >= 2 || strings.Contains(c.Expr, "(") {
		o.NonTrivial()
	}
	from, to := 0, 15
	if c.Mask >= 0 {
		from, to = c.Mask, c.Mask
	}
	for mask := from; mask <= to; mask++ {
		on := map[string]bool{}
		var onList, offList []string
		for i, f := range featNames {
			if mask&(1<<i) != 0 {
				on[f] = true
				onList = append(onList, f)
			} else {
				offList = append(offList, f)
			}
		}
		want := c.Tree.eval(on)
		for _, mt := range c.MoreTrees {
			want = want && mt.eval(on)
		}
		cfgs := []struct {
			name string
			fs   meta.FeatureSet
		}{{"allow-list", meta.FeaturesOn(onList)}, {"deny-list", meta.FeaturesOff(offList)}}
		if mask == 15 {
			cfgs = append(cfgs, struct {
				name string
				fs   meta.FeatureSet
			}{"all-on", nil})
		}
		for _, cfg := range cfgs {
			var m *meta.Module
			var err error
			if o.Guard("LoadModule", func() {
				m, err = parser.LoadModuleFromStringWithOptions(memOpener(files), y, parser.Options{Features: cfg.fs})
			}) {
				return
			}
			sub := ""
			if c.Sub {
				sub = "|submodule-features"
			}
			if err != nil {
				o.Failf("iffeature|"+exprShape(c.Expr)+"|"+cfg.name+"|load-error"+sub, "if-feature %q on a %s with enabled=%v (%s): load failed: %v", c.Expr, c.Stmt, onList, cfg.name, err)
				return
			}
			got, problem := c11Present(m, c.Stmt)
			if problem != "" {
				o.Failf("iffeature|"+exprShape(c.Expr)+"|"+cfg.name+"|collateral|"+c.Stmt+sub, "if-feature %q on a %s with enabled=%v (%s): %s", c.Expr, c.Stmt, onList, cfg.name, problem)
				return
			}
			if got != want {
				o.Failf("iffeature|"+exprShape(c.Expr)+"|"+cfg.name+"|"+c.Stmt+sub, "if-feature %q on a %s with enabled=%v (%s): statement present=%v, expression is %v (content guarded by %q)", c.Expr, c.Stmt, onList, cfg.name, got, want, c.Inner)
				return
			}
			if c.InnerTree != nil && got {
				inWant := c.InnerTree.eval(on)
				if inGot := c11InnerPresent(m, c.Stmt); inGot != inWant {
					o.Failf("iffeature|"+exprShape(c.Inner)+"|"+cfg.name+"|inside-"+c.Stmt+sub, "if-feature %q on the leaf inside a %s with if-feature %q, enabled=%v (%s): leaf present=%v, expression is %v", c.Inner, c.Stmt, c.Expr, onList, cfg.name, inGot, inWant)
					return
				}
			}
		}
	}
}

func c11Gen(t *rapid.T) c11Case {
	c := c11Case{Stmt: rapid.SampledFrom(c11Stmts).Draw(t, "stmt"), Sub: rapid.IntRange(0, 4).Draw(t, "sub") == 0, Mask: -1}
	if rapid.IntRange(0, 9).Draw(t, "malformed?") == 0 {
		c.Expr = rapid.SampledFrom([]string{"", " ", "a and", "and a", "a or", "or a", "not", "a not b", "a b", "a and and b", "a or or b", "(a", "a)", "((a)", "(a))", "()", "a and ()", "( )", "a and (b or)", "not not", "a and not", "(a or b", "a or b)"}).Draw(t, "bad")
		return c
	}
	c.Tree = genFexpr(t, rapid.IntRange(1, 4).Draw(t, "depth"))
	var b strings.Builder
	sp := rapid.SampledFrom([]string{"", "", " "}).Draw(t, "spacing")
	c.Tree.render(&b, 0, sp)
	c.Expr = b.String()
	if rapid.IntRange(0, 3).Draw(t, "own-prefix") == 0 {
		c.OwnPrefix = true
		var toks []string
		for _, tok := range strings.Fields(strings.NewReplacer("(", " ( ", ")", " ) ").Replace(c.Expr)) {
			if containsStr(featNames, tok) {
				tok = "m:" + tok
			}
			toks = append(toks, tok)
		}
		c.Expr = strings.Join(toks, " ")
	}
	if (c.Stmt == "container" || c.Stmt == "choice" || c.Stmt == "case" || c.Stmt == "case-in-uses-augment") && rapid.Bool().Draw(t, "inner-guard") {
		c.InnerTree = genFexpr(t, rapid.IntRange(0, 1).Draw(t, "inner-depth"))
		c.Inner = c.InnerTree.String()
	}
	if rapid.IntRange(0, 2).Draw(t, "several-statements") == 0 {
		for i := 0; i < rapid.IntRange(1, 2).Draw(t, "nmore"); i++ {
			e := genFexpr(t, rapid.IntRange(0, 2).Draw(t, "more-depth"))
			c.MoreTrees = append(c.MoreTrees, e)
			c.More = append(c.More, e.String())
		}
	}
	return c
}

var c11IfFeature = hx.Register(&hx.Check[c11Case]{
	Name: "c11-if-feature",
	Rule: "if-feature expressions over features {a,b,c,d} (random trees up to depth 4 with redundant parentheses and varied spacing; all trees with <= 2 operators enumerated in the thorough tier) on 13 guardable statement kinds, alone or with one or two further if-feature statements on the same definition, features optionally defined in a submodule; each expression is evaluated under all 16 feature assignments, each realised as an allow-list and as a deny-list configuration (and all-on); oracle = recursive descent with RFC 7950 precedence; malformed expressions must fail to load; non-trivial = >= 2 operators or parentheses",
	Gen:  c11Gen,
	Run:  c11Run,
})

// all expression trees with at most n operators over the feature alphabet (no redundant parentheses)
func allFexprs(n int) []*fexpr {
	if n == 0 {
		var out []*fexpr
		for _, f := range featNames[:3] {
			out = append(out, &fexpr{Name: f})
		}
		return out
	}
	var out []*fexpr
	for _, k := range allFexprs(n - 1) {
		out = append(out, &fexpr{Op: "not", Kids: []*fexpr{k}})
	}
	for l := 0; l <= n-1; l++ {
		for _, a := range allFexprs(l) {
			for _, b := range allFexprs(n - 1 - l) {
				out = append(out, &fexpr{Op: "and", Kids: []*fexpr{a, b}}, &fexpr{Op: "or", Kids: []*fexpr{a, b}})
			}
		}
	}
	return out
}

func TestC11(t *testing.T) {
	s := hx.Begin(t, "C11")
	defer s.End()
	maxOps := 2
	if s.Thorough() {
		maxOps = 3
	}
	hx.Each(s, c11IfFeature, false, func(yield func(c11Case) bool) {
		i := 0
		for n := 0; n <= maxOps; n++ {
			for _, e := range allFexprs(n) {
				c := c11Case{Expr: e.String(), Tree: e, Stmt: c11Stmts[i%len(c11Stmts)], Mask: -1}
				i++
				if !yield(c) {
					return
				}
			}
		}
	})
	hx.Run(s, c11IfFeature, s.N(1500, 12000))
	c11DeviationTests(s)
}

var _ = sort.Strings
var _ = fmt.Sprint
