package props

import (
	"fmt"
	"strings"

	"github.com/freeconf/yang/node"
	"github.com/freeconf/yang/nodeutil"
	"pgregory.net/rapid"

	"verif/harness/dm"
	"verif/harness/hx"
)

// C17, last sentence: a list kept in a Go slice or map finds, for every key type, exactly the entry whose key leaves
// equal the requested key - and no entry when there is none.

type c17LookupCase struct {
	KeyTypes []string   `json:"key_types"`
	Entries  [][]string `json:"entries"` // canonical key tuples, distinct
	Lookups  [][]string `json:"lookups"`
	Store    string     `json:"store"`
	// Partial > 0 (node-slice, compound keys): the slice starts with an item that is a copy of entry Partial-1 lacking the
	// key leaf PartialKey (not the last one): an item without a complete key is never the answer to a keyed lookup
	Partial    int `json:"partial,omitempty"`
	PartialKey int `json:"partialKey,omitempty"`
}

func c17KeyType(base string) *dm.Type {
	if base == "decimal64" {
		return &dm.Type{Base: "decimal64", FD: 8}
	}
	if base == "enumeration" {
		return &dm.Type{Base: "enumeration", Enums: []dm.EnumDef{{Name: "red", Value: 1}, {Name: "green", Value: 3}, {Name: "blue", Value: 4}}}
	}
	if base == "union" {
		return &dm.Type{Base: "union", Members: []*dm.Type{{Base: "int32"}, {Base: "string"}}}
	}
	return &dm.Type{Base: base}
}

func c17LookupGen(t *rapid.T) c17LookupCase {
	c := c17LookupCase{Store: rapid.SampledFrom([]string{"rs", "reflect-slice", "node-slice", "reflect-map", "node-map", "reflect-struct", "node-struct", "json-reader", "xml-reader", "node-map-enum-as-strings", "node-map-enum-as-int"}).Draw(t, "store")}
	bases := []string{"int8", "int16", "int32", "int64", "uint8", "uint16", "uint32", "uint64", "string", "boolean", "enumeration"}
	nk := rapid.IntRange(1, 3).Draw(t, "nkeys")
	switch c.Store {
	case "node-map-enum-as-strings", "node-map-enum-as-int":
		// a map-backed list that the node fills itself, with the option that makes it keep enumerations as their names
		// (or numbers): the key leaf is an enumeration
		nk = 1
		bases = []string{"enumeration"}
	case "reflect-map", "node-map":
		nk = 1
		bases = []string{"string", "int32", "int64"} // the key types the library itself creates maps for
	case "reflect-struct", "node-struct":
		bases = []string{"int8", "int32", "int64", "uint16", "uint64", "string", "boolean"}
	case "rs", "reflect-slice", "node-slice", "json-reader", "xml-reader":
		bases = append(bases, "decimal64", "binary", "union")
	}
	for i := 0; i < nk; i++ {
		c.KeyTypes = append(c.KeyTypes, rapid.SampledFrom(bases).Draw(t, "keytype"))
	}
	seen := map[string]bool{}
	n := rapid.IntRange(1, 8).Draw(t, "nentries")
	for i := 0; i < n; i++ {
		tuple := make([]string, nk)
		for j := range tuple {
			if len(c.Entries) > 0 && rapid.Bool().Draw(t, "share-component") {
				tuple[j] = c.Entries[rapid.IntRange(0, len(c.Entries)-1).Draw(t, "from")][j]
			} else if c.KeyTypes[j] == "string" {
				tuple[j] = rapid.SampledFrom([]string{"a", "b", "ab", "B", "10", "9", "z", "é", "a b", "a,b"}).Draw(t, "strkey")
			} else if c.KeyTypes[j] == "binary" {
				tuple[j] = rapid.SampledFrom([]string{"YQ==", "YWI=", "YWJj", "AAE=", "AA==", "YWJk"}).Draw(t, "binkey")
			} else if c.KeyTypes[j] == "decimal64" {
				// neighbours that differ in the eighth fraction digit only
				tuple[j] = rapid.SampledFrom([]string{"1.00000011", "1.00000012", "1.00000013", "1.0000001", "1", "-1.00000011", "0.00000001", "0", "2.5"}).Draw(t, "deckey")
			} else {
				tuple[j] = dm.GenValue(t, c17KeyType(c.KeyTypes[j]), "key", true)
			}
		}
		id := strings.Join(tuple, "\x00")
		if seen[id] {
			continue
		}
		seen[id] = true
		c.Entries = append(c.Entries, tuple)
	}
	if c.Store == "node-slice" && nk > 1 && rapid.IntRange(0, 2).Draw(t, "partial-item") == 0 {
		c.Partial = 1 + rapid.IntRange(0, len(c.Entries)-1).Draw(t, "partial-of")
		c.PartialKey = rapid.IntRange(0, nk-2).Draw(t, "partial-key")
	}
	// look up every entry, and tuples recombined from the components present (mostly absent)
	c.Lookups = append(c.Lookups, c.Entries...)
	for i := 0; i < rapid.IntRange(1, 6).Draw(t, "nabsent"); i++ {
		tuple := make([]string, nk)
		for j := range tuple {
			if rapid.IntRange(0, 3).Draw(t, "fresh") == 0 {
				if c.KeyTypes[j] == "string" {
					tuple[j] = rapid.SampledFrom([]string{"a", "b", "c", "nope"}).Draw(t, "strkey")
				} else if c.KeyTypes[j] == "binary" {
					tuple[j] = rapid.SampledFrom([]string{"YQ==", "YWI=", "YWJj", "eHl6"}).Draw(t, "binkey")
				} else if c.KeyTypes[j] == "decimal64" {
					tuple[j] = rapid.SampledFrom([]string{"1.00000011", "1.00000012", "1.00000013", "1.00000014", "1", "0.00000002"}).Draw(t, "deckey")
				} else {
					tuple[j] = dm.GenValue(t, c17KeyType(c.KeyTypes[j]), "key", true)
				}
			} else {
				tuple[j] = c.Entries[rapid.IntRange(0, len(c.Entries)-1).Draw(t, "from")][j]
			}
		}
		c.Lookups = append(c.Lookups, tuple)
	}
	return c
}

// optsStore serves a map the library filled, through a nodeutil.Node with the options it was filled with
type optsStore struct {
	data map[string]interface{}
	opts nodeutil.NodeOptions
}

func (s optsStore) Kind() string               { return "node-map-opts" }
func (s optsStore) Node() node.Node            { return &nodeutil.Node{Object: s.data, Options: s.opts} }
func (s optsStore) Snapshot() (dm.Tree, error) { return nil, fmt.Errorf("no snapshot") }
func (s optsStore) KeepsOrder() bool           { return false }
func (s optsStore) ZeroIsUnset() bool          { return false }

func c17LookupRun(c c17LookupCase, o *hx.Obs) {
	l := &dm.Node{Kind: "list", Name: "l"}
	for i, b := range c.KeyTypes {
		k := fmt.Sprintf("k%d", i)
		l.Keys = append(l.Keys, k)
		l.Children = append(l.Children, &dm.Node{Kind: "leaf", Name: k, Type: c17KeyType(b)})
	}
	l.Children = append(l.Children, &dm.Node{Kind: "leaf", Name: "v", Type: &dm.Type{Base: "string"}})
	m := &dm.Module{Name: "gm", Top: []*dm.Node{l}}
	mm, err := loadDM(m)
	if err != nil {
		o.Failf("harness|schema-rejected", "%v\n%s", err, m.Yang())
		return
	}
	o.Class("store=%s", c.Store)
	o.Class("keys=%d", len(c.KeyTypes))
	for _, b := range c.KeyTypes {
		o.Class("keytype=%s", b)
	}
	var rows []interface{}
	present := map[string]string{}
	shared := false
	for i, e := range c.Entries {
		row := dm.Tree{"v": fmt.Sprintf("e%d", i)}
		for j, k := range l.Keys {
			row[k] = e[j]
		}
		rows = append(rows, row)
		present[strings.Join(e, "\x00")] = fmt.Sprintf("e%d", i)
		for _, other := range c.Entries[:i] {
			for j := range e {
				if other[j] == e[j] {
					shared = true
				}
			}
		}
	}
	if (len(c.KeyTypes) > 1 && shared) || len(c.Entries) >= 3 {
		o.NonTrivial()
	}
	if c.Partial > 0 && c.Partial <= len(c.Entries) && c.PartialKey < len(l.Keys)-1 && c.Store == "node-slice" {
		row := dm.Tree{"v": "partial"}
		for j, k := range l.Keys {
			if j != c.PartialKey {
				row[k] = c.Entries[c.Partial-1][j]
			}
		}
		rows = append([]interface{}{row}, rows...)
		o.Class("the slice starts with an item that lacks a key leaf")
		o.NonTrivial()
	}
	var store dm.Store
	var serr error
	if strings.HasPrefix(c.Store, "node-map-enum") {
		// the entries are written through the node itself
		data := map[string]interface{}{}
		opts := nodeutil.NodeOptions{EnumAsStrings: c.Store == "node-map-enum-as-strings", EnumAsInt: c.Store == "node-map-enum-as-int"}
		src, jerr := nodeutil.ReadJSON(dm.ToJSON("", m.Root(), dm.Tree{"l": rows}, dm.JSONStyle{}))
		if jerr == nil {
			jerr = node.NewBrowser(mm, &nodeutil.Node{Object: data, Options: opts}).Root().UpsertFrom(src)
		}
		if jerr != nil {
			o.Failf("lookup|fill-error|"+c.Store+"|"+strings.Join(c.KeyTypes, ","), "filling the list through the node failed: %v", jerr)
			return
		}
		store = optsStore{data: data, opts: opts}
	} else if store, serr = dm.NewStore(c.Store, m.Root(), dm.Tree{"l": rows}); serr != nil {
		o.Failf("harness|store", "%v", serr)
		return
	}
	sig := func(clause string) string {
		return "lookup|" + clause + "|" + c.Store + "|" + strings.Join(c.KeyTypes, ",")
	}
	for _, lk := range c.Lookups {
		want, isPresent := present[strings.Join(lk, "\x00")]
		path := findPath(dm.Path{{Name: "l", Key: lk}})
		var sel *node.Selection
		var ferr error
		var got string
		if o.Guard("Find("+path+")", func() {
			sel, ferr = node.NewBrowser(mm, store.Node()).Root().Find(path)
			if sel != nil && ferr == nil {
				v, e := sel.GetValue("v")
				if e != nil {
					ferr = e
				} else if v != nil {
					got = v.String()
				}
			}
		}) {
			return
		}
		switch {
		case isPresent && (sel == nil || ferr != nil):
			o.Failf(sig("missed"), "Find(%s) does not find the entry with key %q that the list holds (sel=%v err=%v); entries %q", path, lk, sel != nil, ferr, c.Entries)
			return
		case isPresent && got != want:
			o.Failf(sig("wrong-entry"), "Find(%s) returned the entry %q, the entry with key %q is %q; entries %q", path, got, lk, want, c.Entries)
			return
		case !isPresent && sel != nil && ferr == nil:
			o.Failf(sig("phantom"), "Find(%s) returned entry %q although no entry has key %q; entries %q", path, got, lk, c.Entries)
			return
		}
	}
}

var c17Lookup = hx.Register(&hx.Check[c17LookupCase]{
	Name: "c17-list-lookup",
	Rule: "a list with 1-3 key leaves (all integer widths, string, boolean, enumeration, decimal64 with eight fraction digits and keys that differ in the last one) and 1-8 entries whose key components are boundary values and are shared between entries with probability 1/2, held by the reference store, slice- and map-backed Reflect and Node stores and struct-backed stores; every entry is looked up by its key and so are 1-6 tuples recombined from components that occur (mostly absent): Find returns exactly the entry whose key leaves equal the requested key, and nothing for an absent key; non-trivial = a compound key with a component shared between entries, or >= 3 entries",
	Gen:  c17LookupGen,
	Run:  c17LookupRun,
})

// ---- the order as a where= filter shows it --------------------------------------------------------

type c17FilterCase struct {
	Base   string   `json:"base"`
	Values []string `json:"values"`
}

var c17Filter = hx.Register(&hx.Check[c17FilterCase]{
	Name: "c17-filter-order",
	Rule: "a list whose rows hold 2-5 values of one type (every integer width, decimal64, string, enumeration; boundary values, neighbours), read through where=<leaf> <op> <literal> for each of the six operators and each row value as the literal (complete matrix per case): the rows kept are exactly those the order of the values and their equality call for, in particular <= and >= keep the row that equals the literal; non-trivial = always (every literal equals some row)",
	Gen: func(t *rapid.T) c17FilterCase {
		c := c17FilterCase{Base: rapid.SampledFrom([]string{"int8", "int16", "int32", "int64", "uint8", "uint16", "uint32", "uint64", "decimal64", "string", "enumeration"}).Draw(t, "base")}
		ty := c16Type(c.Base)
		n := rapid.IntRange(2, 5).Draw(t, "rows")
		for i := 0; i < n; i++ {
			if c.Base == "string" {
				c.Values = append(c.Values, rapid.SampledFrom([]string{"a", "b", "c", "aa", "ab", "B", "é", "10", "9", "x y", "a-b"}).Draw(t, "v"))
			} else {
				c.Values = append(c.Values, dm.GenValue(t, ty, "v", true))
			}
		}
		return c
	},
	Run: func(c c17FilterCase, o *hx.Obs) {
		o.NonTrivial()
		for _, lit := range c.Values {
			for _, op := range []string{"=", "!=", "<", "<=", ">", ">="} {
				c16Run(c16Case{Base: c.Base, Op: op, Literal: lit, Values: c.Values, Unset: make([]bool, len(c.Values)), Placement: "where"}, o)
				if o.Failed() {
					return
				}
			}
		}
	},
})
