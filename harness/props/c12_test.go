package props

import (
	"context"
	"errors"
	"fmt"
	"strings"
	"testing"

	"github.com/freeconf/yang/meta"
	"github.com/freeconf/yang/node"
	"github.com/freeconf/yang/val"
	"pgregory.net/rapid"

	"verif/harness/dm"
	"verif/harness/hx"
)

// ---- C12: begin/end pairing and error surfacing under injected faults ----------------------

type recEvent struct {
	Seq      int    `json:"seq"`
	Side     string `json:"side"`
	Node     int    `json:"node"`
	Kind     string `json:"kind"`
	Name     string `json:"name,omitempty"`
	New      bool   `json:"new,omitempty"`
	Delete   bool   `json:"delete,omitempty"`
	Write    bool   `json:"write,omitempty"`
	Clear    bool   `json:"clear,omitempty"`
	EditRoot bool   `json:"editRoot,omitempty"`
	Err      bool   `json:"err,omitempty"`
	Faulted  bool   `json:"faulted,omitempty"`
}

type recLog struct {
	events   []recEvent
	seq      int
	faultAt  int
	nodes    int
	apiDone  bool
	late     []recEvent
	endsFail bool // every EndEdit after the injected fault fails with errSentinel2
	faulted  bool
	// the same call made a second time through the same selection, without a fault (c12Case.Again)
	second    *recLog
	secondErr error
}

var errSentinel2 = errors.New("injected failure of EndEdit after an earlier failure")
var errTrigger = errors.New("injected trigger failure")

var errSentinel = errors.New("injected node failure")

type recNode struct {
	inner node.Node
	log   *recLog
	side  string
	id    int
}

func wrapRec(n node.Node, log *recLog, side string) node.Node {
	if n == nil {
		return nil
	}
	log.nodes++
	return &recNode{inner: n, log: log, side: side, id: log.nodes}
}

// step records the callback; returns true when the fault is to be injected here
func (r *recNode) step(e recEvent) (int, bool) {
	r.log.seq++
	e.Seq, e.Side, e.Node = r.log.seq, r.side, r.id
	e.Faulted = r.log.seq == r.log.faultAt
	if e.Faulted {
		r.log.faulted = true
	}
	if r.log.apiDone {
		r.log.late = append(r.log.late, e)
	}
	r.log.events = append(r.log.events, e)
	return len(r.log.events) - 1, e.Faulted
}

func (r *recNode) Child(req node.ChildRequest) (node.Node, error) {
	i, fault := r.step(recEvent{Kind: "Child", Name: req.Meta.Ident(), New: req.New, Delete: req.Delete})
	if fault {
		return nil, errSentinel
	}
	c, err := r.inner.Child(req)
	r.log.events[i].Err = err != nil
	return wrapRec(c, r.log, r.side), err
}

func (r *recNode) Next(req node.ListRequest) (node.Node, []val.Value, error) {
	i, fault := r.step(recEvent{Kind: "Next", Name: req.Meta.Ident(), New: req.New, Delete: req.Delete})
	if fault {
		return nil, nil, errSentinel
	}
	c, k, err := r.inner.Next(req)
	r.log.events[i].Err = err != nil
	return wrapRec(c, r.log, r.side), k, err
}

func (r *recNode) Field(req node.FieldRequest, hnd *node.ValueHandle) error {
	i, fault := r.step(recEvent{Kind: "Field", Name: req.Meta.Ident(), Write: req.Write, Clear: req.Clear})
	if fault {
		return errSentinel
	}
	err := r.inner.Field(req, hnd)
	r.log.events[i].Err = err != nil
	return err
}

func (r *recNode) Choose(sel *node.Selection, choice *meta.Choice) (*meta.ChoiceCase, error) {
	i, fault := r.step(recEvent{Kind: "Choose", Name: choice.Ident()})
	if fault {
		return nil, errSentinel
	}
	c, err := r.inner.Choose(sel, choice)
	r.log.events[i].Err = err != nil
	return c, err
}

func (r *recNode) BeginEdit(req node.NodeRequest) error {
	i, fault := r.step(recEvent{Kind: "BeginEdit", New: req.New, Delete: req.Delete, EditRoot: req.EditRoot})
	if fault {
		r.log.events[i].Err = true
		return errSentinel
	}
	err := r.inner.BeginEdit(req)
	r.log.events[i].Err = err != nil
	return err
}

func (r *recNode) EndEdit(req node.NodeRequest) error {
	already := r.log.faulted
	i, fault := r.step(recEvent{Kind: "EndEdit", New: req.New, Delete: req.Delete, EditRoot: req.EditRoot})
	if fault {
		r.log.events[i].Err = true
		return errSentinel
	}
	if already && r.log.endsFail {
		// the node is told the edit ended all the same, and then reports a failure of its own
		r.inner.EndEdit(req)
		r.log.events[i].Err = true
		return errSentinel2
	}
	err := r.inner.EndEdit(req)
	r.log.events[i].Err = err != nil
	return err
}

func (r *recNode) Action(req node.ActionRequest) (node.Node, error) { return r.inner.Action(req) }
func (r *recNode) Notify(req node.NotifyRequest) (node.NotifyCloser, error) {
	return r.inner.Notify(req)
}
func (r *recNode) Peek(sel *node.Selection, c interface{}) interface{} { return r.inner.Peek(sel, c) }
func (r *recNode) Context(sel *node.Selection) context.Context         { return sel.Context }
func (r *recNode) Release(sel *node.Selection)                         {}

type c12Case struct {
	Module *dm.Module `json:"module"`
	Target dm.Tree    `json:"target"`
	Source dm.Tree    `json:"source"` // content for the entry node (edits) / replacement content
	Entry  dm.Path    `json:"entry"`
	Op     string     `json:"op"` // upsert | insert | update | delete | replace
	// Into: the ...Into entry points: the full tree is the side being read (selection found at Entry), Source is what the
	// node being written to holds before
	Into bool `json:"into,omitempty"`
	// Trigger: a node.Trigger installed on the browser of the selection: "" none, "passive" (both callbacks succeed),
	// "begin-fails" / "end-fails" (that callback returns an error every time it is called)
	Trigger string `json:"trigger,omitempty"`
	// EndsFail: from the injected fault on, every EndEdit callback fails too (a second, different error)
	EndsFail bool `json:"endsFail,omitempty"`
	// Again: after the call with the injected fault the same call is made once more through the same selection, with
	// nothing failing: the pairing must hold for that call as well
	Again bool `json:"again,omitempty"`
	// FaultAt: 0 = enumerate every position (the normal mode); > 0 only that position (replay of a shrunk failure)
	FaultAt int `json:"faultAt"`
}

// run executes the scenario with a fault at position k (0 = none) and returns the log, the error and a panic text.
func c12Exec(c c12Case, mm *meta.Module, k int) (*recLog, error, string) {
	root := c.Module.Root()
	log := &recLog{faultAt: k, endsFail: c.EndsFail && k > 0}
	store, _ := dm.NewStore("rs", root, c.Target)
	selSide, nodeSide := "target", "source"
	if c.Into {
		selSide, nodeSide = "source", "target"
	}
	tn := wrapRec(store.Node(), log, selSide)
	var apiErr error
	var panicTxt string
	func() {
		defer func() {
			if r := recover(); r != nil {
				panicTxt = fmt.Sprint(r)
			}
		}()
		b := node.NewBrowser(mm, tn)
		if c.Trigger != "" {
			b.Triggers.Install(&node.Trigger{
				OnBegin: func(*node.Trigger, node.NodeRequest) error {
					if c.Trigger == "begin-fails" {
						return errTrigger
					}
					return nil
				},
				OnEnd: func(*node.Trigger, node.NodeRequest) error {
					if c.Trigger == "end-fails" {
						return errTrigger
					}
					return nil
				},
			})
		}
		sel := b.Root()
		if len(c.Entry) > 0 {
			var ferr error
			// navigation is not part of the edit: do it without faults
			saved := log.faultAt
			log.faultAt = -1
			sel, ferr = sel.Find(findPath(c.Entry))
			log.faultAt = saved
			// callbacks made while navigating do not count
			log.events = nil
			log.seq = 0
			if ferr != nil || sel == nil {
				apiErr = fmt.Errorf("harness: entry not found: %v", ferr)
				return
			}
		}
		en, _, _ := dm.Resolve(root, c.Target, c.Entry)
		isList := len(c.Entry) > 0 && en.Kind == "list" && c.Entry[len(c.Entry)-1].Key == nil
		mkSrc := func() node.Node {
			if isList {
				pn, _, _ := dm.ParentOf(root, c.Target, c.Entry)
				return wrapRec(dm.NewRSList(pn, en, dm.CloneTree(c.Source)), log, nodeSide)
			}
			return wrapRec(dm.NewRS(en, dm.CloneTree(c.Source)), log, nodeSide)
		}
		op := func() error {
			var opErr error
			switch {
			case c.Op == "upsert" && c.Into:
				opErr = sel.UpsertInto(mkSrc())
			case c.Op == "insert" && c.Into:
				opErr = sel.InsertInto(mkSrc())
			case c.Op == "update" && c.Into:
				opErr = sel.UpdateInto(mkSrc())
			}
			if c.Into {
				return opErr
			}
			switch c.Op {
			case "upsert":
				opErr = sel.UpsertFrom(mkSrc())
			case "insert":
				opErr = sel.InsertFrom(mkSrc())
			case "update":
				opErr = sel.UpdateFrom(mkSrc())
			case "delete":
				opErr = sel.Delete()
			case "replace":
				pn, _, _ := dm.ParentOf(root, c.Target, c.Entry)
				last := c.Entry[len(c.Entry)-1]
				var src node.Node
				if last.Key != nil {
					src = wrapRec(dm.NewRSList(pn, pn.Child(last.Name), dm.Tree{last.Name: []interface{}{dm.Clone(c.Source)}}), log, "source")
				} else {
					src = wrapRec(dm.NewRS(pn, dm.Tree{last.Name: dm.Clone(c.Source)}), log, "source")
				}
				opErr = sel.ReplaceFrom(src)
			}
			return opErr
		}
		apiErr = op()
		if c.Again && k > 0 {
			// the same call once more through the same selection, this time with nothing failing: what the first
			// call left behind in the selection must not show
			first := *log
			log.events, log.seq, log.faultAt, log.faulted, log.endsFail, log.late, log.apiDone = nil, 0, -1, false, false, nil, false
			err2 := op()
			second := *log
			second.apiDone = true
			*log = first
			log.second, log.secondErr = &second, err2
		}
	}()
	log.apiDone = true
	return log, apiErr, panicTxt
}

func c12Check(o *hx.Obs, c c12Case, log *recLog, apiErr error, panicTxt string, k int, expectErr bool) bool {
	faultKind, faultSide := "none", ""
	if k > 0 && k <= len(log.events) {
		faultKind, faultSide = log.events[k-1].Kind, log.events[k-1].Side
	}
	bub := "at-root"
	if len(c.Entry) > 0 {
		bub = "below-root"
	}
	sig := func(clause string) string {
		return "edit-protocol|" + clause + "|" + faultKind + "|" + faultSide + "|" + bub
	}
	desc := func() string {
		var b strings.Builder
		for _, e := range log.events {
			fmt.Fprintf(&b, "%d:%s#%d.%s", e.Seq, e.Side[:1], e.Node, e.Kind)
			if e.Name != "" {
				b.WriteString("(" + e.Name + ")")
			}
			if e.New {
				b.WriteString("+new")
			}
			if e.Delete {
				b.WriteString("+del")
			}
			if e.Write {
				b.WriteString("+w")
			}
			if e.EditRoot {
				b.WriteString("+root")
			}
			if e.Faulted {
				b.WriteString("!FAULT")
			} else if e.Err {
				b.WriteString("!err")
			}
			b.WriteString(" ")
		}
		return b.String()
	}
	if panicTxt != "" {
		o.Failf(sig("panic"), "%s at %s: panic: %s\nhistory: %s", c.Op, findPath(c.Entry), panicTxt, desc())
		return false
	}
	// (3) error surfacing
	if k > 0 && k <= len(log.events) {
		if apiErr == nil {
			o.Failf(sig("error-lost"), "callback %d (%s on the %s side) returned an error but the API call returned nil\nhistory: %s", k, faultKind, faultSide, desc())
			return false
		}
		if !errors.Is(apiErr, errSentinel) && (errors.Is(apiErr, errTrigger) || errors.Is(apiErr, errSentinel2)) {
			// the call failed for a later reason of the scenario's own making; the injected error itself got lost
			o.Failf(sig("error-lost"), "callback %d (%s on the %s side) returned an error that the API error %q (a later failure) does not wrap\nhistory: %s", k, faultKind, faultSide, apiErr, desc())
			return false
		}
		if !errors.Is(apiErr, errSentinel) {
			o.Failf(sig("not-wrapped"), "callback %d (%s on the %s side) failed; the API error %q does not wrap it\nhistory: %s", k, faultKind, faultSide, apiErr, desc())
			return false
		}
		// the second failure (an EndEdit that failed after the fault) is a callback error like the first
		for _, e := range log.events {
			if e.Kind == "EndEdit" && e.Err && !e.Faulted && log.endsFail && !errors.Is(apiErr, errSentinel2) {
				o.Failf(sig("second-error-lost"), "EndEdit %d failed too (after the fault at %d) but the API error %q does not wrap that failure\nhistory: %s", e.Seq, k, apiErr, desc())
				return false
			}
		}
	} else if apiErr != nil && !expectErr {
		o.Failf(sig("spurious-error"), "fault-free %s failed: %v", c.Op, apiErr)
		return false
	}
	// (1) pairing per node
	type open struct{ e recEvent }
	opened := map[int][]recEvent{}
	for _, e := range log.events {
		switch e.Kind {
		case "BeginEdit":
			if e.Side == "source" {
				o.Failf(sig("stranger"), "the source side was told BeginEdit\nhistory: %s", desc())
				return false
			}
			if !e.Err {
				opened[e.Node] = append(opened[e.Node], e)
			}
		case "EndEdit":
			if e.Side == "source" {
				o.Failf(sig("stranger"), "the source side was told EndEdit\nhistory: %s", desc())
				return false
			}
			st := opened[e.Node]
			if len(st) == 0 {
				o.Failf(sig("end-without-begin"), "node #%d was told EndEdit (seq %d) without a successful BeginEdit\nhistory: %s", e.Node, e.Seq, desc())
				return false
			}
			b := st[len(st)-1]
			opened[e.Node] = st[:len(st)-1]
			if b.New != e.New || b.Delete != e.Delete || b.EditRoot != e.EditRoot {
				o.Failf(sig("flags-differ"), "node #%d: BeginEdit(seq %d new=%v del=%v root=%v) but EndEdit(seq %d new=%v del=%v root=%v)\nhistory: %s", e.Node, b.Seq, b.New, b.Delete, b.EditRoot, e.Seq, e.New, e.Delete, e.EditRoot, desc())
				return false
			}
		}
	}
	for id, st := range opened {
		if len(st) > 0 {
			o.Failf(sig("no-end"), "node #%d was told BeginEdit (seq %d) and never EndEdit before the call returned\nhistory: %s", id, st[0].Seq, desc())
			return false
		}
	}
	if len(log.late) > 0 {
		o.Failf(sig("late-callback"), "callbacks after the API call returned: %v", log.late)
		return false
	}
	// (4) no write after the failing call
	if k > 0 && k <= len(log.events) {
		for _, e := range log.events[k:] {
			if e.Side == "target" && ((e.Kind == "Field" && (e.Write || e.Clear)) || ((e.Kind == "Child" || e.Kind == "Next") && (e.New || e.Delete))) {
				o.Failf(sig("write-after-fault"), "callback %d failed but write %s(%s) followed at %d\nhistory: %s", k, e.Kind, e.Name, e.Seq, desc())
				return false
			}
		}
	}
	return true
}

func c12Run(c c12Case, o *hx.Obs) {
	schemaClasses(o, c.Module)
	mm, err := loadDM(c.Module)
	if err != nil {
		o.Failf("harness|schema-rejected", "%v", err)
		return
	}
	if _, _, ok := dm.Resolve(c.Module.Root(), c.Target, c.Entry); !ok {
		return
	}
	o.Class("op=%s into=%v", c.Op, c.Into)
	if c.Trigger != "" {
		o.Class("trigger=%s", c.Trigger)
	}
	if c.EndsFail {
		o.Class("EndEdit fails too after the fault")
	}
	log0, err0, p0 := c12Exec(c, mm, 0)
	if err0 != nil && strings.HasPrefix(err0.Error(), "harness:") {
		return
	}
	// a fault-free run may legitimately fail (conflict / not found): pairing still has to hold
	if !c12Check(o, c, log0, err0, p0, 0, true) {
		return
	}
	K := len(log0.events)
	o.Class("K=%d", (K/10)*10)
	if K >= 6 {
		o.NonTrivial()
	}
	from, to := 1, K
	if c.FaultAt > 0 {
		from, to = c.FaultAt, c.FaultAt
	}
	failed := 0
	for k := from; k <= to; k++ {
		lg, e, p := c12Exec(c, mm, k)
		if k <= len(lg.events) {
			o.Class("fault=%s/%s", lg.events[k-1].Kind, lg.events[k-1].Side)
		}
		if lg.second != nil {
			o.Class("the same call again through the same selection after the fault")
			if !c12Check(o, c, lg.second, lg.secondErr, "", 0, true) {
				if failed++; failed >= 3 {
					return
				}
				continue
			}
		}
		if !c12Check(o, c, lg, e, p, k, true) {
			// the fault positions after this one are still looked at: a recorded finding at an early position must not
			// hide what later ones show
			if failed++; failed >= 3 {
				return
			}
		}
	}
}

func c12Gen(t *rapid.T) c12Case {
	o := dm.DefaultGen()
	o.Types = []string{"int32", "string", "boolean"}
	o.KeyTypes = []string{"string", "int32"}
	o.ConfigFalse, o.Unions, o.LeafLists = false, false, true
	o.MaxChildren, o.MaxDepth = 3, 2
	m := dm.GenModule(t, o)
	root := m.Root()
	to := dm.TreeOpts{MaxEntries: 2, EasyKeys: true, EasyStrings: true, PresentPct: 75, NoEmptyStr: true}
	u := dm.GenTree(t, root, to)
	target := dm.Subsample(t, root, u, 75, 0, to)
	source := dm.Subsample(t, root, u, 60, 50, to)
	if rapid.IntRange(0, 2).Draw(t, "other-cases") == 0 {
		// content drawn afresh: where the schema has choices the source may hold another case than the target does, and
		// the edit clears the case that goes
		source = dm.Subsample(t, root, dm.GenTree(t, root, to), 60, 50, to)
	}
	if rapid.IntRange(0, 2).Draw(t, "list-when") == 0 {
		// a list states a when that hides one of the entries the target holds (the edit skips entries it cannot see)
		var cands []*dm.Node
		for _, n := range m.Top {
			if rows, _ := target[n.Name].([]interface{}); n.Kind == "list" && len(n.Keys) > 0 && len(rows) > 0 && n.When == "" {
				cands = append(cands, n)
			}
		}
		if len(cands) > 0 {
			l := cands[rapid.IntRange(0, len(cands)-1).Draw(t, "when-list")]
			rows := target[l.Name].([]interface{})
			hidden := rows[rapid.IntRange(0, len(rows)-1).Draw(t, "hidden-row")].(dm.Tree)
			if kv, isStr := hidden[l.Keys[0]].(string); isStr && !strings.ContainsAny(kv, "'\"\\") {
				l.When = l.Keys[0] + " != '" + kv + "'"
			}
		}
	}
	c := c12Case{Module: m, Target: target, Op: rapid.SampledFrom([]string{"upsert", "upsert", "insert", "update", "delete", "replace"}).Draw(t, "op")}
	paths := dm.AllPaths(root, target, nil)
	if len(paths) > 0 && (c.Op == "delete" || c.Op == "replace" || rapid.Bool().Draw(t, "nonroot")) {
		c.Entry = paths[rapid.IntRange(0, len(paths)-1).Draw(t, "entry")]
	}
	if len(c.Entry) == 0 && (c.Op == "replace" || (c.Op == "delete" && rapid.Bool().Draw(t, "not-the-root"))) {
		c.Op = "upsert" // (a delete of the root itself stays in: it has to fail cleanly)
	}
	en, _, _ := dm.Resolve(root, target, c.Entry)
	isList := len(c.Entry) > 0 && en.Kind == "list" && c.Entry[len(c.Entry)-1].Key == nil
	_, sv, ok := dm.Resolve(root, source, c.Entry)
	switch {
	case c.Op == "delete":
	case c.Op == "replace":
		if isList {
			c.Op = "delete"
			break
		}
		c.Source = dm.GenTree(t, en, to)
		if last := c.Entry[len(c.Entry)-1]; last.Key != nil {
			for j, kn := range en.Keys {
				c.Source[kn] = last.Key[j]
			}
		}
	case len(c.Entry) == 0:
		c.Source = source
	case isList:
		l, _ := sv.([]interface{})
		if !ok || l == nil {
			l = dm.GenEntries(t, en, to)
		}
		c.Source = dm.Tree{en.Name: l}
	default:
		st, isT := sv.(dm.Tree)
		if !ok || !isT {
			st = dm.GenTree(t, en, to)
			if en.Kind == "list" {
				for i, k := range en.Keys {
					st[k] = c.Entry[len(c.Entry)-1].Key[i]
				}
			}
		}
		c.Source = st
	}
	if c.Op == "upsert" || c.Op == "insert" || c.Op == "update" {
		c.Into = rapid.IntRange(0, 2).Draw(t, "into") == 0
	}
	c.Trigger = rapid.SampledFrom([]string{"", "", "", "passive", "begin-fails", "end-fails"}).Draw(t, "trigger")
	c.EndsFail = rapid.IntRange(0, 3).Draw(t, "ends-fail") == 0
	c.Again = rapid.IntRange(0, 2).Draw(t, "again") == 0
	return c
}

var c12Faults = hx.Register(&hx.Check[c12Case]{
	Name: "c12-fault-enumeration",
	Rule: "edit scenarios (upsert / insert / update in both directions (...From and ...Into) / delete / replace x generated tree shapes x entry point root / container / list / list entry) with source and target wrapped by a recording node; the scenario is run fault-free (K callbacks) and then once for every k in 1..K with callback k (Child, Next, Field, Choose, BeginEdit or EndEdit on either side) returning a sentinel error - exhaustive per scenario; optionally with a trigger installed on the browser that succeeds, fails on begin or fails on end, and optionally with every EndEdit after the injected fault failing too (a second error); invariants over each recorded history: begin/end pairing with equal flags before the call returns, no begin/end on the source side, the API error wraps the sentinel, no write after the failing call; non-trivial = K >= 6",
	Gen:  c12Gen,
	Run:  c12Run,
})

func TestC12(t *testing.T) {
	s := hx.Begin(t, "C12")
	defer s.End()
	hx.Run(s, c12Faults, s.N(1500, 12000))
}
