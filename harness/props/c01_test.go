package props

import (
	"fmt"
	"sort"
	"strings"
	"testing"

	"github.com/freeconf/yang/meta"
	"github.com/freeconf/yang/parser"
	"pgregory.net/rapid"

	"verif/harness/hx"
	"verif/harness/ydump"
)

// ---- C01: the compiled schema equals the RFC 7950 expansion, however it was factored ----------

// yst is a YANG statement (syntax tree Y).
type yst struct {
	Kw   string `json:"kw"`
	Arg  string `json:"arg,omitempty"`
	Kids []*yst `json:"kids,omitempty"`
}

func (s *yst) clone() *yst {
	c := &yst{Kw: s.Kw, Arg: s.Arg}
	for _, k := range s.Kids {
		c.Kids = append(c.Kids, k.clone())
	}
	return c
}

func (s *yst) render(b *strings.Builder, ind string) {
	b.WriteString(ind + s.Kw)
	if s.Arg != "" || s.Kw == "description" || s.Kw == "presence" {
		switch s.Kw {
		case "description", "reference", "presence", "when", "must", "default", "key", "augment", "refine", "namespace", "error-message", "units", "unique":
			b.WriteString(" " + dquote(s.Arg))
		default:
			b.WriteString(" " + s.Arg)
		}
	}
	if len(s.Kids) == 0 && !isBlockKw(s.Kw) {
		b.WriteString(";\n")
		return
	}
	b.WriteString(" {\n")
	for _, k := range s.Kids {
		k.render(b, ind+" ")
	}
	b.WriteString(ind + "}\n")
}

func isBlockKw(kw string) bool {
	switch kw {
	case "module", "submodule", "container", "list", "leaf", "leaf-list", "choice", "case", "grouping", "augment", "refine", "rpc", "action", "notification", "input", "output", "anyxml":
		return true
	}
	return false
}

func isDataKw(kw string) bool {
	switch kw {
	case "container", "list", "leaf", "leaf-list", "choice", "anyxml", "uses":
		return true
	}
	return false
}

// ---- generation of the semantic tree, directly as inline statements --------------------------

type c01Gen struct {
	t        *rapid.T
	n        int
	features bool
}

func (g *c01Gen) name(p string) string {
	g.n++
	return fmt.Sprintf("%s%d", p, g.n)
}

func st(kw, arg string, kids ...*yst) *yst { return &yst{Kw: kw, Arg: arg, Kids: kids} }

func (g *c01Gen) leaf(cfg bool, parentCfg bool) *yst {
	l := st("leaf", g.name("f"))
	ty := rapid.SampledFrom([]string{"string", "int32", "boolean", "tdef"}).Draw(g.t, "ltype")
	l.Kids = append(l.Kids, st("type", ty))
	if rapid.IntRange(0, 2).Draw(g.t, "desc?") == 0 {
		l.Kids = append(l.Kids, st("description", "d-"+l.Arg))
	}
	if ty == "string" && rapid.IntRange(0, 3).Draw(g.t, "def?") == 0 {
		l.Kids = append(l.Kids, st("default", "dv"))
	} else if rapid.IntRange(0, 5).Draw(g.t, "mand?") == 0 {
		l.Kids = append(l.Kids, st("mandatory", "true"))
	}
	if cfg != parentCfg || rapid.IntRange(0, 5).Draw(g.t, "redundant-config") == 0 {
		l.Kids = append(l.Kids, st("config", fmt.Sprint(cfg)))
	}
	if rapid.IntRange(0, 5).Draw(g.t, "must?") == 0 {
		l.Kids = append(l.Kids, st("must", "x = 1"))
	}
	return l
}

// node draws a data node; cfg is the effective config of the parent.
func (g *c01Gen) node(depth int, parentCfg bool) *yst {
	n := g.node0(depth, parentCfg)
	if g.features && rapid.IntRange(0, 4).Draw(g.t, "if-feature?") == 0 {
		f := rapid.SampledFrom([]string{"fa", "fb"}).Draw(g.t, "feature")
		n.Kids = append([]*yst{st("if-feature", f)}, n.Kids...)
	}
	return n
}

func (g *c01Gen) node0(depth int, parentCfg bool) *yst {
	kinds := []string{"leaf", "leaf", "leaf", "leaf-list"}
	if depth < 3 {
		kinds = append(kinds, "container", "container", "list", "choice")
	}
	cfg := parentCfg
	if parentCfg && rapid.IntRange(0, 5).Draw(g.t, "cfgfalse?") == 0 {
		cfg = false
	}
	switch rapid.SampledFrom(kinds).Draw(g.t, "kind") {
	case "leaf":
		return g.leaf(cfg, parentCfg)
	case "leaf-list":
		l := st("leaf-list", g.name("ll"), st("type", "string"))
		if rapid.Bool().Draw(g.t, "minmax?") {
			l.Kids = append(l.Kids, st("min-elements", "1"), st("max-elements", "5"))
		} else if rapid.IntRange(0, 2).Draw(g.t, "ll-defaults?") == 0 {
			for i := 0; i < rapid.IntRange(2, 3).Draw(g.t, "ll-ndefaults"); i++ {
				l.Kids = append(l.Kids, st("default", fmt.Sprintf("d%d", i)))
			}
		}
		if cfg != parentCfg {
			l.Kids = append(l.Kids, st("config", fmt.Sprint(cfg)))
		}
		return l
	case "container":
		c := st("container", g.name("c"))
		if rapid.IntRange(0, 3).Draw(g.t, "presence?") == 0 {
			c.Kids = append(c.Kids, st("presence", "p"))
		}
		if rapid.IntRange(0, 2).Draw(g.t, "desc?") == 0 {
			c.Kids = append(c.Kids, st("description", "d-"+c.Arg))
		}
		if cfg != parentCfg || rapid.IntRange(0, 6).Draw(g.t, "redundant-config") == 0 {
			c.Kids = append(c.Kids, st("config", fmt.Sprint(cfg)))
		}
		n := rapid.IntRange(1, 4).Draw(g.t, "nkids")
		for i := 0; i < n; i++ {
			c.Kids = append(c.Kids, g.node(depth+1, cfg))
		}
		if depth < 2 && rapid.IntRange(0, 5).Draw(g.t, "action?") == 0 {
			c.Kids = append(c.Kids, g.rpc("action", depth+1))
		}
		if depth < 2 && rapid.IntRange(0, 7).Draw(g.t, "notif-in?") == 0 {
			nt := st("notification", g.name("nt"))
			nt.Kids = append(nt.Kids, g.node(3, true))
			c.Kids = append(c.Kids, nt)
		}
		return c
	case "list":
		l := st("list", g.name("l"))
		k := g.name("k")
		l.Kids = append(l.Kids, st("key", k))
		if cfg != parentCfg {
			l.Kids = append(l.Kids, st("config", fmt.Sprint(cfg)))
		}
		l.Kids = append(l.Kids, st("leaf", k, st("type", "string")))
		n := rapid.IntRange(0, 3).Draw(g.t, "nkids")
		for i := 0; i < n; i++ {
			l.Kids = append(l.Kids, g.node(depth+1, cfg))
		}
		return l
	default:
		ch := st("choice", g.name("ch"))
		nc := rapid.IntRange(1, 3).Draw(g.t, "ncases")
		for i := 0; i < nc; i++ {
			cs := st("case", g.name("cs"))
			n := rapid.IntRange(1, 2).Draw(g.t, "ncasekids")
			for j := 0; j < n; j++ {
				k := g.node(depth+2, cfg)
				for k.Kw == "choice" {
					k = g.leaf(cfg, cfg)
				}
				cs.Kids = append(cs.Kids, k)
			}
			ch.Kids = append(ch.Kids, cs)
		}
		return ch
	}
}

func (g *c01Gen) rpc(kw string, depth int) *yst {
	r := st(kw, g.name("op"))
	in := st("input", "")
	n := rapid.IntRange(1, 3).Draw(g.t, "nin")
	for i := 0; i < n; i++ {
		in.Kids = append(in.Kids, g.node(depth+1, true))
	}
	r.Kids = append(r.Kids, in)
	if rapid.Bool().Draw(g.t, "output?") {
		out := st("output", "")
		out.Kids = append(out.Kids, g.node(depth+1, true))
		r.Kids = append(r.Kids, out)
	}
	return r
}

// renameAll gives every data node of a copied subtree a fresh name (names must be unique per parent only, but keeping
// them distinct makes diffs readable); key arguments follow.
func (g *c01Gen) renameAll(s *yst, suffix string) {
	ren := map[string]string{}
	var walk func(x *yst)
	walk = func(x *yst) {
		switch x.Kw {
		case "container", "list", "leaf", "leaf-list", "choice", "case", "anyxml":
			ren[x.Arg] = x.Arg + suffix
			x.Arg += suffix
		}
		for _, k := range x.Kids {
			walk(k)
		}
	}
	walk(s)
	var fix func(x *yst)
	fix = func(x *yst) {
		if x.Kw == "key" {
			if n, ok := ren[x.Arg]; ok {
				x.Arg = n
			}
		}
		for _, k := range x.Kids {
			fix(k)
		}
	}
	fix(s)
}

// ---- refactorings ---------------------------------------------------------------------------------

type c01Case struct {
	Inline string            `json:"inline"` // the module written without any factoring
	Files  map[string]string `json:"files"`  // the factored module set; "main.yang" is the entry
	Steps  []string          `json:"steps"`  // refactorings applied (classification / signature)
	Tree   *yst              `json:"tree"`   // the inline module as statements (for the model expectations)
	On     []string          `json:"on"`     // enabled features (of fa, fb)
}

type refactorer struct {
	t      *rapid.T
	mod    *yst   // main module statement
	subs   []*yst // submodules
	imps   []*yst // imported modules
	gcount int
	icount int
	steps  []string
}

// containers returns statements that hold data definitions, with their absolute schema path ("" when not addressable)
type holder struct {
	s     *yst
	path  string // schema path for augment targets; "" = not a legal / supported augment target
	inGrp bool
	anc   []*yst // ancestors (scopes where a grouping may be placed)
}

func (r *refactorer) holders() []holder {
	var out []holder
	var walk func(s *yst, path string, anc []*yst, inGrp bool)
	walk = func(s *yst, path string, anc []*yst, inGrp bool) {
		switch s.Kw {
		case "module", "container", "list", "case", "grouping", "notification", "choice", "input", "output", "augment":
			h := holder{s: s, anc: append([]*yst{}, anc...), inGrp: inGrp}
			if !inGrp && path != "" && s.Kw != "module" && s.Kw != "grouping" && s.Kw != "input" && s.Kw != "output" && s.Kw != "augment" {
				h.path = path
			}
			out = append(out, h)
		}
		for _, k := range s.Kids {
			switch k.Kw {
			case "container", "list", "choice", "case", "notification":
				p := path + "/" + k.Arg
				if path == "" && s.Kw != "module" {
					p = ""
				}
				if p != "" && s.Kw == "choice" && k.Kw != "case" {
					p += "/" + k.Arg // shorthand case: the implicit case carries the child's name
				}
				if k.Kw == "notification" && s.Kw != "module" {
					p = "" // the pinned Find does not walk into nested notifications
				}
				walk(k, p, append(anc, s), inGrp)
			case "grouping":
				walk(k, "", append(anc, s), true)
			case "rpc", "action":
				for _, io := range k.Kids {
					if io.Kw == "input" || io.Kw == "output" {
						walk(io, "", append(append(anc, s), k), inGrp)
					}
				}
			case "augment":
				if s.Kw == "module" || s.Kw == "submodule" {
					walk(k, "", append(anc, s), inGrp)
				}
			case "uses":
				// what the augments of a uses add can be factored like anything else
				for _, a := range k.Kids {
					if a.Kw == "augment" {
						walk(a, "", append(append(anc, s), k), inGrp)
					}
				}
			}
		}
	}
	walk(r.mod, "", nil, false)
	for _, sub := range r.subs {
		for _, k := range sub.Kids {
			if k.Kw == "augment" {
				walk(k, "", []*yst{r.mod}, false)
			}
		}
	}
	return out
}

func dataRun(s *yst) (first, last int) {
	first, last = -1, -1
	for i, k := range s.Kids {
		if isDataKw(k.Kw) && !(s.Kw == "choice") {
			if first < 0 {
				first = i
			}
			last = i
		}
	}
	return
}

// keyLeaves of a list must stay inside the list body (a key leaf may come from a grouping in YANG, the pinned
// library resolves keys after uses expansion too, so this is only to keep the run choice simple)
func isKeyLeaf(parent *yst, k *yst) bool {
	if parent.Kw != "list" || k.Kw != "leaf" {
		return false
	}
	for _, x := range parent.Kids {
		if x.Kw == "key" && x.Arg == k.Arg {
			return true
		}
	}
	return false
}

// extractGrouping moves a run of consecutive data children of a holder into a new grouping and leaves a uses.
func (r *refactorer) extractGrouping() bool {
	hs := r.holders()
	var cands []holder
	for _, h := range hs {
		if h.s.Kw == "choice" {
			continue
		}
		if f, _ := dataRun(h.s); f >= 0 {
			cands = append(cands, h)
		}
	}
	if len(cands) == 0 {
		return false
	}
	h := cands[rapid.IntRange(0, len(cands)-1).Draw(r.t, "holder")]
	first, last := dataRun(h.s)
	a := rapid.IntRange(first, last).Draw(r.t, "run-start")
	b := rapid.IntRange(a, last).Draw(r.t, "run-end")
	// the run must consist of data definitions only
	for i := a; i <= b; i++ {
		if !isDataKw(h.s.Kids[i].Kw) {
			b = i - 1
			break
		}
	}
	if b < a {
		return false
	}
	r.gcount++
	gname := fmt.Sprintf("g%d", r.gcount)
	g := st("grouping", gname)
	g.Kids = append(g.Kids, h.s.Kids[a:b+1]...)
	u := st("uses", gname)
	{
		rest := append([]*yst{}, h.s.Kids[b+1:]...)
		h.s.Kids = append(append(h.s.Kids[:a:a], u), rest...)
	}
	usesArg := gname
	// where the grouping lives
	scopes := []string{"module", "module", "sibling"}
	if len(h.anc) > 1 {
		scopes = append(scopes, "ancestor")
	}
	if !h.inGrp {
		scopes = append(scopes, "submodule", "import")
	} else {
		scopes = append(scopes, "import") // a grouping of main built from a grouping of the imported module
	}
	scope := rapid.SampledFrom(scopes).Draw(r.t, "scope")
	if usesLocalGrouping(g, r.mod) {
		scope = "sibling" // the groupings it uses are only guaranteed to be in scope right here
	}
	switch scope {
	case "module":
		r.mod.Kids = append(r.mod.Kids, g)
	case "sibling":
		// a grouping defined in the same statement that uses it (any position); a case cannot hold groupings, its
		// nearest enclosing container, list, grouping or module can
		at := h.s
		for i := len(h.anc) - 1; i >= 0 && (at.Kw == "case" || at.Kw == "choice" || at.Kw == "augment" || at.Kw == "uses" || at.Kw == "rpc" || at.Kw == "action"); i-- {
			at = h.anc[i]
		}
		at.Kids = append(at.Kids, g)
	case "ancestor":
		anc := h.anc[rapid.IntRange(1, len(h.anc)-1).Draw(r.t, "anc")]
		if anc.Kw == "choice" || anc.Kw == "case" || anc.Kw == "augment" || anc.Kw == "uses" || anc.Kw == "rpc" || anc.Kw == "action" {
			r.mod.Kids = append(r.mod.Kids, g)
			scope = "module"
		} else {
			anc.Kids = append(anc.Kids, g)
		}
	case "submodule":
		if len(r.subs) == 0 {
			r.subs = append(r.subs, st("submodule", "sub1", st("belongs-to", "main", st("prefix", "m"))))
			r.addHeader("include", "sub1")
		}
		r.subs[0].Kids = append(r.subs[0].Kids, g)
	case "import":
		if len(r.imps) == 0 {
			r.imps = append(r.imps, st("module", "imp1", st("namespace", "urn:imp1"), st("prefix", "i1"), st("typedef", "tdef", st("type", "int32"))))
			r.addHeader("import", "imp1", st("prefix", "i1"))
		}
		r.imps[0].Kids = append(r.imps[0].Kids, g)
		usesArg = "i1:" + gname
	}
	// a grouping in another module cannot see main's typedefs or groupings: keep it self-contained
	if scope == "import" && (usesForeign(g) || usesOtherGroupings(g)) {
		// undo: put it at module level instead
		r.imps[0].Kids = r.imps[0].Kids[:len(r.imps[0].Kids)-1]
		r.mod.Kids = append(r.mod.Kids, g)
		usesArg = gname
		scope = "module"
	}
	if scope == "import" {
		// the imported module numbers its groupings itself: its names coincide with names of main's groupings,
		// which are different groupings
		r.icount++
		g.Arg = fmt.Sprintf("g%d", r.icount)
		usesArg = "i1:" + g.Arg
		r.steps = append(r.steps, "same-name-other-module")
		if !mentionsPrefix(g, "i1:") && rapid.IntRange(0, 2).Draw(r.t, "via-third-module") == 0 {
			// the imported module takes the content from a third module, which it knows under the prefix that is main's
			// own: prefixes are per file
			var imp2 *yst
			for _, m := range r.imps {
				if m.Arg == "imp2" {
					imp2 = m
				}
			}
			if imp2 == nil {
				imp2 = st("module", "imp2", st("namespace", "urn:imp2"), st("prefix", "i2"), st("typedef", "tdef", st("type", "int32")))
				r.imps = append(r.imps, imp2)
				imp1 := r.imps[0]
				rest := append([]*yst{}, imp1.Kids[2:]...)
				imp1.Kids = append(append(imp1.Kids[:2:2], st("import", "imp2", st("prefix", "m"))), rest...)
			}
			imp2.Kids = append(imp2.Kids, st("grouping", g.Arg, g.Kids...))
			g.Kids = []*yst{st("uses", "m:"+g.Arg)}
			r.steps = append(r.steps, "grouping-of-third-module-under-main's-prefix")
		}
	}
	u.Arg = usesArg
	if f := commonFeature(g.Kids); f != "" && rapid.Bool().Draw(r.t, "hoist-feature") {
		stripFeature(g.Kids)
		u.Kids = append(u.Kids, st("if-feature", f))
		r.steps = append(r.steps, "uses-if-feature")
	}
	r.steps = append(r.steps, "grouping-"+scope)
	if h.inGrp {
		r.steps = append(r.steps, "nested-uses")
	}
	return true
}

// usesForeign: does g mention something only main defines (its features)?
func usesForeign(g *yst) bool {
	for _, k := range g.Kids {
		if k.Kw == "if-feature" || usesForeign(k) {
			return true
		}
	}
	return false
}

// commonFeature: the if-feature every statement of the run states first, or "".
func commonFeature(run []*yst) string {
	f := ""
	for i, x := range run {
		if len(x.Kids) == 0 || x.Kids[0].Kw != "if-feature" {
			return ""
		}
		if i > 0 && x.Kids[0].Arg != f {
			return ""
		}
		f = x.Kids[0].Arg
	}
	return f
}

func stripFeature(run []*yst) {
	for _, x := range run {
		x.Kids = x.Kids[1:]
	}
}

func mentionsPrefix(x *yst, p string) bool {
	if strings.HasPrefix(x.Arg, p) {
		return true
	}
	for _, k := range x.Kids {
		if mentionsPrefix(k, p) {
			return true
		}
	}
	return false
}

// usesLocalGrouping: does g use (unprefixed) a grouping that is not defined at module level?
func usesLocalGrouping(g *yst, mod *yst) bool {
	top := map[string]bool{}
	for _, k := range mod.Kids {
		if k.Kw == "grouping" {
			top[k.Arg] = true
		}
	}
	found := false
	var walk func(x *yst)
	walk = func(x *yst) {
		if x.Kw == "uses" && !strings.Contains(x.Arg, ":") && !top[x.Arg] {
			found = true
		}
		for _, k := range x.Kids {
			walk(k)
		}
	}
	walk(g)
	return found
}

func usesOtherGroupings(g *yst) bool {
	found := false
	var walk func(x *yst)
	walk = func(x *yst) {
		if x.Kw == "uses" && !strings.Contains(x.Arg, ":") {
			found = true
		}
		if x.Kw == "type" && x.Arg == "tdef" {
			// the imported module defines the same typedef name, see addHeader
		}
		for _, k := range x.Kids {
			walk(k)
		}
	}
	for _, k := range g.Kids {
		walk(k)
	}
	return found
}

func (r *refactorer) addHeader(kw, arg string, kids ...*yst) {
	// after prefix
	for i, k := range r.mod.Kids {
		if k.Kw == "prefix" {
			rest := append([]*yst{}, r.mod.Kids[i+1:]...)
			r.mod.Kids = append(append(r.mod.Kids[:i+1:i+1], st(kw, arg, kids...)), rest...)
			return
		}
	}
}

// moduleAugment moves the trailing data children of an addressable holder into a module-level augment.
func (r *refactorer) moduleAugment() bool {
	var cands []holder
	for _, h := range r.holders() {
		if h.path == "" {
			continue
		}
		_, last := dataRun(h.s)
		if h.s.Kw == "choice" {
			// trailing cases
			last = -1
			for i, k := range h.s.Kids {
				if k.Kw == "case" || (isDataKw(k.Kw) && k.Kw != "uses") {
					last = i // cases, and shorthand cases (each node its own implicit case)
				}
			}
		}
		if last >= 0 && last == len(h.s.Kids)-1 {
			cands = append(cands, h)
		}
	}
	if len(cands) == 0 {
		return false
	}
	h := cands[rapid.IntRange(0, len(cands)-1).Draw(r.t, "aug-holder")]
	// how many trailing children move
	n := 0
	for i := len(h.s.Kids) - 1; i >= 0; i-- {
		k := h.s.Kids[i]
		if k.Kw == "uses" && (h.s.Kw == "list" || usesLocalGrouping(k, r.mod)) {
			break // may carry the key leaf / would leave the scope of its grouping
		}
		if (h.s.Kw == "choice" && (k.Kw == "case" || (isDataKw(k.Kw) && k.Kw != "uses")) && !usesLocalGrouping(k, r.mod)) || (h.s.Kw != "choice" && isDataKw(k.Kw) && !isKeyLeaf(h.s, k) && !usesLocalGrouping(k, r.mod)) {
			n++
		} else {
			break
		}
	}
	if n == 0 {
		return false
	}
	// keep at least one data child in lists / cases so that they stay well-formed without the augment
	take := rapid.IntRange(1, n).Draw(r.t, "aug-n")
	moved := append([]*yst{}, h.s.Kids[len(h.s.Kids)-take:]...)
	h.s.Kids = h.s.Kids[:len(h.s.Kids)-take]
	if h.s.Kw == "case" && len(h.s.Kids) == 0 || h.s.Kw == "choice" && countKw(h.s, "case")+countData(h.s) == 0 {
		h.s.Kids = append(h.s.Kids, moved...)
		return false
	}
	aug := st("augment", h.path)
	aug.Kids = moved
	allCases := true
	for _, k := range moved {
		if k.Kw != "case" {
			allCases = false
		}
	}
	// (a shorthand node's if-feature guards the node, not its implicit case, which the inline form writes out)
	if f := commonFeature(moved); f != "" && (h.s.Kw != "choice" || allCases) && rapid.Bool().Draw(r.t, "hoist-feature") {
		stripFeature(moved)
		aug.Kids = append([]*yst{st("if-feature", f)}, moved...)
		r.steps = append(r.steps, "augment-if-feature")
	}
	where := "main"
	// children taken now preceded those taken by an earlier augment of the same target: textual order must say so
	files := []*yst{r.mod}
	files = append(files, r.subs...)
	for fi, f := range files {
		for i, k := range f.Kids {
			if k.Kw == "augment" && (k.Arg == h.path || strings.HasPrefix(k.Arg, h.path+"/")) {
				rest := append([]*yst{}, f.Kids[i:]...)
				f.Kids = append(append(f.Kids[:i:i], aug), rest...)
				if fi > 0 {
					where = "submodule"
				}
				r.steps = append(r.steps, "augment-"+h.s.Kw+"-"+where, "augment-twice")
				return true
			}
		}
	}
	if len(r.subs) > 0 && rapid.IntRange(0, 2).Draw(r.t, "aug-in-sub") == 0 {
		r.subs[0].Kids = append(r.subs[0].Kids, aug)
		where = "submodule"
	} else {
		r.mod.Kids = append(r.mod.Kids, aug)
	}
	r.steps = append(r.steps, "augment-"+h.s.Kw+"-"+where)
	return true
}

func countKw(s *yst, kw string) int {
	n := 0
	for _, k := range s.Kids {
		if k.Kw == kw {
			n++
		}
	}
	return n
}

// usesAugment moves the trailing children of a container that is the last node of a grouping into uses { augment }.
func (r *refactorer) usesAugment() bool {
	// find a uses whose grouping (looked up by name at module level or anywhere in main) ends with a container/list
	groupings := map[string]*yst{}
	var collect func(x *yst)
	collect = func(x *yst) {
		for _, k := range x.Kids {
			if k.Kw == "grouping" {
				groupings[k.Arg] = k
			}
			collect(k)
		}
	}
	collect(r.mod)
	type cand struct {
		u, target *yst
		path      string
	}
	var cands []cand
	// a choice of the grouping (also one level down in a container) whose last case is written out: that case can be
	// added by the augment instead
	choices := func(k, g *yst) {
		var look func(x *yst, path string, depth int)
		look = func(x *yst, path string, depth int) {
			for _, gk := range x.Kids {
				if gk.Kw == "choice" && len(gk.Kids) >= 2 && gk.Kids[len(gk.Kids)-1].Kw == "case" && countKw(gk, "case")+countData(gk) >= 2 {
					cands = append(cands, cand{k, gk, path + gk.Arg})
				}
				if gk.Kw == "container" && depth == 0 {
					look(gk, path+gk.Arg+"/", 1)
				}
			}
		}
		look(g, "", 0)
	}
	var walk func(x *yst)
	walk = func(x *yst) {
		for _, k := range x.Kids {
			if k.Kw == "uses" && len(k.Kids) == 0 {
				if g, ok := groupings[k.Arg]; ok && r.usesCountAll(k.Arg) == 1 {
					for _, gk := range g.Kids {
						if gk.Kw == "container" {
							if _, last := dataRun(gk); last >= 0 && last == len(gk.Kids)-1 && countData(gk) >= 2 && !usesLocalGrouping(gk.Kids[last], r.mod) {
								cands = append(cands, cand{k, gk, gk.Arg})
							}
						}
					}
					choices(k, g)
				}
			}
			walk(k)
		}
	}
	walk(r.mod)
	if len(cands) == 0 {
		return false
	}
	c := cands[rapid.IntRange(0, len(cands)-1).Draw(r.t, "uaug")]
	moved := c.target.Kids[len(c.target.Kids)-1]
	if usesLocalGrouping(moved, r.mod) {
		return false
	}
	c.target.Kids = c.target.Kids[:len(c.target.Kids)-1]
	c.u.Kids = append(c.u.Kids, st("augment", c.path, moved))
	r.steps = append(r.steps, "uses-augment")
	if moved.Kw == "case" {
		r.steps = append(r.steps, "uses-augment-adds-case")
	}
	return true
}

func countData(s *yst) int {
	n := 0
	for _, k := range s.Kids {
		if isDataKw(k.Kw) {
			n++
		}
	}
	return n
}

func (r *refactorer) usesCountAll(name string) int {
	n := usesCount(r.mod, name)
	for _, s := range r.subs {
		n += usesCount(s, name)
	}
	return n
}

func usesCount(root *yst, name string) int {
	n := 0
	var walk func(x *yst)
	walk = func(x *yst) {
		if x.Kw == "uses" && x.Arg == name {
			n++
		}
		for _, k := range x.Kids {
			walk(k)
		}
	}
	walk(root)
	return n
}

// toSubmodule moves trailing top-level data definitions of the main module into a submodule.
func (r *refactorer) toSubmodule() bool {
	_, last := dataRun(r.mod)
	if last < 0 {
		return false
	}
	// only definitions after which no other data definition follows may move (submodule content is appended)
	k := r.mod.Kids[last]
	if k.Kw == "uses" {
		return false
	}
	if len(r.subs) == 0 {
		r.subs = append(r.subs, st("submodule", "sub1", st("belongs-to", "main", st("prefix", "m"))))
		r.addHeader("include", "sub1")
		_, last = dataRun(r.mod)
	}
	k = r.mod.Kids[last]
	r.mod.Kids = append(r.mod.Kids[:last:last], r.mod.Kids[last+1:]...)
	// it must come before anything already in the submodule to keep its position among the moved ones
	sub := r.subs[0]
	insertAt := 1
	for i, x := range sub.Kids {
		if isDataKw(x.Kw) {
			insertAt = i
			break
		}
		insertAt = i + 1
	}
	rest := append([]*yst{}, sub.Kids[insertAt:]...)
	sub.Kids = append(append(sub.Kids[:insertAt:insertAt], k), rest...)
	r.steps = append(r.steps, "submodule-def")
	return true
}

// shorthandCaseAny converts the first eligible case without drawing.
func (r *refactorer) shorthandCaseAny() bool {
	var done bool
	var walk func(x *yst)
	walk = func(x *yst) {
		for i, k := range x.Kids {
			if done {
				return
			}
			if x.Kw == "choice" && k.Kw == "case" && len(k.Kids) == 1 && isDataKw(k.Kids[0].Kw) && k.Kids[0].Kw != "uses" && k.Kids[0].Kw != "choice" && k.Arg == k.Kids[0].Arg {
				x.Kids[i] = k.Kids[0]
				done = true
				r.steps = append(r.steps, "shorthand-case")
				return
			}
			walk(k)
		}
	}
	walk(r.mod)
	return done
}

// shorthandCase writes a case with exactly one data child in shorthand form.
func (r *refactorer) shorthandCase() bool {
	var cands [][2]*yst
	var walk func(x *yst)
	walk = func(x *yst) {
		for _, k := range x.Kids {
			if x.Kw == "choice" && k.Kw == "case" && len(k.Kids) == 1 && isDataKw(k.Kids[0].Kw) && k.Kids[0].Kw != "uses" && k.Kids[0].Kw != "choice" {
				cands = append(cands, [2]*yst{x, k})
			}
			walk(k)
		}
	}
	walk(r.mod)
	if len(cands) == 0 {
		return false
	}
	c := cands[rapid.IntRange(0, len(cands)-1).Draw(r.t, "shorthand")]
	// shorthand only works when the case is named like its child: rename the child to the case name in BOTH versions
	// is not possible here (inline is fixed), so only cases already named like their child qualify
	if c[1].Arg != c[1].Kids[0].Arg {
		return false
	}
	for i, k := range c[0].Kids {
		if k == c[1] {
			c[0].Kids[i] = c[1].Kids[0]
		}
	}
	r.steps = append(r.steps, "shorthand-case")
	return true
}

// nameGroupingsLikeNodes renames some groupings of the module and its submodules to the name of a data node that stands
// next to one of their uses (groupings and data nodes have separate namespaces, RFC 7950 6.2.1).
func (r *refactorer) nameGroupingsLikeNodes() {
	files := append([]*yst{r.mod}, r.subs...)
	taken := map[string]bool{}
	var names func(s *yst)
	names = func(s *yst) {
		for _, k := range s.Kids {
			if k.Kw == "grouping" {
				taken[k.Arg] = true
			}
			names(k)
		}
	}
	for _, f := range files {
		names(f)
	}
	var rename func(s *yst, from, to string)
	rename = func(s *yst, from, to string) {
		for _, k := range s.Kids {
			if (k.Kw == "uses" || k.Kw == "grouping") && k.Arg == from {
				k.Arg = to
			}
			rename(k, from, to)
		}
	}
	var walk func(s *yst)
	walk = func(s *yst) {
		for _, k := range s.Kids {
			if k.Kw == "uses" && !strings.Contains(k.Arg, ":") && taken[k.Arg] {
				// a data node next to this uses
				for _, sib := range s.Kids {
					if (sib.Kw == "leaf" || sib.Kw == "container" || sib.Kw == "list" || sib.Kw == "leaf-list") && !taken[sib.Arg] &&
						rapid.IntRange(0, 3).Draw(r.t, "grouping-named-like-node") == 0 {
						old := k.Arg
						for _, f := range files {
							rename(f, old, sib.Arg)
						}
						delete(taken, old)
						taken[sib.Arg] = true
						r.steps = append(r.steps, "grouping-named-like-a-node")
						break
					}
				}
			}
			walk(k)
		}
	}
	for _, f := range files {
		walk(f)
	}
}

// aliasGroupings gives groupings that live in scopes of which neither encloses the other the same name (each is only
// visible in its own scope, so the names do not clash; every uses keeps meaning the grouping it meant).
func (r *refactorer) aliasGroupings() {
	type scoped struct{ g, scope *yst }
	var all []scoped
	var walk func(s *yst)
	walk = func(s *yst) {
		for _, k := range s.Kids {
			if k.Kw == "grouping" && s.Kw != "module" && s.Kw != "submodule" {
				all = append(all, scoped{k, s})
			}
			walk(k)
		}
	}
	walk(r.mod)
	var within func(outer, x *yst) bool
	within = func(outer, x *yst) bool {
		if outer == x {
			return true
		}
		for _, k := range outer.Kids {
			if within(k, x) {
				return true
			}
		}
		return false
	}
	var rename func(s *yst, from, to string)
	rename = func(s *yst, from, to string) {
		for _, k := range s.Kids {
			if k.Kw == "uses" && k.Arg == from {
				k.Arg = to
			}
			rename(k, from, to)
		}
	}
	for i := 1; i < len(all); i++ {
		a := all[i]
		for _, b := range all[:i] {
			if a.g.Arg == b.g.Arg || within(a.scope, b.scope) || within(b.scope, a.scope) {
				continue
			}
			// no grouping of b's name may be visible in, or defined below, a's scope
			clash := false
			for _, c := range all {
				if c.g != a.g && c.g.Arg == b.g.Arg && (within(a.scope, c.scope) || within(c.scope, a.scope)) {
					clash = true
				}
			}
			if clash || rapid.IntRange(0, 1).Draw(r.t, "alias-grouping") == 0 {
				continue
			}
			rename(a.scope, a.g.Arg, b.g.Arg)
			a.g.Arg = b.g.Arg
			r.steps = append(r.steps, "same-name-other-scope")
			break
		}
	}
}

// splitSubmodule moves the last data definitions of the submodule into a second submodule that the first one includes
// (their content is merged after the first one's own, so the order stays): definitions two includes away from the
// module still see its groupings, typedefs and features.
func (r *refactorer) splitSubmodule() {
	if len(r.subs) != 1 {
		return
	}
	sub := r.subs[0]
	var data []int
	for i, k := range sub.Kids {
		if isDataKw(k.Kw) {
			data = append(data, i)
		}
	}
	if len(data) < 2 || rapid.IntRange(0, 1).Draw(r.t, "second-level-submodule") == 0 {
		return
	}
	from := data[rapid.IntRange(1, len(data)-1).Draw(r.t, "split-at")]
	// only a tail of data definitions moves; augments and groupings stay where they are
	for _, k := range sub.Kids[from:] {
		if !isDataKw(k.Kw) {
			return
		}
	}
	sub2 := st("submodule", "sub2", st("belongs-to", "main", st("prefix", "m")))
	sub2.Kids = append(sub2.Kids, sub.Kids[from:]...)
	sub.Kids = sub.Kids[:from:from]
	rest := append([]*yst{}, sub.Kids[1:]...)
	sub.Kids = append(append(sub.Kids[:1:1], st("include", "sub2")), rest...)
	r.subs = append(r.subs, sub2)
	r.steps = append(r.steps, "submodule-of-submodule")
}

// respellAugments writes the steps of module-level augment paths with or without the module's own prefix, step by step.
func (r *refactorer) respellAugments() {
	files := append([]*yst{r.mod}, r.subs...)
	for _, f := range files {
		for _, k := range f.Kids {
			if k.Kw != "augment" || !strings.HasPrefix(k.Arg, "/") {
				continue
			}
			steps := strings.Split(k.Arg[1:], "/")
			changed := false
			for i, st := range steps {
				if !strings.Contains(st, ":") && rapid.IntRange(0, 2).Draw(r.t, "own-prefix") == 0 {
					steps[i] = "m:" + st
					changed = true
				}
			}
			if changed {
				k.Arg = "/" + strings.Join(steps, "/")
				r.steps = append(r.steps, "augment-path-own-prefix")
			}
		}
	}
}

func c01Header(name string) []*yst {
	return []*yst{st("namespace", "urn:"+name), st("prefix", "m"), st("feature", "fa"), st("feature", "fb"), st("typedef", "tdef", st("type", "int32"))}
}

func c01Gen0(t *rapid.T) c01Case {
	g := &c01Gen{t: t, features: rapid.IntRange(0, 2).Draw(t, "with-features") == 0}
	var on []string
	if g.features {
		on = rapid.SampledFrom([][]string{{}, {"fa"}, {"fb"}, {"fa", "fb"}}).Draw(t, "on")
	} else {
		on = []string{"fa", "fb"}
	}
	mod := st("module", "main", c01Header("main")...)
	n := rapid.IntRange(2, 5).Draw(t, "ntop")
	for i := 0; i < n; i++ {
		mod.Kids = append(mod.Kids, g.node(0, true))
	}
	// some cases named like their only child, for the shorthand form
	var fixCases func(x *yst)
	fixCases = func(x *yst) {
		for _, k := range x.Kids {
			if x.Kw == "choice" && k.Kw == "case" && len(k.Kids) == 1 && rapid.Bool().Draw(t, "case-like-child") {
				k.Arg = k.Kids[0].Arg
			}
			fixCases(k)
		}
	}
	fixCases(mod)
	// plant a twin of some container's content, changed only in ways a refine can express, so that one grouping can
	// serve both places
	var srcName, twinName string
	var mods []c01Mod
	if rapid.IntRange(0, 3).Draw(t, "plant") > 0 {
		var conts []*yst
		var walk func(x *yst)
		walk = func(x *yst) {
			for _, k := range x.Kids {
				if k.Kw == "container" {
					conts = append(conts, k)
				}
				walk(k)
			}
		}
		walk(mod)
		if len(conts) > 0 {
			src := conts[rapid.IntRange(0, len(conts)-1).Draw(t, "copy-src")]
			twin := st("container", g.name("twin"))
			if !statesConfigTrue(src) && rapid.Bool().Draw(t, "twin-config-false") {
				twin.Kids = append(twin.Kids, st("config", "false"))
			}
			for _, k := range src.Kids {
				if isDataKw(k.Kw) {
					twin.Kids = append(twin.Kids, k.clone())
				}
			}
			mods = g.drawMods(twin)
			for _, m := range mods {
				applyMod(twin, m)
			}
			mod.Kids = append(mod.Kids, twin)
			srcName, twinName = src.Arg, twin.Arg
		}
	}
	if rapid.IntRange(0, 2).Draw(t, "notif") == 0 {
		nt := st("notification", g.name("nt"))
		nt.Kids = append(nt.Kids, g.node(2, true), g.node(2, true))
		mod.Kids = append(mod.Kids, nt)
	}
	if rapid.IntRange(0, 2).Draw(t, "rpc") == 0 {
		mod.Kids = append(mod.Kids, g.rpc("rpc", 1))
	}
	var inl strings.Builder
	mod.render(&inl, "")
	r := &refactorer{t: t, mod: mod.clone()}
	if rapid.Bool().Draw(t, "all-shorthand") {
		// every case named like its only child is written in shorthand form, so that several of them can move into
		// one augment of the choice
		for i := 0; i < 12 && r.shorthandCaseAny(); i++ {
		}
	}
	if srcName != "" && rapid.IntRange(0, 3).Draw(t, "share-twin") > 0 {
		r.shareTwin(srcName, twinName, mods)
	}
	nsteps := rapid.IntRange(1, 7).Draw(t, "nsteps")
	for i := 0; i < nsteps; i++ {
		switch rapid.IntRange(0, 9).Draw(t, "step") {
		case 0, 1, 2, 3:
			r.extractGrouping()
		case 4, 5:
			r.moduleAugment()
		case 6:
			r.usesAugment()
		case 7:
			r.toSubmodule()
		case 8:
			r.shorthandCase()
		case 9:
			r.reuseGrouping()
		}
	}
	r.splitSubmodule()
	r.nameGroupingsLikeNodes()
	r.aliasGroupings()
	r.respellAugments()
	files := map[string]string{}
	var b strings.Builder
	r.mod.render(&b, "")
	files["main.yang"] = b.String()
	for _, s := range r.subs {
		if len(r.imps) > 0 && mentionsPrefix(s, "i1:") {
			rest := append([]*yst{}, s.Kids[1:]...)
			s.Kids = append(append(s.Kids[:1:1], st("import", "imp1", st("prefix", "i1"))), rest...)
		}
		var sb strings.Builder
		s.render(&sb, "")
		files[s.Arg+".yang"] = sb.String()
	}
	for _, s := range r.imps {
		var sb strings.Builder
		s.render(&sb, "")
		files[s.Arg+".yang"] = sb.String()
	}
	sort.Strings(r.steps)
	return c01Case{Inline: inl.String(), Files: files, Steps: uniqStrings(r.steps), Tree: mod, On: on}
}

type c01Mod struct {
	Path []string
	Kw   string
	Arg  string
}

func statesConfigTrue(x *yst) bool {
	for _, k := range x.Kids {
		if (k.Kw == "config" && k.Arg == "true") || statesConfigTrue(k) {
			return true
		}
	}
	return false
}

func hasKid(x *yst, kw string) bool { return countKw(x, kw) > 0 }

func kidArg(x *yst, kw string) string {
	for _, k := range x.Kids {
		if k.Kw == kw {
			return k.Arg
		}
	}
	return ""
}

// drawMods picks 0-3 changes to nodes beneath twin that a refine statement can express.
func (g *c01Gen) drawMods(twin *yst) []c01Mod {
	type target struct {
		n      *yst
		path   []string
		parent *yst
	}
	var ts []target
	var walk func(x *yst, path []string)
	walk = func(x *yst, path []string) {
		for _, k := range x.Kids {
			switch k.Kw {
			case "container", "list", "leaf", "leaf-list", "choice", "case":
				p := append(append([]string{}, path...), k.Arg)
				if x.Kw == "choice" && k.Kw != "case" {
					p = append(p, k.Arg)
				}
				ts = append(ts, target{k, p, x})
				walk(k, p)
			}
		}
	}
	walk(twin, nil)
	var out []c01Mod
	if len(ts) == 0 {
		return nil
	}
	used := map[string]bool{}
	n := rapid.IntRange(0, 3).Draw(g.t, "nmods")
	for i := 0; i < n; i++ {
		tg := ts[rapid.IntRange(0, len(ts)-1).Draw(g.t, "mod-target")]
		opts := []string{"description"}
		key := isKeyLeaf(tg.parent, tg.n)
		switch tg.n.Kw {
		case "leaf":
			if !key {
				opts = append(opts, "must")
				if !statesConfigTrue(tg.n) {
					opts = append(opts, "config")
				}
				if !hasKid(tg.n, "default") && !hasKid(tg.n, "mandatory") {
					opts = append(opts, "mandatory")
				}
				if kidArg(tg.n, "mandatory") == "true" {
					opts = append(opts, "mandatory-false", "mandatory-false")
				}
				if kidArg(tg.n, "type") == "string" && !hasKid(tg.n, "mandatory") {
					opts = append(opts, "default")
				}
			}
		case "leaf-list", "list":
			opts = append(opts, "must", "max-elements")
			if !hasKid(tg.n, "default") {
				opts = append(opts, "min-elements")
			} else {
				opts = append(opts, "default", "default") // (fewer values than the grouping states)
			}
			if !statesConfigTrue(tg.n) {
				opts = append(opts, "config")
			}
		case "container":
			opts = append(opts, "must")
			if !statesConfigTrue(tg.n) {
				opts = append(opts, "config")
			}
		}
		kw := rapid.SampledFrom(opts).Draw(g.t, "mod-kw")
		id := strings.Join(tg.path, "/") + "#" + kw
		if used[id] || used[strings.Join(tg.path, "/")+"#mandatory"] && kw == "default" || used[strings.Join(tg.path, "/")+"#default"] && kw == "mandatory" {
			continue
		}
		used[id] = true
		m := c01Mod{Path: tg.path, Kw: kw}
		switch kw {
		case "description":
			m.Arg = "refined-" + tg.n.Arg
		case "must":
			m.Arg = "y = 2"
		case "config":
			m.Arg = "false"
		case "mandatory":
			m.Arg = "true"
		case "mandatory-false":
			m.Kw, m.Arg = "mandatory", "false"
		case "default":
			m.Arg = "rv"
		case "min-elements":
			m.Arg = "2"
		case "max-elements":
			m.Arg = "4"
		}
		out = append(out, m)
	}
	return out
}

func findByPath(x *yst, path []string) *yst {
	cur := x
	for i := 0; i < len(path); i++ {
		var next *yst
		for _, k := range cur.Kids {
			switch k.Kw {
			case "container", "list", "leaf", "leaf-list", "choice", "case":
				if k.Arg == path[i] {
					next = k
				}
			}
		}
		if next == nil {
			return nil
		}
		if cur.Kw == "choice" && next.Kw != "case" {
			i++ // the implicit case of a shorthand
		}
		cur = next
	}
	return cur
}

func applyMod(twin *yst, m c01Mod) {
	n := findByPath(twin, m.Path)
	if n == nil {
		panic("harness: refine target not found " + strings.Join(m.Path, "/"))
	}
	if m.Kw == "default" && n.Kw == "leaf-list" {
		// the refined default stands in place of all the values the leaf-list states
		var kept []*yst
		for _, k := range n.Kids {
			if k.Kw != "default" {
				kept = append(kept, k)
			}
		}
		n.Kids = append(kept, st("default", m.Arg))
		return
	}
	if m.Kw != "must" {
		for _, k := range n.Kids {
			if k.Kw == m.Kw {
				k.Arg = m.Arg
				return
			}
		}
	}
	n.Kids = append(n.Kids, st(m.Kw, m.Arg))
}

// shareTwin writes the content of src once, as a grouping, and the twin as a second uses of it with refines.
func (r *refactorer) shareTwin(srcName, twinName string, mods []c01Mod) {
	var src, twin *yst
	var walk func(x *yst)
	walk = func(x *yst) {
		for _, k := range x.Kids {
			if k.Kw == "container" && k.Arg == srcName {
				src = k
			}
			if k.Kw == "container" && k.Arg == twinName {
				twin = k
			}
			walk(k)
		}
	}
	walk(r.mod)
	r.gcount++
	g := st("grouping", fmt.Sprintf("g%d", r.gcount))
	var keep []*yst
	for _, k := range src.Kids {
		if isDataKw(k.Kw) {
			g.Kids = append(g.Kids, k)
		} else {
			keep = append(keep, k)
		}
	}
	src.Kids = append(keep, st("uses", g.Arg))
	u := st("uses", g.Arg)
	byPath := map[string]*yst{}
	for _, m := range mods {
		p := strings.Join(m.Path, "/")
		rf := byPath[p]
		if rf == nil {
			rf = st("refine", p)
			byPath[p] = rf
			u.Kids = append(u.Kids, rf)
		}
		rf.Kids = append(rf.Kids, st(m.Kw, m.Arg))
	}
	var tkeep []*yst
	for _, k := range twin.Kids {
		if !isDataKw(k.Kw) {
			tkeep = append(tkeep, k)
		}
	}
	twin.Kids = append(tkeep, u)
	r.mod.Kids = append(r.mod.Kids, g)
	r.steps = append(r.steps, "grouping-reused")
	if len(mods) > 0 {
		r.steps = append(r.steps, "refine")
	}
	for _, m := range mods {
		r.steps = append(r.steps, "refine-"+m.Kw)
	}
}

// reuseGrouping: when a grouping's content also occurs verbatim elsewhere as a run, replace that run by a second uses.
func (r *refactorer) reuseGrouping() bool {
	var groupings []*yst
	for _, k := range r.mod.Kids {
		if k.Kw == "grouping" {
			groupings = append(groupings, k)
		}
	}
	if len(groupings) == 0 {
		return false
	}
	g := groupings[rapid.IntRange(0, len(groupings)-1).Draw(r.t, "reuse-g")]
	data := g.Kids
	if len(data) == 0 {
		return false
	}
	sig := func(xs []*yst) string {
		var b strings.Builder
		for _, x := range xs {
			x.render(&b, "")
		}
		return b.String()
	}
	want := sig(data)
	for _, h := range r.holders() {
		if h.s == g || h.s.Kw == "choice" {
			continue
		}
		for a := 0; a+len(data) <= len(h.s.Kids); a++ {
			if sig(h.s.Kids[a:a+len(data)]) == want {
				rest := append([]*yst{}, h.s.Kids[a+len(data):]...)
				h.s.Kids = append(append(h.s.Kids[:a:a], st("uses", g.Arg)), rest...)
				r.steps = append(r.steps, "grouping-reused")
				return true
			}
		}
	}
	return false
}

func c01Flat(files map[string]string, entry string, on []string) (map[string]string, *ydump.Dumper, error) {
	m, err := parser.LoadModuleFromStringWithOptions(memOpener(files), files[entry], parser.Options{Features: meta.FeaturesOn(on)})
	if err != nil {
		return nil, nil, err
	}
	d, dd := ydump.Module(m)
	f := ydump.Flatten(d)
	out := map[string]string{}
	for k, v := range f {
		if strings.Contains(k, "/IfFeatures") {
			continue // where an if-feature is stated is a matter of factoring; C11 decides what it does
		}
		if strings.HasPrefix(k, "/DataDefinitions") || strings.HasPrefix(k, "/Notifications") || strings.HasPrefix(k, "/Actions") {
			out[k] = v
		}
	}
	dropEmptyCases(out)
	return out, dd, nil
}

// dropEmptyCases removes, from a flattened dump, cases that hold no data definition (all their nodes are left out by
// if-feature) and the CaseIdents lists: whether such an empty case is kept is not observable through data, and the
// library keeps it for a node written directly in the choice but not for one that arrives through an augment.
func dropEmptyCases(flat map[string]string) {
	cases := map[string]bool{}
	for k := range flat {
		if i := strings.LastIndex(k, "/Cases/"); i >= 0 {
			rest := k[i+len("/Cases/"):]
			if j := strings.IndexByte(rest, '/'); j >= 0 {
				cases[k[:i+len("/Cases/")+j]] = true
			}
		}
	}
	for cs := range cases {
		has := false
		for k := range flat {
			if strings.HasPrefix(k, cs+"/DataDefinitions[") {
				has = true
				break
			}
		}
		if !has {
			for k := range flat {
				if strings.HasPrefix(k, cs+"/") {
					delete(flat, k)
				}
			}
		}
	}
	for k := range flat {
		if strings.Contains(lastSeg(k), "CaseIdents[") {
			delete(flat, k)
		}
	}
}

func c01Run(c c01Case, o *hx.Obs) {
	for _, s := range c.Steps {
		o.Class("step=%s", s)
	}
	nontrivial := false
	for _, s := range c.Steps {
		if s == "grouping-reused" || s == "refine" || s == "nested-uses" || s == "uses-augment" || strings.HasPrefix(s, "augment-") || s == "grouping-submodule" || s == "grouping-import" || s == "submodule-def" {
			nontrivial = true
		}
	}
	if nontrivial {
		o.NonTrivial()
	}
	sig := func(clause string) string {
		var ss []string
		for _, s := range c.Steps {
			if s != "refine" {
				ss = append(ss, s)
			}
		}
		return "expand|" + strings.Join(ss, "+") + "|" + clause
	}
	var want, got map[string]string
	var dd *ydump.Dumper
	var werr, gerr error
	if o.Guard("LoadModule(inline)", func() { want, _, werr = c01Flat(map[string]string{"main.yang": c.Inline}, "main.yang", c.On) }) {
		return
	}
	if werr != nil {
		o.Failf("harness|inline-rejected", "the inline module does not load: %v\n%s", werr, c.Inline)
		return
	}
	o.Class("features-on=%d", len(c.On))
	if c.Tree != nil {
		exp := c01Expect(c.Tree, c.On)
		dropEmptyCases(exp)
		for _, k := range sortedKeys(exp) {
			g, ok := want[k]
			if !ok {
				o.Failf("model|missing-"+lastSeg(k), "the inline module compiles without %s (expected %q)\n%s", k, exp[k], c.Inline)
				return
			}
			if g != exp[k] {
				o.Failf("model|"+lastSeg(k), "inline module: %s is %q, RFC 7950 says %q\n%s", k, g, exp[k], c.Inline)
				return
			}
		}
		for k, v := range want {
			if strings.HasSuffix(k, "/_kind") && nodeKinds[v] {
				if _, ok := exp[k]; !ok {
					o.Failf("model|extra-node", "the inline module compiles with a node nobody wrote: %s (%s)\n%s", k, v, c.Inline)
					return
				}
			}
		}
	}
	if o.Guard("LoadModule(factored)", func() { got, dd, gerr = c01Flat(c.Files, "main.yang", c.On) }) {
		return
	}
	if gerr != nil {
		o.Failf(sig("rejected"), "the factored module set does not load: %v\n%s", gerr, c01Show(c))
		return
	}
	for _, p := range dd.Panics {
		o.Failf(sig("walk-panic"), "accessor panic on the factored module: %s", p)
		return
	}
	for _, a := range dd.Aliased {
		// a compiled Type is immutable and may be shared; schema nodes (and what hangs off them) may not
		if strings.Contains(a, ".Type") || strings.Contains(a, ".IfFeatures") {
			continue
		}
		o.Failf(sig("alias"), "a schema node is shared between two places of the compiled tree (copies must be independent): %s\n%s", a, c01Show(c))
		return
	}
	if len(dd.Parents) > 0 {
		o.Failf(sig("parent"), "Parent() of a node is not the node it is a child of: %s\n%s", dd.Parents[0], c01Show(c))
		return
	}
	var keys []string
	seen := map[string]bool{}
	for k := range want {
		seen[k] = true
		keys = append(keys, k)
	}
	for k := range got {
		if !seen[k] {
			keys = append(keys, k)
		}
	}
	sort.Strings(keys)
	for _, k := range keys {
		w, wok := want[k]
		g, gok := got[k]
		prop := lastSeg(k)
		switch {
		case wok && !gok:
			o.Failf(sig("missing-"+prop), "%s = %q in the inline module is missing from the factored one\n%s", k, w, c01Show(c))
			return
		case !wok && gok:
			o.Failf(sig("extra-"+prop), "%s = %q appears only in the factored module\n%s", k, g, c01Show(c))
			return
		case w != g:
			o.Failf(sig(prop), "%s: inline %q, factored %q\n%s", k, w, g, c01Show(c))
			return
		}
	}
}

var nodeKinds = map[string]bool{"Container": true, "List": true, "Leaf": true, "LeafList": true, "Choice": true, "ChoiceCase": true, "Rpc": true, "Notification": true, "RpcInput": true, "RpcOutput": true, "Any": true}

// c01Expect derives, from the inline statements alone, what RFC 7950 says the compiled data tree holds.
func c01Expect(mod *yst, on []string) map[string]string {
	exp := map[string]string{}
	enabled := func(x *yst) bool {
		for _, k := range x.Kids {
			if k.Kw == "if-feature" && !containsStr(on, k.Arg) {
				return false
			}
		}
		return true
	}
	kinds := map[string]string{"container": "Container", "list": "List", "leaf": "Leaf", "leaf-list": "LeafList", "choice": "Choice"}
	var data func(parent *yst, key string, cfg bool, cfgKnown bool)
	var node func(x *yst, key string, pos int, cfg bool, cfgKnown bool)
	node = func(x *yst, key string, pos int, cfg bool, cfgKnown bool) {
		exp[key+"/_kind"] = kinds[x.Kw]
		exp[key+"/Ident"] = x.Arg
		exp[key+"/_pos"] = fmt.Sprint(pos)
		exp[key+"/Description"] = kidArg(x, "description")
		if c := kidArg(x, "config"); c != "" {
			cfg = c == "true"
		}
		if cfgKnown {
			exp[key+"/Config"] = fmt.Sprint(cfg)
		}
		nm := 0
		for _, k := range x.Kids {
			if k.Kw == "must" {
				exp[fmt.Sprintf("%s/Musts[%d]/Expression", key, nm)] = k.Arg
				nm++
			}
		}
		switch x.Kw {
		case "leaf":
			exp[key+"/Mandatory"] = fmt.Sprint(kidArg(x, "mandatory") == "true")
			exp[key+"/HasDefault"] = fmt.Sprint(hasKid(x, "default"))
			if hasKid(x, "default") {
				exp[key+"/Default"] = kidArg(x, "default")
			}
			f := kidArg(x, "type")
			if f == "tdef" {
				f = "int32"
			}
			exp[key+"/Type/Format"] = f
		case "leaf-list", "list":
			if x.Kw == "leaf-list" {
				exp[key+"/Type/Format"] = "string-list"
			} else {
				exp[key+"/KeyMeta"] = "[" + kidArg(x, "key") + "]"
			}
			min, max := kidArg(x, "min-elements"), kidArg(x, "max-elements")
			if min == "" {
				min = "0"
			}
			exp[key+"/MinElements"] = min
			if max != "" {
				exp[key+"/MaxElements"] = max
				exp[key+"/Unbounded"] = "false"
			} else {
				exp[key+"/Unbounded"] = "true"
			}
		case "container":
			if hasKid(x, "presence") {
				exp[key+"/Presence"] = kidArg(x, "presence")
			}
		case "choice":
			// CaseIdents() is documented by its code as sorted
			var names []string
			for _, k := range x.Kids {
				if enabled(k) && (k.Kw == "case" || isDataKw(k.Kw)) {
					names = append(names, k.Arg)
				}
			}
			sort.Strings(names)
			for i, n := range names {
				exp[fmt.Sprintf("%s/CaseIdents[%d]", key, i)] = n
			}
			i := 0
			for _, k := range x.Kids {
				if !enabled(k) {
					continue
				}
				switch k.Kw {
				case "case":
					ck := key + "/Cases/" + k.Arg
					exp[ck+"/_kind"] = "ChoiceCase"
					exp[ck+"/Ident"] = k.Arg
					data(k, ck, cfg, cfgKnown)
					i++
				case "container", "list", "leaf", "leaf-list":
					ck := key + "/Cases/" + k.Arg
					exp[ck+"/_kind"] = "ChoiceCase"
					exp[ck+"/Ident"] = k.Arg
					node(k, ck+"/DataDefinitions["+k.Arg+"]", 0, cfg, cfgKnown)
					i++
				}
			}
			return
		}
		data(x, key, cfg, cfgKnown)
	}
	data = func(parent *yst, key string, cfg bool, cfgKnown bool) {
		pos := 0
		for _, k := range parent.Kids {
			if !enabled(k) {
				continue
			}
			switch k.Kw {
			case "container", "list", "leaf", "leaf-list", "choice":
				node(k, key+"/DataDefinitions["+k.Arg+"]", pos, cfg, cfgKnown)
				pos++
			case "notification":
				nk := key + "/Notifications/" + k.Arg
				exp[nk+"/_kind"] = "Notification"
				exp[nk+"/Ident"] = k.Arg
				data(k, nk, true, false)
			case "rpc", "action":
				ak := key + "/Actions/" + k.Arg
				exp[ak+"/_kind"] = "Rpc"
				exp[ak+"/Ident"] = k.Arg
				for _, io := range k.Kids {
					if io.Kw == "input" {
						exp[ak+"/Input/_kind"] = "RpcInput"
						data(io, ak+"/Input", true, false)
					}
					if io.Kw == "output" {
						exp[ak+"/Output/_kind"] = "RpcOutput"
						data(io, ak+"/Output", true, false)
					}
				}
			}
		}
	}
	data(mod, "", true, true)
	return exp
}

func containsStr(xs []string, s string) bool {
	for _, x := range xs {
		if x == s {
			return true
		}
	}
	return false
}

func c01Show(c c01Case) string {
	var b strings.Builder
	for _, n := range sortedKeys(c.Files) {
		b.WriteString("--- " + n + "\n" + c.Files[n])
	}
	b.WriteString("--- inline\n" + c.Inline)
	s := b.String()
	if len(s) > 6000 {
		s = s[:6000] + "…"
	}
	return s
}

var c01Expand = hx.Register(&hx.Check[c01Case]{
	Name: "c01-refactoring",
	Rule: "a generated module (containers, lists, leaves, leaf-lists, choices and cases, notifications, stated and inherited config, planted duplicate subtrees) written inline, and the same module after 1-7 meaning-preserving refactorings: runs of children extracted into groupings at module / sibling / ancestor / submodule / imported-module scope, a grouping reused for an identical run, nested uses, trailing children moved into uses-augment and into module-level augments (also from a submodule, also into choices, cases, lists and notifications), top-level definitions moved into a submodule, shorthand cases; the public-accessor dump of the data tree must be identical for both, no schema object may be shared between two places, and every child's Parent() is its container; non-trivial = reuse, nesting, augment or cross-file definition involved",
	Gen:  c01Gen0,
	Run:  c01Run,
})

func TestC01(t *testing.T) {
	s := hx.Begin(t, "C01")
	defer s.End()
	hx.Run(s, c01Expand, s.N(2500, 25000))
}
