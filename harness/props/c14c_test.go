package props

import (
	"fmt"
	"strings"

	"verif/harness/hx"
)

// C14: every statement of the language written once, twice with the same argument and twice with different arguments
// inside every kind of body. Where a statement may appear only once (or not at all) the loader has to say so; where it
// may repeat it has to cope. The grammar decides most of these, the builder and the compiler the rest.

// %s is where the statements go
var c14Contexts = []struct{ Name, Text string }{
	{"module", `module mx { namespace "urn:mx"; prefix mx; %s leaf tail { type string; } }`},
	{"submodule", `submodule mx { belongs-to my { prefix my; } %s leaf tail { type string; } }`},
	{"import", `module mx { namespace "urn:mx"; prefix mx; import other { prefix o; %s } leaf tail { type string; } }`},
	{"include", `module mx { namespace "urn:mx"; prefix mx; include sub { %s } leaf tail { type string; } }`},
	{"revision", `module mx { namespace "urn:mx"; prefix mx; revision 2020-01-01 { %s } leaf tail { type string; } }`},
	{"container", `module mx { namespace "urn:mx"; prefix mx; container c { %s leaf in { type string; } } }`},
	{"list", `module mx { namespace "urn:mx"; prefix mx; list l { key k; %s leaf k { type string; } leaf in { type string; } } }`},
	{"leaf", `module mx { namespace "urn:mx"; prefix mx; leaf f { type string; %s } }`},
	{"leaf-no-type", `module mx { namespace "urn:mx"; prefix mx; leaf f { %s } }`},
	{"leaf-list", `module mx { namespace "urn:mx"; prefix mx; leaf-list f { type string; %s } }`},
	{"choice", `module mx { namespace "urn:mx"; prefix mx; choice ch { %s case a { leaf a { type string; } } case b { leaf b1 { type string; } } } }`},
	{"case", `module mx { namespace "urn:mx"; prefix mx; choice ch { case a { %s leaf a { type string; } } } }`},
	{"anydata", `module mx { namespace "urn:mx"; prefix mx; anydata ad { %s } }`},
	{"typedef", `module mx { namespace "urn:mx"; prefix mx; typedef t { type string; %s } leaf f { type t; } }`},
	{"type-string", `module mx { namespace "urn:mx"; prefix mx; leaf f { type string { %s } } }`},
	{"type-int", `module mx { namespace "urn:mx"; prefix mx; leaf f { type int32 { %s } } }`},
	{"type-decimal64", `module mx { namespace "urn:mx"; prefix mx; leaf f { type decimal64 { %s } } }`},
	{"type-enumeration", `module mx { namespace "urn:mx"; prefix mx; leaf f { type enumeration { enum one; %s } } }`},
	{"type-bits", `module mx { namespace "urn:mx"; prefix mx; leaf f { type bits { bit one; %s } } }`},
	{"type-union", `module mx { namespace "urn:mx"; prefix mx; leaf f { type union { type int8; %s } } }`},
	{"type-leafref", `module mx { namespace "urn:mx"; prefix mx; leaf tgt { type string; } leaf f { type leafref { %s } } }`},
	{"type-identityref", `module mx { namespace "urn:mx"; prefix mx; identity idb; leaf f { type identityref { %s } } }`},
	{"enum", `module mx { namespace "urn:mx"; prefix mx; leaf f { type enumeration { enum one { %s } } } }`},
	{"bit", `module mx { namespace "urn:mx"; prefix mx; leaf f { type bits { bit one { %s } } } }`},
	{"pattern", `module mx { namespace "urn:mx"; prefix mx; leaf f { type string { pattern "a*" { %s } } } }`},
	{"range", `module mx { namespace "urn:mx"; prefix mx; leaf f { type int32 { range "1..5" { %s } } } }`},
	{"must", `module mx { namespace "urn:mx"; prefix mx; leaf f { type string; must "x = 1" { %s } } }`},
	{"grouping", `module mx { namespace "urn:mx"; prefix mx; grouping g { %s leaf gx { type string; } } uses g; }`},
	{"uses", `module mx { namespace "urn:mx"; prefix mx; grouping g { leaf gx { type string; } container gc { leaf in { type string; } } } uses g { %s } }`},
	{"refine", `module mx { namespace "urn:mx"; prefix mx; grouping g { leaf gx { type string; } leaf-list gl { type string; } container gc { leaf in { type string; } } } uses g { refine gx { %s } } }`},
	{"refine-container", `module mx { namespace "urn:mx"; prefix mx; grouping g { container gc { leaf in { type string; } } } uses g { refine gc { %s } } }`},
	{"augment", `module mx { namespace "urn:mx"; prefix mx; container c { leaf in { type string; } } augment "/c" { %s leaf more { type string; } } }`},
	{"rpc", `module mx { namespace "urn:mx"; prefix mx; rpc r { %s input { leaf i { type string; } } } }`},
	{"input", `module mx { namespace "urn:mx"; prefix mx; rpc r { input { %s leaf i { type string; } } } }`},
	{"output", `module mx { namespace "urn:mx"; prefix mx; rpc r { output { %s leaf o { type string; } } } }`},
	{"action", `module mx { namespace "urn:mx"; prefix mx; container c { action a { %s input { leaf i { type string; } } } } }`},
	{"notification", `module mx { namespace "urn:mx"; prefix mx; notification n { %s leaf x { type string; } } }`},
	{"identity", `module mx { namespace "urn:mx"; prefix mx; identity idb; identity idc { %s } }`},
	{"feature", `module mx { namespace "urn:mx"; prefix mx; feature fa; feature fb { %s } }`},
	{"extension", `module mx { namespace "urn:mx"; prefix mx; extension ex { %s } }`},
	{"argument", `module mx { namespace "urn:mx"; prefix mx; extension ex { argument a { %s } } }`},
	{"deviation", `module mx { namespace "urn:mx"; prefix mx; leaf f { type string; } deviation "/f" { %s } }`},
	{"deviate-add", `module mx { namespace "urn:mx"; prefix mx; leaf f { type string; } leaf-list fl { type string; } deviation "/f" { deviate add { %s } } }`},
	{"deviate-replace", `module mx { namespace "urn:mx"; prefix mx; leaf f { type string; units u; default d; } deviation "/f" { deviate replace { %s } } }`},
	{"deviate-delete", `module mx { namespace "urn:mx"; prefix mx; leaf f { type string; units u; default d; must "m"; } deviation "/f" { deviate delete { %s } } }`},
	{"when", `module mx { namespace "urn:mx"; prefix mx; leaf f { type string; when "x = 1" { %s } } }`},
}

// a statement and a second form of it with another argument
var c14Statements = []struct{ Name, A, B string }{
	{"yang-version", `yang-version 1.1;`, `yang-version 1;`},
	{"namespace", `namespace "urn:a";`, `namespace "urn:b";`},
	{"prefix", `prefix pa;`, `prefix pb;`},
	{"belongs-to", `belongs-to pa { prefix pa; }`, `belongs-to pb { prefix pb; }`},
	{"organization", `organization "o";`, `organization "p";`},
	{"contact", `contact "c";`, `contact "d";`},
	{"description", `description "d";`, `description "e";`},
	{"reference", `reference "r";`, `reference "s";`},
	{"revision", `revision 2019-01-01;`, `revision 2018-01-01 { description "x"; }`},
	{"revision-date", `revision-date 2019-01-01;`, `revision-date 2018-01-01;`},
	{"import", `import ia { prefix ia; }`, `import ib { prefix ib; }`},
	{"include", `include sa;`, `include sb;`},
	{"units", `units "u";`, `units "v";`},
	{"default", `default "a";`, `default "b";`},
	{"config", `config true;`, `config false;`},
	{"mandatory", `mandatory true;`, `mandatory false;`},
	{"presence", `presence "p";`, `presence "q";`},
	{"min-elements", `min-elements 1;`, `min-elements 2;`},
	{"max-elements", `max-elements 5;`, `max-elements unbounded;`},
	{"ordered-by", `ordered-by user;`, `ordered-by system;`},
	{"status", `status current;`, `status deprecated;`},
	{"key", `key "k";`, `key "in";`},
	{"unique", `unique "in";`, `unique "k in";`},
	{"type", `type int32;`, `type string;`},
	{"base", `base idb;`, `base idc;`},
	{"path", `path "../tgt";`, `path "/tgt";`},
	{"require-instance", `require-instance true;`, `require-instance false;`},
	{"fraction-digits", `fraction-digits 2;`, `fraction-digits 3;`},
	{"range", `range "1..5";`, `range "2..3";`},
	{"length", `length "1..5";`, `length "2..3";`},
	{"pattern", `pattern "a*";`, `pattern "b*" { modifier invert-match; }`},
	{"modifier", `modifier invert-match;`, `modifier invert-match;`},
	{"enum", `enum ea;`, `enum eb { value 7; }`},
	{"bit", `bit ba;`, `bit bb { position 7; }`},
	{"value", `value 3;`, `value 4;`},
	{"position", `position 3;`, `position 4;`},
	{"error-message", `error-message "m";`, `error-message "n";`},
	{"error-app-tag", `error-app-tag "t";`, `error-app-tag "u";`},
	{"must", `must "a = 1";`, `must "b = 2";`},
	{"when", `when "a = 1";`, `when "b = 2";`},
	{"if-feature", `if-feature fa;`, `if-feature "fa or fb";`},
	{"feature", `feature fx;`, `feature fy;`},
	{"identity", `identity ix;`, `identity iy;`},
	{"extension", `extension ea;`, `extension eb { argument x; }`},
	{"argument", `argument a;`, `argument b { yin-element true; }`},
	{"yin-element", `yin-element true;`, `yin-element false;`},
	{"typedef", `typedef ta { type string; }`, `typedef tb { type int8; }`},
	{"grouping", `grouping ga { leaf x1 { type string; } }`, `grouping gb { leaf x2 { type string; } }`},
	{"uses", `uses ga;`, `uses gb;`},
	{"refine", `refine gx { description "x"; }`, `refine gc { description "y"; }`},
	{"augment", `augment "gc" { leaf a1 { type string; } }`, `augment "/c" { leaf a2 { type string; } }`},
	{"leaf", `leaf la { type string; }`, `leaf lb { type int8; }`},
	{"leaf-list", `leaf-list lla { type string; }`, `leaf-list llb { type int8; }`},
	{"container", `container ca { leaf x3 { type string; } }`, `container cb { leaf x4 { type string; } }`},
	{"list", `list lia { key k; leaf k { type string; } }`, `list lib { key k; leaf k { type string; } }`},
	{"choice", `choice cha { leaf x5 { type string; } }`, `choice chb { leaf x6 { type string; } }`},
	{"case", `case csa { leaf x7 { type string; } }`, `case csb { leaf x8 { type string; } }`},
	{"anydata", `anydata ada;`, `anyxml axb;`},
	{"rpc", `rpc ra { input { leaf x9 { type string; } } }`, `rpc rb { output { leaf x10 { type string; } } }`},
	{"action", `action aa { input { leaf x11 { type string; } } }`, `action ab { output { leaf x12 { type string; } } }`},
	{"input", `input { leaf x13 { type string; } }`, `input { leaf x14 { type string; } }`},
	{"output", `output { leaf x15 { type string; } }`, `output { leaf x16 { type string; } }`},
	{"notification", `notification na { leaf x17 { type string; } }`, `notification nb { leaf x18 { type string; } }`},
	{"deviation", `deviation "/f" { deviate not-supported; }`, `deviation "/tail" { deviate add { units u; } }`},
	{"deviate", `deviate add { units u; }`, `deviate not-supported;`},
	{"unknown", `mx:ext "arg";`, `mx:ext2;`},
}

func c14StatementCases(yield func(c14Case) bool) {
	files := map[string]string{
		"other.yang": `module other { namespace "urn:o"; prefix o; }`, "ia.yang": `module ia { namespace "urn:ia"; prefix ia; }`, "ib.yang": `module ib { namespace "urn:ib"; prefix ib; }`,
		"sub.yang": `submodule sub { belongs-to mx { prefix mx; } }`, "sa.yang": `submodule sa { belongs-to mx { prefix mx; } }`, "sb.yang": `submodule sb { belongs-to mx { prefix mx; } }`,
	}
	for _, cx := range c14Contexts {
		for _, st := range c14Statements {
			for _, form := range []struct{ name, text string }{{"once", st.A}, {"same-twice", st.A + " " + st.A}, {"two-different", st.A + " " + st.B}, {"three", st.A + " " + st.B + " " + st.A}} {
				c := c14Case{Kind: "statement-" + form.name, Text: fmt.Sprintf(strings.Replace(cx.Text, "%s", "%[1]s", 1), form.text), Files: files}
				if !yield(c) {
					return
				}
			}
		}
	}
}

var c14Statement = hx.Register(&hx.Check[c14Case]{
	Name:    "c14-statements",
	Journal: true,
	Rule:    "every statement of the language (66 kinds) written once, twice with the same argument, twice and three times with different arguments inside every kind of body (46 contexts: module, submodule, import, include, revision, container, list, leaf, leaf-list, choice, case, anydata, typedef, every type body, enum, bit, pattern, range, must, grouping, uses, refine, augment, rpc, input, output, action, notification, identity, feature, extension, argument, deviation, every deviate kind, when), enumerated completely; every case is non-trivial",
	Run: func(c c14Case, o *hx.Obs) {
		o.Class("kind=%s", c.Kind)
		o.NonTrivial()
		runLoad(c, o)
	},
})
