package props

import (
	"fmt"
	"sort"
	"strconv"
	"strings"
	"testing"

	"github.com/freeconf/yang/meta"
	"github.com/freeconf/yang/parser"
	"github.com/freeconf/yang/val"
	"pgregory.net/rapid"

	"verif/harness/hx"
)

// ---- C02: every leaf's effective type is the RFC 7950 derivation of its type statement ---------

type c02Named struct {
	Name string `json:"name"`
	Val  *int   `json:"val,omitempty"` // explicit value / position
}

type c02Lvl struct {
	Name     string     `json:"name"`  // typedef name; "" = the leaf's own type statement
	Scope    string     `json:"scope"` // import | submodule | module | outer | inner | grouping
	Range    string     `json:"range,omitempty"`
	Length   string     `json:"length,omitempty"`
	Patterns []string   `json:"patterns,omitempty"`
	Enums    []c02Named `json:"enums,omitempty"` // level 0: definitions, later: the subset kept
	Bits     []c02Named `json:"bits,omitempty"`
	Default  string     `json:"default,omitempty"`
	Units    string     `json:"units,omitempty"`
}

type c02Ident struct {
	Name  string   `json:"name"`
	Mod   string   `json:"mod"`   // main | imp
	Bases []string `json:"bases"` // names
}

type c02Member struct {
	Type   string     `json:"type"` // int32 | string | boolean | enumeration | um (typedef of int8 with its own default)
	Range  string     `json:"range,omitempty"`
	Length string     `json:"length,omitempty"`
	Enums  []c02Named `json:"enums,omitempty"`
}

type c02Case struct {
	Base     string      `json:"base"`
	FD       int         `json:"fd,omitempty"`
	Path     string      `json:"path,omitempty"`
	Target   string      `json:"target,omitempty"` // type of the leafref target
	Bases    []string    `json:"bases,omitempty"`  // identityref bases (names)
	Idents   []c02Ident  `json:"idents,omitempty"`
	Members  []c02Member `json:"members,omitempty"`
	Lvls     []c02Lvl    `json:"lvls"`
	LeafList bool        `json:"leaf_list,omitempty"`
	Grouping bool        `json:"grouping,omitempty"`
	Uses     int         `json:"uses"`
	// RefineUse > 0: that use of the grouping (1 = the first) refines the leaf with the default RefineDefault; the other
	// uses keep what the leaf and its typedefs say
	RefineUse     int    `json:"refine_use,omitempty"`
	RefineDefault string `json:"refine_default,omitempty"`
	refinedHere   bool
	useIndex      int // which use of the grouping is being looked at
	// InCase: leaf x is written inside 'choice xch { case xk { ... } }' (a relative leafref path then leaves the case);
	// Mandatory: leaf x states mandatory true (and no default of its own): it has no default then, whatever its typedefs say
	InCase    bool `json:"in_case,omitempty"`
	// PerAfter / PerTypedef (path "../per"): the leaf pointed at is written after the leafref (after the uses), and takes
	// its type from a typedef of its own container that states a default and units
	// DeviateUse > 0 (a grouping used at least twice, the leaf not in a case): a deviation replaces the type of leaf x in
	// that use (1 = the first) by boolean; every other expansion keeps the type it has
	DeviateUse int  `json:"deviate_use,omitempty"`
	PerAfter   bool `json:"per_after,omitempty"`
	PerTypedef bool `json:"per_typedef,omitempty"`
	// InCase2 (with InCase): the case holds a second choice and the leaf sits in a case of that one ("case"), or directly
	// in the inner choice as its own shorthand case ("short"): neither level exists in data
	InCase2 string `json:"in_case2,omitempty"`
	Mandatory bool `json:"mandatory,omitempty"`
	Decoy    bool        `json:"decoy,omitempty"` // a sibling container defines unrelated typedefs with the same names first
	Lo       int         `json:"lo"` // bounds of the base type as far as the generator uses them
	Hi       int         `json:"hi"`
}

var c02IntBounds = map[string][2]int{
	"int8": {-128, 127}, "int16": {-32768, 32767}, "int32": {-2147483648, 2147483647}, "int64": {-1 << 40, 1 << 40},
	"uint8": {0, 255}, "uint16": {0, 65535}, "uint32": {0, 4294967295}, "uint64": {0, 1 << 40},
}

func c02IsInt(b string) bool { _, ok := c02IntBounds[b]; return ok }

// ---- generation ------------------------------------------------------------------------------------

func c02SubRange(t *rapid.T, lo, hi int, label string) (string, int, int) {
	a := rapid.IntRange(lo, hi).Draw(t, label+"-a")
	b := rapid.IntRange(a, hi).Draw(t, label+"-b")
	form := rapid.IntRange(0, 5).Draw(t, label+"-form")
	switch {
	case form == 0 && a == lo:
		return fmt.Sprintf("min..%d", b), a, b
	case form == 1 && b == hi:
		return fmt.Sprintf("%d..max", a), a, b
	case form == 2 && a == b:
		return fmt.Sprint(a), a, b
	case form == 3 && b-a >= 3:
		m := rapid.IntRange(a, b-2).Draw(t, label+"-m")
		return fmt.Sprintf("%d..%d | %d..%d", a, m, m+2, b), a, m // later levels narrow inside the first part
	}
	return fmt.Sprintf("%d..%d", a, b), a, b
}

func c02Gen(t *rapid.T) c02Case {
	c := c02Case{}
	kinds := []string{"int8", "int16", "int32", "int64", "uint8", "uint16", "uint32", "uint64", "decimal64", "string", "string", "binary", "boolean", "enumeration", "enumeration", "bits", "union", "leafref", "identityref", "empty"}
	c.Base = rapid.SampledFrom(kinds).Draw(t, "base")
	c.Grouping = rapid.Bool().Draw(t, "grouping")
	c.Uses = 1
	if c.Grouping {
		c.Uses = rapid.IntRange(1, 3).Draw(t, "uses")
	}
	c.LeafList = c.Base != "empty" && rapid.IntRange(0, 4).Draw(t, "leaf-list") == 0
	c.Decoy = rapid.Bool().Draw(t, "decoy")
	nl := rapid.IntRange(0, 4).Draw(t, "levels")
	// scopes, outermost first
	ranks := []string{"import", "module", "outer", "inner"}
	if c.Grouping {
		ranks = []string{"import", "module", "grouping"}
	}
	if c.Base == "leafref" || c.Base == "identityref" {
		ranks = ranks[1:] // paths and identity names are written for the main module
	}
	rank := 0
	for i := 0; i < nl; i++ {
		rank = rapid.IntRange(rank, len(ranks)-1).Draw(t, "rank")
		sc := ranks[rank]
		if sc == "module" && rapid.Bool().Draw(t, "in-submodule") {
			sc = "submodule"
		}
		c.Lvls = append(c.Lvls, c02Lvl{Name: fmt.Sprintf("t%d", i), Scope: sc})
	}
	c.Lvls = append(c.Lvls, c02Lvl{})
	n := len(c.Lvls)

	switch {
	case c02IsInt(c.Base):
		b := c02IntBounds[c.Base]
		c.Lo, c.Hi = b[0], b[1]
		lo, hi := b[0], b[1]
		if lo < -100 {
			lo = -100
		}
		if hi > 200 {
			hi = 200
		}
		narrowed := false
		for i := 0; i < n; i++ {
			if rapid.Bool().Draw(t, "range?") {
				glo, ghi := lo, hi
				if !narrowed && rapid.Bool().Draw(t, "from-type-bounds") {
					glo, ghi = lo, hi
				}
				c.Lvls[i].Range, lo, hi = c02SubRange(t, glo, ghi, "range")
				narrowed = true
			}
		}
		c02Defaults(t, &c, func(i int) string { return fmt.Sprint(lo + (i % (hi - lo + 1))) })
	case c.Base == "decimal64":
		c.FD = rapid.IntRange(1, 3).Draw(t, "fd")
		lo, hi := -50, 50
		c.Lo, c.Hi = -1000, 1000
		for i := 0; i < n; i++ {
			if rapid.Bool().Draw(t, "range?") {
				a := rapid.IntRange(lo, hi).Draw(t, "dr-a")
				b := rapid.IntRange(a, hi).Draw(t, "dr-b")
				c.Lvls[i].Range = fmt.Sprintf("%d.5..%d.5", a-1, b) // [a-0.5, b+0.5]
				lo, hi = a, b
			}
		}
		c02Defaults(t, &c, func(i int) string { return fmt.Sprintf("%d.0", lo+(i%(hi-lo+1))) })
	case c.Base == "string" || c.Base == "binary":
		lo, hi := 0, 20
		c.Lo, c.Hi = 0, 1 << 20
		for i := 0; i < n; i++ {
			if rapid.IntRange(0, 2).Draw(t, "length?") == 0 {
				c.Lvls[i].Length, lo, hi = c02SubRange(t, lo, hi, "length")
			}
			if c.Base == "string" && rapid.IntRange(0, 2).Draw(t, "pattern?") == 0 {
				c.Lvls[i].Patterns = append(c.Lvls[i].Patterns, rapid.SampledFrom([]string{"[a-z]*", "a.*", ".*z", "[a-z0-9]*", "[^A-Z]*"}).Draw(t, "pattern"))
			}
		}
		if c.Base == "string" {
			c02Defaults(t, &c, func(i int) string {
				l := lo
				if l < 2 {
					l = 2
				}
				if l > hi {
					return ""
				}
				return "a" + strings.Repeat(string(rune('b'+i)), l-2) + "z"
			})
		}
	case c.Base == "boolean":
		c02Defaults(t, &c, func(i int) string { return []string{"true", "false"}[i%2] })
	case c.Base == "enumeration" || c.Base == "bits":
		ne := rapid.IntRange(1, 5).Draw(t, "n-names")
		var names []c02Named
		used := map[int]bool{}
		for i := 0; i < ne; i++ {
			nm := c02Named{Name: fmt.Sprintf("e%d", i)}
			if rapid.IntRange(0, 2).Draw(t, "explicit?") == 0 {
				lo := -3
				if c.Base == "bits" {
					lo = 0
				}
				v := rapid.IntRange(lo, 9).Draw(t, "explicit")
				if !used[v] {
					nm.Val = &v
				}
			}
			names = append(names, nm)
			// what it will get, so that explicit values stay unique
			ev := c02Number(names, c.Base == "bits")
			used[ev[len(ev)-1]] = true
		}
		kept := names
		for i := 0; i < n; i++ {
			if i == 0 {
				c02SetNames(&c.Lvls[0], c.Base, names)
				continue
			}
			if rapid.IntRange(0, 3).Draw(t, "restrict-names?") == 0 && len(kept) > 1 {
				var sub []c02Named
				for _, k := range kept {
					if rapid.Bool().Draw(t, "keep") {
						sub = append(sub, c02Named{Name: k.Name})
					}
				}
				if len(sub) == 0 {
					sub = []c02Named{{Name: kept[0].Name}}
				}
				if len(sub) > 1 && rapid.Bool().Draw(t, "reorder") {
					// a restriction may list the names it keeps in any order
					sub = rapid.Permutation(sub).Draw(t, "order")
				}
				kept = sub
				c02SetNames(&c.Lvls[i], c.Base, sub)
			}
		}
		c02Defaults(t, &c, func(i int) string { return kept[i%len(kept)].Name })
	case c.Base == "union":
		nm := rapid.IntRange(1, 3).Draw(t, "n-members")
		for i := 0; i < nm; i++ {
			m := c02Member{Type: rapid.SampledFrom([]string{"int32", "string", "boolean", "enumeration", "um"}).Draw(t, "member")}
			switch m.Type {
			case "int32":
				if rapid.Bool().Draw(t, "member-range") {
					m.Range = "0..9"
				}
			case "string":
				if rapid.Bool().Draw(t, "member-length") {
					m.Length = "1..4"
				}
			case "enumeration":
				m.Enums = []c02Named{{Name: "ua"}, {Name: "ub"}}
			}
			if m.Type == "um" && len(c.Lvls) > 1 && c.Lvls[0].Scope == "import" {
				m.Type = "int32" // um is a typedef of main
			}
			c.Members = append(c.Members, m)
		}
		c02Defaults(t, &c, func(i int) string { return fmt.Sprint(i) })
	case c.Base == "leafref":
		c.Target = rapid.SampledFrom([]string{"int32", "string", "boolean", "enumeration", "um"}).Draw(t, "target")
		// "../per": a leaf next to x (next to the uses, outside the grouping) whose type differs from use to use
		paths := []string{"/tgt", "/m:tgt", "../sib", "../m:sib", "../../sib0", "/m:outer/m:sib0", "/outer/sib0", "/i:itgt", "/i:ic/i:deep", "../per", "../per"}
		c.Path = rapid.SampledFrom(paths).Draw(t, "path")
		switch c.Path {
		case "/i:itgt":
			c.Target = "uint16" // the imported module's leaf; main has a string leaf of the same name
		case "/i:ic/i:deep":
			c.Target = "int64"
		}
		c02Defaults(t, &c, func(i int) string { return "" })
	case c.Base == "identityref":
		ni := rapid.IntRange(2, 6).Draw(t, "n-idents")
		for i := 0; i < ni; i++ {
			id := c02Ident{Name: fmt.Sprintf("id%d", i), Mod: "main"}
			if rapid.IntRange(0, 2).Draw(t, "in-imp") == 0 {
				id.Mod = "imp"
			}
			if i > 0 {
				nb := rapid.IntRange(0, 2).Draw(t, "n-bases")
				for j := 0; j < nb; j++ {
					b := rapid.IntRange(0, i-1).Draw(t, "base-of")
					// an identity of the imported module cannot be based on one of main
					if id.Mod == "imp" && c.Idents[b].Mod == "main" {
						continue
					}
					bn := c.Idents[b].Name
					if !containsStr(id.Bases, bn) {
						id.Bases = append(id.Bases, bn)
					}
				}
			}
			c.Idents = append(c.Idents, id)
		}
		c.Bases = []string{c.Idents[rapid.IntRange(0, ni-1).Draw(t, "leaf-base")].Name}
		c02Defaults(t, &c, func(i int) string { return "" })
	}
	// units anywhere
	for i := range c.Lvls {
		if rapid.IntRange(0, 2).Draw(t, "units?") == 0 {
			c.Lvls[i].Units = fmt.Sprintf("u%d", i)
		}
	}
	c.InCase = rapid.IntRange(0, 3).Draw(t, "in-case") == 0
	c.PerAfter, c.PerTypedef = rapid.Bool().Draw(t, "per-after"), rapid.Bool().Draw(t, "per-typedef")
	if c.Grouping && c.Uses > 1 && !c.InCase && rapid.IntRange(0, 3).Draw(t, "deviate-a-use") == 0 {
		c.DeviateUse = rapid.IntRange(1, c.Uses).Draw(t, "deviate-use")
	}
	if c.InCase {
		c.InCase2 = rapid.SampledFrom([]string{"", "case", "short"}).Draw(t, "in-case2")
	}
	c.Mandatory = c.RefineUse == 0 && rapid.IntRange(0, 4).Draw(t, "mandatory") == 0
	return c
}

func c02SetNames(l *c02Lvl, base string, names []c02Named) {
	if base == "bits" {
		l.Bits = names
	} else {
		l.Enums = names
	}
}

// c02Defaults states a default at some levels (typedefs and the leaf); value(i) must be valid under the final type.
func c02Defaults(t *rapid.T, c *c02Case, value func(i int) string) {
	for i := range c.Lvls {
		if rapid.IntRange(0, 2).Draw(t, "default?") == 0 {
			c.Lvls[i].Default = value(i)
		}
	}
	if c.Grouping && !c.LeafList && rapid.IntRange(0, 2).Draw(t, "refine-default?") == 0 {
		if d := value(len(c.Lvls) + 1); d != "" {
			c.RefineUse, c.RefineDefault = rapid.IntRange(1, c.Uses).Draw(t, "refined-use"), d
		}
	}
}

// c02Number assigns RFC 7950 9.6.4.2 / 9.7.4.2 values: explicit, else one more than the highest so far (0 first).
func c02Number(names []c02Named, bits bool) []int {
	out := make([]int, len(names))
	highest, any := 0, false
	for i, n := range names {
		v := 0
		if n.Val != nil {
			v = *n.Val
		} else if any {
			v = highest + 1
		}
		out[i] = v
		if !any || v > highest {
			highest = v
		}
		any = true
	}
	return out
}

// ---- rendering -----------------------------------------------------------------------------------------

func (c c02Case) typeRef(i int) string {
	if i == 0 {
		return c.Base
	}
	prev := c.Lvls[i-1]
	if prev.Scope == "import" && c.Lvls[i].Scope != "import" {
		return "i:" + prev.Name
	}
	return prev.Name
}

func c02NamesYang(kw, sub string, names []c02Named) string {
	var b strings.Builder
	for _, n := range names {
		if n.Val != nil {
			fmt.Fprintf(&b, " %s %s { %s %d; }", kw, n.Name, sub, *n.Val)
		} else {
			fmt.Fprintf(&b, " %s %s;", kw, n.Name)
		}
	}
	return b.String()
}

func (c c02Case) typeStmt(i int) string {
	l := c.Lvls[i]
	var body strings.Builder
	if i == 0 {
		switch c.Base {
		case "decimal64":
			fmt.Fprintf(&body, " fraction-digits %d;", c.FD)
		case "leafref":
			fmt.Fprintf(&body, " path %q;", c.Path)
		case "identityref":
			for _, b := range c.Bases {
				fmt.Fprintf(&body, " base %s;", c.identRef(b, "main"))
			}
		case "union":
			for _, m := range c.Members {
				body.WriteString(" " + c02MemberYang(m))
			}
		}
	}
	if l.Range != "" {
		fmt.Fprintf(&body, " range %q;", l.Range)
	}
	if l.Length != "" {
		fmt.Fprintf(&body, " length %q;", l.Length)
	}
	for _, p := range l.Patterns {
		fmt.Fprintf(&body, " pattern '%s';", p)
	}
	body.WriteString(c02NamesYang("enum", "value", l.Enums))
	body.WriteString(c02NamesYang("bit", "position", l.Bits))
	if body.Len() == 0 {
		return "type " + c.typeRef(i) + ";"
	}
	return "type " + c.typeRef(i) + " {" + body.String() + " }"
}

func c02MemberYang(m c02Member) string {
	switch {
	case m.Range != "":
		return fmt.Sprintf("type %s { range %q; }", m.Type, m.Range)
	case m.Length != "":
		return fmt.Sprintf("type %s { length %q; }", m.Type, m.Length)
	case len(m.Enums) > 0:
		return "type enumeration {" + c02NamesYang("enum", "value", m.Enums) + " }"
	}
	return "type " + m.Type + ";"
}

func (c c02Case) identRef(name, from string) string {
	for _, id := range c.Idents {
		if id.Name == name && id.Mod == "imp" && from == "main" {
			return "i:" + name
		}
	}
	return name
}

func (c c02Case) typedefs(scope, ind string) string {
	var b strings.Builder
	for i, l := range c.Lvls {
		if l.Name == "" || l.Scope != scope {
			continue
		}
		fmt.Fprintf(&b, "%stypedef %s {\n%s %s\n", ind, l.Name, ind, c.typeStmt(i))
		if l.Default != "" {
			fmt.Fprintf(&b, "%s default %q;\n", ind, l.Default)
		}
		if l.Units != "" {
			fmt.Fprintf(&b, "%s units %q;\n", ind, l.Units)
		}
		b.WriteString(ind + "}\n")
	}
	return b.String()
}

func (c c02Case) identities(mod, ind string) string {
	var b strings.Builder
	for _, id := range c.Idents {
		if id.Mod != mod {
			continue
		}
		if len(id.Bases) == 0 {
			fmt.Fprintf(&b, "%sidentity %s;\n", ind, id.Name)
			continue
		}
		fmt.Fprintf(&b, "%sidentity %s {", ind, id.Name)
		for _, bs := range id.Bases {
			fmt.Fprintf(&b, " base %s;", c.identRef(bs, mod))
		}
		b.WriteString(" }\n")
	}
	return b.String()
}

// the type of leaf "per" in the first, second and third container the grouping is used in
var c02PerUseTypes = []string{"uint8", "string", "boolean"}

func (c c02Case) targetType() string {
	switch c.Target {
	case "enumeration":
		return "type enumeration { enum ta; enum tb; }"
	case "":
		return "type string;"
	}
	return "type " + c.Target + ";"
}

func (c c02Case) leafYang(ind string) string {
	l := c.Lvls[len(c.Lvls)-1]
	kw := "leaf"
	if c.LeafList {
		kw = "leaf-list"
	}
	var b strings.Builder
	fmt.Fprintf(&b, "%s%s x {\n%s %s\n", ind, kw, ind, c.typeStmt(len(c.Lvls)-1))
	if l.Default != "" {
		fmt.Fprintf(&b, "%s default %q;\n", ind, l.Default)
	}
	if l.Units != "" {
		fmt.Fprintf(&b, "%s units %q;\n", ind, l.Units)
	}
	if c.Mandatory && !c.LeafList && l.Default == "" {
		fmt.Fprintf(&b, "%s mandatory true;\n", ind)
	}
	b.WriteString(ind + "}\n")
	if c.InCase {
		inner := b.String()
		switch c.InCase2 {
		case "case":
			inner = ind + "  choice xch2 {\n" + ind + "   case xk2 {\n" + inner + ind + "   }\n" + ind + "  }\n"
		case "short":
			inner = ind + "  choice xch2 {\n" + inner + ind + "  }\n"
		}
		return ind + "choice xch {\n" + ind + " case xk {\n" + inner + ind + " }\n" + ind + "}\n"
	}
	return b.String()
}

func (c c02Case) files() map[string]string {
	var imp, sub, m strings.Builder
	imp.WriteString("module imp {\n namespace \"urn:imp\";\n prefix i;\n")
	imp.WriteString(" leaf itgt {\n  type uint16;\n }\n container ic {\n  leaf deep {\n   type int64;\n  }\n }\n")
	imp.WriteString(c.identities("imp", " "))
	imp.WriteString(c.typedefs("import", " "))
	imp.WriteString("}\n")
	sub.WriteString("submodule sub {\n belongs-to main { prefix m; }\n import imp { prefix i; }\n")
	sub.WriteString(c.typedefs("submodule", " "))
	sub.WriteString("}\n")
	m.WriteString("module main {\n namespace \"urn:main\";\n prefix m;\n import imp { prefix i; }\n include sub;\n")
	m.WriteString(c.identities("main", " "))
	m.WriteString(" typedef um {\n  type int8;\n  default \"7\";\n  units \"um-units\";\n }\n")
	m.WriteString(c.typedefs("module", " "))
	fmt.Fprintf(&m, " leaf tgt {\n  %s\n }\n", c.targetType())
	m.WriteString(" leaf itgt {\n  type string;\n }\n container ic {\n  leaf deep {\n   type string;\n  }\n }\n")
	if c.Decoy {
		// same typedef names in a scope that is neither an ancestor nor a descendant of the real ones: legal, unrelated
		m.WriteString(" container decoy {\n")
		n := 0
		for _, l := range c.Lvls {
			if l.Name != "" && (l.Scope == "outer" || l.Scope == "inner" || l.Scope == "grouping") {
				fmt.Fprintf(&m, "  typedef %s {\n   type string { length \"0..3\"; }\n   default \"dcy\";\n   units \"decoy-units\";\n  }\n  leaf d%d {\n   type %s;\n  }\n", l.Name, n, l.Name)
				n++
			}
		}
		if n == 0 {
			m.WriteString("  leaf d { type string; }\n")
		}
		m.WriteString(" }\n")
	}
	m.WriteString(" container outer {\n")
	m.WriteString(c.typedefs("outer", "  "))
	fmt.Fprintf(&m, "  leaf sib0 {\n   %s\n  }\n", c.targetType())
	for u := 0; u < c.Uses; u++ {
		name := "inner"
		if u > 0 {
			name = fmt.Sprintf("inner%d", u+1)
		}
		fmt.Fprintf(&m, "  container %s {\n", name)
		per := ""
		if c.Path == "../per" {
			pt := c02PerUseTypes[u%len(c02PerUseTypes)]
			per = fmt.Sprintf("   leaf per {\n    type %s;\n   }\n", pt)
			if c.PerTypedef {
				// the leaf pointed at takes its type from a typedef of its own container, with a default and units that
				// are none of the leafref's business
				dv := map[string]string{"uint8": "7", "string": "pd", "boolean": "true"}[pt]
				per = fmt.Sprintf("   typedef pt {\n    type %s;\n    default %q;\n    units \"pu\";\n   }\n   leaf per {\n    type pt;\n   }\n", pt, dv)
			}
		}
		if !c.PerAfter {
			m.WriteString(per)
		}
		if c.Grouping && c.RefineUse == u+1 {
			fmt.Fprintf(&m, "   uses g {\n    refine x {\n     default %q;\n    }\n   }\n", c.RefineDefault)
		} else if c.Grouping {
			m.WriteString("   uses g;\n")
		} else {
			m.WriteString(c.typedefs("inner", "   "))
			fmt.Fprintf(&m, "   leaf sib {\n    %s\n   }\n", c.targetType())
			m.WriteString(c.leafYang("   "))
		}
		if c.PerAfter {
			m.WriteString(per) // (the leaf pointed at is written after the uses / the leafref)
		}
		m.WriteString("  }\n")
	}
	m.WriteString(" }\n")
	if c.Grouping {
		m.WriteString(" grouping g {\n")
		m.WriteString(c.typedefs("grouping", "  "))
		fmt.Fprintf(&m, "  leaf sib {\n   %s\n  }\n", c.targetType())
		m.WriteString(c.leafYang("  "))
		m.WriteString(" }\n")
	}
	if c.DeviateUse > 0 && c.Grouping && c.DeviateUse <= c.Uses && !c.InCase {
		name := "inner"
		if c.DeviateUse > 1 {
			name = fmt.Sprintf("inner%d", c.DeviateUse)
		}
		fmt.Fprintf(&m, " deviation \"/outer/%s/x\" {\n  deviate replace {\n   type boolean;\n  }\n }\n", name)
	}
	m.WriteString("}\n")
	return map[string]string{"main.yang": m.String(), "sub.yang": sub.String(), "imp.yang": imp.String()}
}

// ---- the model ---------------------------------------------------------------------------------------------

type c02Interval struct{ lo, hi float64 }

func c02ParseRange(s string, typeLo, typeHi float64) []c02Interval {
	var out []c02Interval
	for _, part := range strings.Split(s, "|") {
		part = strings.TrimSpace(part)
		num := func(x string) float64 {
			x = strings.TrimSpace(x)
			switch x {
			case "min":
				return typeLo
			case "max":
				return typeHi
			}
			f, err := strconv.ParseFloat(x, 64)
			if err != nil {
				panic("harness: bad range number " + x)
			}
			return f
		}
		if i := strings.Index(part, ".."); i >= 0 {
			out = append(out, c02Interval{num(part[:i]), num(part[i+2:])})
		} else {
			out = append(out, c02Interval{num(part), num(part)})
		}
	}
	return out
}

func c02In(iv []c02Interval, v float64) bool {
	for _, i := range iv {
		if v >= i.lo && v <= i.hi {
			return true
		}
	}
	return false
}

// stated collects one restriction along the chain, base first.
func (c c02Case) stated(f func(l c02Lvl) string) []string {
	var out []string
	for _, l := range c.Lvls {
		if s := f(l); s != "" {
			out = append(out, s)
		}
	}
	return out
}

func (c c02Case) accepts(ranges []string, v float64) bool {
	if v < float64(c.Lo) || v > float64(c.Hi) {
		return false
	}
	for _, r := range ranges {
		if !c02In(c02ParseRange(r, float64(c.Lo), float64(c.Hi)), v) {
			return false
		}
	}
	return true
}

func (c c02Case) probes(ranges []string) []float64 {
	set := map[float64]bool{0: true}
	for _, r := range ranges {
		for _, iv := range c02ParseRange(r, float64(c.Lo), float64(c.Hi)) {
			for _, d := range []float64{-1, 0, 1} {
				set[iv.lo+d] = true
				set[iv.hi+d] = true
			}
		}
	}
	var out []float64
	for v := range set {
		if v >= float64(c.Lo) && v <= float64(c.Hi) && v > -1e9 && v < 1e9 {
			out = append(out, v)
		}
	}
	sort.Float64s(out)
	return out
}

// finalNames: the enum / bit names the leaf's type keeps, with their RFC values.
func (c c02Case) finalNames() ([]string, map[string]int) {
	var defs []c02Named
	if c.Base == "bits" {
		defs = c.Lvls[0].Bits
	} else {
		defs = c.Lvls[0].Enums
	}
	nums := c02Number(defs, c.Base == "bits")
	vals := map[string]int{}
	var kept []string
	for i, d := range defs {
		vals[d.Name] = nums[i]
		kept = append(kept, d.Name)
	}
	for _, l := range c.Lvls[1:] {
		sub := l.Enums
		if c.Base == "bits" {
			sub = l.Bits
		}
		if len(sub) > 0 {
			kept = nil
			for _, s := range sub {
				kept = append(kept, s.Name)
			}
		}
	}
	return kept, vals
}

func (c c02Case) expectDefault() (string, bool) {
	if c.refinedHere {
		return c.RefineDefault, true
	}
	if c.Mandatory && !c.LeafList && c.Lvls[len(c.Lvls)-1].Default == "" {
		return "", false // RFC 7950 7.6.1: the type's default is the leaf's unless the leaf is mandatory
	}
	for i := len(c.Lvls) - 1; i >= 0; i-- {
		if c.Lvls[i].Default != "" {
			return c.Lvls[i].Default, true
		}
	}
	return "", false
}

func (c c02Case) expectUnits() string {
	for i := len(c.Lvls) - 1; i >= 0; i-- {
		if c.Lvls[i].Units != "" {
			return c.Lvls[i].Units
		}
	}
	return ""
}

// accepted identities: everything derived, directly or not, from the leaf's base (the base itself is left open)
func (c c02Case) derivedFrom(base string) map[string]bool {
	out := map[string]bool{}
	changed := true
	for changed {
		changed = false
		for _, id := range c.Idents {
			if out[id.Name] {
				continue
			}
			for _, b := range id.Bases {
				if b == base || out[b] {
					out[id.Name] = true
					changed = true
				}
			}
		}
	}
	return out
}

// ---- the check ---------------------------------------------------------------------------------------------

func c02FindLeaf(m *meta.Module, container string) meta.Leafable {
	outer, _ := meta.Find(m, "outer").(meta.HasDataDefinitions)
	if outer == nil {
		return nil
	}
	in, _ := meta.Find(outer, container).(meta.HasDataDefinitions)
	if in == nil {
		return nil
	}
	l, _ := meta.Find(in, "x").(meta.Leafable)
	return l
}

func c02Run(c c02Case, o *hx.Obs) {
	kind := c.Base
	if c02IsInt(kind) {
		kind = "int"
	}
	o.Class("base=%s", kind)
	o.Class("levels=%d", len(c.Lvls)-1)
	o.Class("uses=%d grouping=%v", c.Uses, c.Grouping)
	o.Class("decoy=%v", c.Decoy)
	if c.InCase {
		o.Class("the leaf sits in a case")
		if c.InCase2 != "" {
			o.Class("the leaf sits in a case of a choice in a case (%s)", c.InCase2)
		}
	}
	if c.Mandatory && !c.LeafList && c.Lvls[len(c.Lvls)-1].Default == "" {
		o.Class("the leaf is mandatory")
	}
	scopes := map[string]bool{}
	for _, l := range c.Lvls {
		if l.Name != "" {
			scopes[l.Scope] = true
			o.Class("scope=%s", l.Scope)
		}
	}
	if len(c.Lvls) > 2 || c.Uses > 1 || scopes["import"] || scopes["submodule"] {
		o.NonTrivial()
	}
	files := c.files()
	var m *meta.Module
	var err error
	if o.Guard("LoadModule", func() { m, err = parser.LoadModuleFromString(memOpener(files), files["main.yang"]) }) {
		return
	}
	show := func() string { return files["main.yang"] + "--- sub.yang\n" + files["sub.yang"] + "--- imp.yang\n" + files["imp.yang"] }
	if err != nil {
		o.Failf("type|"+kind+"|rejected", "a well-formed type derivation does not load: %v\n%s", err, show())
		return
	}
	for u := 0; u < c.Uses; u++ {
		name, which := "inner", "first"
		if u > 0 {
			name, which = fmt.Sprintf("inner%d", u+1), "later-use"
		}
		leaf := c02FindLeaf(m, name)
		if leaf == nil {
			o.Failf("type|"+kind+"|leaf-missing|"+which, "leaf x is missing under outer/%s\n%s", name, show())
			return
		}
		fail := func(clause, f string, a ...interface{}) {
			o.Failf("type|"+kind+"|"+clause+"|"+which, "outer/%s/x: %s\n%s", name, fmt.Sprintf(f, a...), show())
		}
		cu := c
		cu.useIndex = u
		cu.refinedHere = c.RefineUse == u+1
		if cu.refinedHere {
			o.Class("a use refines the default")
		}
		if c.DeviateUse == u+1 && c.Grouping && !c.InCase {
			// this expansion had its type replaced by a deviation: it is boolean now, and the others are looked at as ever
			o.Class("a deviation replaces the type in one use")
			wantFmt := val.FmtBool
			if c.LeafList {
				wantFmt = val.FmtBoolList
			}
			if got := leaf.Type().Format(); got != wantFmt {
				fail("deviated-type", "a deviation replaced the type by boolean, Format() is %v", got)
				return
			}
			continue
		}
		o.Guard("effective type of "+name+"/x", func() { c02CheckLeaf(cu, leaf, fail) })
	}
}

func c02CheckLeaf(c c02Case, leaf meta.Leafable, fail func(clause, f string, a ...interface{})) {
	t := leaf.Type()
	wantFmt, _ := val.TypeAsFormat(c.Base)
	if c.LeafList {
		wantFmt = wantFmt.List()
	}
	if t.Format() != wantFmt {
		fail("format", "Format() is %s, the chain ends in %s", t.Format(), wantFmt)
		return
	}
	// default and units: the leaf's own, else the nearest typedef's
	wantDef, hasDef := c.expectDefault()
	if leaf.HasDefault() != hasDef {
		fail("default", "HasDefault() is %v, the derivation says %v (default %q)", leaf.HasDefault(), hasDef, wantDef)
		return
	}
	if hasDef {
		got := fmt.Sprint(leaf.DefaultValue())
		if ss, isList := leaf.DefaultValue().([]string); isList {
			got = strings.Join(ss, ",")
		}
		if got != wantDef {
			fail("default", "DefaultValue() is %q, the nearest stated default is %q", got, wantDef)
			return
		}
	}
	if leaf.Units() != c.expectUnits() {
		fail("units", "Units() is %q, the nearest stated units is %q", leaf.Units(), c.expectUnits())
		return
	}
	single := wantFmt.Single()
	switch {
	case c02IsInt(c.Base) || c.Base == "decimal64":
		ranges := c.stated(func(l c02Lvl) string { return l.Range })
		if (len(t.Range()) > 0) != (len(ranges) > 0) {
			fail("range", "Range() has %d entries, the chain states %d range restrictions %v", len(t.Range()), len(ranges), ranges)
			return
		}
		for _, p := range c.probes(ranges) {
			var v val.Value
			var err error
			if c.Base == "decimal64" {
				v, err = val.Conv(single, p)
			} else {
				v, err = val.Conv(single, int64(p))
			}
			if err != nil {
				continue // outside the base type
			}
			got := true
			for _, r := range t.Range() {
				if r.CheckValue(v) != nil {
					got = false
				}
			}
			if want := c.accepts(ranges, p); got != want {
				fail("range", "the ranges Range() returns accept %v: %v, the chain %v says %v", p, got, ranges, want)
				return
			}
		}
		if c.Base == "decimal64" && t.FractionDigits() != c.FD {
			fail("fraction-digits", "FractionDigits() is %d, stated %d", t.FractionDigits(), c.FD)
			return
		}
	case c.Base == "string" || c.Base == "binary":
		lengths := c.stated(func(l c02Lvl) string { return l.Length })
		if (len(t.Length()) > 0) != (len(lengths) > 0) {
			fail("length", "Length() has %d entries, the chain states %d length restrictions %v", len(t.Length()), len(lengths), lengths)
			return
		}
		for _, p := range c.probes(lengths) {
			if p < 0 {
				continue
			}
			got := true
			for _, r := range t.Length() {
				if r.CheckValue(val.Int32(int(p))) != nil {
					got = false
				}
			}
			if want := c.accepts(lengths, p); got != want {
				fail("length", "the lengths Length() returns accept length %v: %v, the chain %v says %v", p, got, lengths, want)
				return
			}
		}
		var want []string
		for _, l := range c.Lvls {
			want = append(want, l.Patterns...)
		}
		var got []string
		for _, p := range t.Patterns() {
			got = append(got, p.Pattern)
		}
		sort.Strings(want)
		sort.Strings(got)
		if strings.Join(uniqStrings(want), " ") != strings.Join(uniqStrings(got), " ") {
			fail("patterns", "Patterns() are %q, the chain accumulates %q (RFC 7950 9.4.5: all of them apply)", got, want)
			return
		}
	case c.Base == "enumeration":
		kept, vals := c.finalNames()
		if len(t.Enum()) != len(kept) || len(t.Enums()) != len(kept) {
			fail("enums", "Enum() has %d and Enums() %d entries, the type keeps %v", len(t.Enum()), len(t.Enums()), kept)
			return
		}
		for i, k := range kept {
			if t.Enum()[i].Label != k || t.Enum()[i].Id != vals[k] {
				fail("enums", "Enum()[%d] is %s=%d, RFC 7950 9.6.4.2 assigns %s=%d (all: %v)", i, t.Enum()[i].Label, t.Enum()[i].Id, k, vals[k], vals)
				return
			}
			if t.Enums()[i].Ident() != k || t.Enums()[i].Value() != vals[k] {
				fail("enums", "Enums()[%d] is %s=%d, RFC 7950 9.6.4.2 assigns %s=%d", i, t.Enums()[i].Ident(), t.Enums()[i].Value(), k, vals[k])
				return
			}
		}
	case c.Base == "bits":
		kept, vals := c.finalNames()
		if len(t.Bits()) != len(kept) {
			var got []string
			for _, b := range t.Bits() {
				got = append(got, b.Ident())
			}
			fail("bits", "Bits() are %v, the type keeps %v", got, kept)
			return
		}
		for i, k := range kept {
			if t.Bits()[i].Ident() != k || t.Bits()[i].Position != vals[k] {
				fail("bits", "Bits()[%d] is %s at %d, RFC 7950 9.7.4.2 assigns %s position %d (all: %v)", i, t.Bits()[i].Ident(), t.Bits()[i].Position, k, vals[k], vals)
				return
			}
		}
	case c.Base == "union":
		if len(t.Union()) != len(c.Members) {
			fail("union", "Union() has %d members, stated %d", len(t.Union()), len(c.Members))
			return
		}
		for i, mb := range c.Members {
			mt := mb.Type
			if mt == "um" {
				mt = "int8"
			}
			wf, _ := val.TypeAsFormat(mt)
			if c.LeafList {
				wf = wf.List()
			}
			u := t.Union()[i]
			if u.Format() != wf {
				fail("union", "Union()[%d].Format() is %s, stated %s", i, u.Format(), wf)
				return
			}
			if (mb.Range != "") != (len(u.Range()) > 0) || (mb.Length != "") != (len(u.Length()) > 0) {
				fail("union", "Union()[%d] has %d range and %d length restrictions, stated range %q length %q", i, len(u.Range()), len(u.Length()), mb.Range, mb.Length)
				return
			}
			if len(mb.Enums) != len(u.Enum()) {
				fail("union", "Union()[%d].Enum() has %d entries, stated %d", i, len(u.Enum()), len(mb.Enums))
				return
			}
		}
	case c.Base == "leafref":
		if t.Path() != c.Path {
			fail("leafref", "Path() is %q, stated %q", t.Path(), c.Path)
			return
		}
		tt := c.Target
		if c.Path == "../per" {
			tt = c02PerUseTypes[c.useIndex%len(c02PerUseTypes)]
		}
		if tt == "um" {
			tt = "int8"
		}
		wf, _ := val.TypeAsFormat(tt)
		r := t.Resolve()
		if r == nil || r.Format().Single() != wf {
			fail("leafref", "Resolve() is %v, the path %q points at a leaf of type %s", r, c.Path, tt)
			return
		}
		if tt == "enumeration" && len(r.Enum()) != 2 {
			fail("leafref", "Resolve().Enum() has %d entries, the target has 2", len(r.Enum()))
			return
		}
	case c.Base == "identityref":
		base := c.Bases[0]
		if len(t.Base()) != 1 || t.Base()[0].Ident() != base {
			fail("identities", "Base() is %v, stated base %s", t.Base(), base)
			return
		}
		want := c.derivedFrom(base)
		for _, id := range c.Idents {
			if id.Name == base {
				continue
			}
			got := meta.FindIdentity(t.Base(), id.Name) != nil
			if got != want[id.Name] {
				fail("identities", "identity %s accepted: %v, derived from %s: %v", id.Name, got, base, want[id.Name])
				return
			}
		}
	}
}

var c02Types = hx.Register(&hx.Check[c02Case]{
	Name: "c02-derivation",
	Rule: "a leaf or leaf-list whose type is a chain of 0-4 typedefs over every built-in base (8 integer types, decimal64, string, binary, boolean, empty, enumeration, bits, union, leafref, identityref), the typedefs placed in an imported module, a submodule, the module, an enclosing container, the leaf's own container or its grouping; each level may narrow range / length, add a pattern, keep a subset of enums / bits, and state default and units; the leaf sits inline or in a grouping used 1-3 times, one of the uses may refine the leaf's default; half of the modules first define unrelated typedefs of the same names in a sibling scope; checked per expansion: format, acceptance of boundary probes by Range()/Length(), accumulated patterns, enum values and bit positions by the RFC numbering rule, union members, leafref path and target type, the identities accepted, fraction-digits, and default / units from the leaf else the nearest typedef; non-trivial = two or more typedef levels, a second use, or a typedef in another file",
	Gen:  c02Gen,
	Run:  c02Run,
})

func TestC02(t *testing.T) {
	s := hx.Begin(t, "C02")
	defer s.End()
	hx.Run(s, c02Types, s.N(4000, 40000))
	hx.Run(s, c02Prefixes, s.N(600, 6000))
}
