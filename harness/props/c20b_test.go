package props

import (
	"fmt"
	"sync"
	"sync/atomic"

	"github.com/freeconf/yang/node"
	"github.com/freeconf/yang/nodeutil"
	"github.com/freeconf/yang/parser"
	"pgregory.net/rapid"

	"verif/harness/hx"
)

// C20, cold start: whatever the library initialises on first use (package-level tables, shared type objects) is
// initialised here by several goroutines at once. Only the first case a process evaluates is cold; the driver runs
// this check first in every shard process and replays its witnesses in a process of their own.

type c20ColdCase struct {
	Files   []int `json:"files"`   // indices into the corpus (one per goroutine), -1 = the synthetic module below
	Procs   int   `json:"procs"`
}

var c20Warm atomic.Bool

const c20ColdYang = `module cold { namespace "urn:cold"; prefix cold;
 feature f1; identity idb; identity ida { base idb; }
 typedef td { type enumeration { enum a; enum b { value 7; } } default a; }
 extension ext1 { argument x; }
 container c { cold:ext1 "v"; anydata blob; anyxml legacy;
  leaf e { type td; } leaf u { type union { type int8; type string; } } leaf r { type leafref { path "../e"; } }
  leaf i { type identityref { base idb; } } leaf b { type bits { bit b0; bit b1; } } leaf d { type decimal64 { fraction-digits 2; range "0.5..9.5"; } }
  leaf s { if-feature "f1 or not f1"; type string { pattern "[a-z]+"; length "1..5"; } must "../e = 'a'"; when "../u"; }
  choice ch { case one { leaf o { type empty; } } leaf two { type binary; } }
  list l { key k; unique "v"; leaf k { type uint64; } leaf v { type int64; } action act { input { leaf in { type string; } } } }
  notification n { leaf x { type boolean; } } }
 rpc op { output { anydata out; } } }`

func c20ColdGen(t *rapid.T) c20ColdCase {
	loadCorpus()
	c := c20ColdCase{Procs: rapid.SampledFrom([]int{2, 4, 16}).Draw(t, "procs")}
	n := rapid.IntRange(2, 8).Draw(t, "workers")
	for i := 0; i < n; i++ {
		if rapid.Bool().Draw(t, "synthetic") {
			c.Files = append(c.Files, -1)
		} else {
			c.Files = append(c.Files, rapid.IntRange(0, len(corpusFiles)-1).Draw(t, "file"))
		}
	}
	return c
}

func c20ColdRun(c c20ColdCase, o *hx.Obs) {
	loadCorpus()
	cold := !c20Warm.Swap(true)
	o.Class("cold=%v", cold)
	if cold {
		o.NonTrivial()
	}
	results := make([]string, len(c.Files))
	var wg sync.WaitGroup
	start := make(chan struct{})
	for i, f := range c.Files {
		wg.Add(1)
		go func(i, f int) {
			defer wg.Done()
			defer func() {
				if r := recover(); r != nil {
					results[i] = fmt.Sprintf("PANIC: %v", r)
				}
			}()
			<-start
			if f < 0 || f >= len(corpusFiles) {
				m, err := parser.LoadModuleFromString(nil, c20ColdYang)
				if err != nil {
					results[i] = "ERR: " + err.Error()
					return
				}
				// first use of the data layer as well
				data := map[string]interface{}{"c": map[string]interface{}{"e": "b", "u": "x", "blob": map[string]interface{}{"p": 1}, "two": "aGk=",
					"l": []map[string]interface{}{{"k": uint64(18446744073709551615), "v": int64(-1)}}}}
				js, err := nodeutil.WriteJSON(node.NewBrowser(m, &nodeutil.Node{Object: data}).Root())
				results[i] = fmt.Sprintf("%s %v", js, err)
				return
			}
			cf := corpusFiles[f]
			_, err := parser.LoadModuleFromString(corpusOpener(cf.Dir, nil), cf.Text)
			results[i] = fmt.Sprintf("loaded err=%v", err != nil)
		}(i, f)
	}
	close(start)
	wg.Wait()
	// the same loads once more, sequentially: same outcome
	for i, f := range c.Files {
		if len(results[i]) >= 6 && results[i][:6] == "PANIC:" {
			o.Failf("cold|panic", "goroutine %d panicked on first use of the library: %s", i, results[i])
			return
		}
		if f < 0 {
			m, err := parser.LoadModuleFromString(nil, c20ColdYang)
			if err != nil {
				o.Failf("harness|schema-rejected", "%v", err)
				return
			}
			data := map[string]interface{}{"c": map[string]interface{}{"e": "b", "u": "x", "blob": map[string]interface{}{"p": 1}, "two": "aGk=",
				"l": []map[string]interface{}{{"k": uint64(18446744073709551615), "v": int64(-1)}}}}
			js, err := nodeutil.WriteJSON(node.NewBrowser(m, &nodeutil.Node{Object: data}).Root())
			if want := fmt.Sprintf("%s %v", js, err); want != results[i] {
				o.Failf("cold|divergence", "first use under concurrency gave %q, the same call afterwards %q", results[i], want)
				return
			}
		}
	}
}

var c20Cold = hx.Register(&hx.Check[c20ColdCase]{
	Name:    "c20-cold-start",
	Journal: true,
	Rule:    "2-8 goroutines each load a module (the repository's test modules, or a synthetic module with anydata, anyxml, every leaf type, features, identities, extensions, actions, notifications) and read data through it, as the very first use of the library in the process, under the race detector; non-trivial = the case was the first the process evaluated (cold)",
	Gen:     c20ColdGen,
	Run:     c20ColdRun,
})
