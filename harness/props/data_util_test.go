package props

import (
	"bytes"
	"encoding/json"
	"fmt"
	"strings"
	"sync"

	"github.com/freeconf/yang/meta"
	"github.com/freeconf/yang/node"
	"github.com/freeconf/yang/nodeutil"
	"github.com/freeconf/yang/parser"
	"github.com/freeconf/yang/source"

	"verif/harness/dm"
	"verif/harness/hx"
)

var dmModCache sync.Map

// loadDM compiles a generated module (cached by text: compiled modules are immutable by C20's claim;
// a fresh load per case would only cost time).
func loadDM(m *dm.Module) (*meta.Module, error) {
	text := m.Yang()
	files := m.Files()
	key := text
	for _, f := range sortedKeys(files) {
		key += "\x00" + files[f]
	}
	if c, ok := dmModCache.Load(key); ok {
		return c.(*meta.Module), nil
	}
	var opener source.Opener
	if len(files) > 0 {
		opener = memOpener(files)
	}
	mm, err := parser.LoadModuleFromString(opener, text)
	if err != nil {
		return nil, err
	}
	dmModCache.Store(key, mm)
	return mm, nil
}

// srcNode builds a source node of the given kind holding tree t.
func srcNode(kind string, m *dm.Module, t dm.Tree, st dm.JSONStyle) (node.Node, error) {
	switch kind {
	case "rs":
		return dm.NewRS(m.Root(), dm.CloneTree(t)), nil
	case "json":
		return nodeutil.ReadJSON(dm.ToJSON(m.Name, m.Root(), t, st))
	case "xml":
		doc := &dm.XNode{Name: m.Name, Children: dm.TreeToXML(m.Root(), t)}
		var b bytes.Buffer
		doc.Render(&b, "urn:"+m.Name)
		return nodeutil.ReadXMLDoc(strings.NewReader(b.String()))
	case "reflect-map", "reflect-slice", "node-map", "node-slice", "reflect-struct", "node-struct":
		st, err := dm.NewStore(kind, m.Root(), t)
		if err != nil {
			return nil, err
		}
		return st.Node(), nil
	}
	return nil, fmt.Errorf("source kind %s", kind)
}

// clauseSig builds "prefix|clause" from the first diff line.
func diffSig(prefix string, diffs []string) string {
	return prefix + "|" + dm.Clause(diffs[0])
}

func joinMax(l []string, n int) string {
	if len(l) > n {
		l = append(append([]string{}, l[:n]...), fmt.Sprintf("… %d more", len(l)-n))
	}
	return strings.Join(l, "\n")
}

var _ = hx.Root

func jsonOf(v interface{}) string {
	b, _ := json.Marshal(v)
	return string(b)
}

// schemaClasses records which of the generator's layout and naming features the module of a case has.
func schemaClasses(o *hx.Obs, m *dm.Module) {
	var aug, short, reused, leafref, union bool
	names := map[string]bool{}
	var walk func(n *dm.Node)
	walk = func(n *dm.Node) {
		aug = aug || n.Aug
		short = short || n.Short
		if n.Kind != "choice" && n.Kind != "case" {
			reused = reused || names[n.Name]
			names[n.Name] = true
		}
		if n.Type != nil {
			leafref = leafref || n.Type.Base == "leafref"
			union = union || n.Type.Base == "union"
		}
		for _, c := range n.Children {
			walk(c)
		}
	}
	for _, n := range m.Top {
		walk(n)
	}
	for name, on := range map[string]bool{"augment": aug, "shorthand case": short, "a reused name": reused, "leafref": leafref, "union": union, "identities in a submodule": m.SubIdents > 0, "top-level nodes in a submodule": len(m.Top) > 0 && m.Top[len(m.Top)-1].Sub} {
		if on {
			o.Class("schema has: %s", name)
		}
	}
}
