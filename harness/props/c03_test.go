package props

import (
	"errors"
	"fmt"
	"net/url"
	"strings"
	"testing"

	"github.com/freeconf/yang/fc"
	"github.com/freeconf/yang/meta"
	"github.com/freeconf/yang/node"
	"github.com/freeconf/yang/nodeutil"
	"pgregory.net/rapid"

	"verif/harness/dm"
	"verif/harness/hx"
)

// ---- C03: upsert / insert / update are keyed deep merges ------------------------------

type c03Case struct {
	Module   *dm.Module  `json:"module"`
	Target   dm.Tree     `json:"target"`
	Source   dm.Tree     `json:"source"` // content for the entry node
	Entry    dm.Path     `json:"entry"`  // nil = root
	Strategy dm.Strategy `json:"strategy"`
	Into     bool        `json:"into"` // XInto from the source side instead of XFrom on the target
	SrcKind  string      `json:"src"`
	DstKind  string      `json:"dst"`
}

// findPath renders a harness path as the RESTCONF-style string Find expects.
func findPath(p dm.Path) string {
	var parts []string
	for _, s := range p {
		if s.Key == nil {
			parts = append(parts, s.Name)
			continue
		}
		ks := make([]string, len(s.Key))
		for i, k := range s.Key {
			ks[i] = url.PathEscape(k)
			ks[i] = strings.ReplaceAll(ks[i], ",", "%2C")
			ks[i] = strings.ReplaceAll(ks[i], "=", "%3D")
		}
		parts = append(parts, s.Name+"="+strings.Join(ks, ","))
	}
	return strings.Join(parts, "/")
}

// c03SourceNode builds the source node for the entry kind.
func c03SourceNode(kind string, mod *dm.Module, entryNode *dm.Node, parentNode *dm.Node, isListNode bool, content dm.Tree, entries []interface{}) (node.Node, error) {
	switch kind {
	case "rs":
		if isListNode {
			return dm.NewRSList(parentNode, entryNode, dm.Tree{entryNode.Name: dm.Clone(entries)}), nil
		}
		return dm.NewRS(entryNode, dm.CloneTree(content)), nil
	case "json":
		if isListNode {
			return nodeutil.ReadJSON(dm.ToJSON("", parentNode, dm.Tree{entryNode.Name: entries}, dm.JSONStyle{Num64AsString: true}))
		}
		return nodeutil.ReadJSON(dm.ToJSON("", entryNode, content, dm.JSONStyle{Num64AsString: true}))
	}
	return nil, fmt.Errorf("source kind %s", kind)
}

// c03StoreSource holds the source content in a store of the given kind (a whole tree in which only the way to the entry
// and the content exist) and returns the node the library itself finds at the entry.
func c03StoreSource(mm *meta.Module, root *dm.Node, kind string, entry dm.Path, isListNode bool, content dm.Tree, entries []interface{}) (node.Node, error) {
	whole := dm.Tree{}
	cur, n := whole, root
	for i, seg := range entry {
		d := n.Child(seg.Name)
		if d == nil {
			return nil, fmt.Errorf("no %s in %s", seg.Name, n.Name)
		}
		last := i == len(entry)-1
		switch {
		case last && isListNode:
			cur[seg.Name] = dm.Clone(entries)
		case last && d.Kind == "list":
			cur[seg.Name] = []interface{}{dm.CloneTree(content)}
		case last:
			cur[seg.Name] = dm.CloneTree(content)
		case d.Kind == "list":
			e := dm.Tree{}
			for j, k := range d.Keys {
				e[k] = seg.Key[j]
			}
			cur[seg.Name] = []interface{}{e}
			cur = e
		default:
			sub := dm.Tree{}
			cur[seg.Name] = sub
			cur = sub
		}
		n = d
	}
	if len(entry) == 0 {
		whole = dm.CloneTree(content)
	}
	st, err := dm.NewStore(kind, root, whole)
	if err != nil {
		return nil, err
	}
	sel := node.NewBrowser(mm, st.Node()).Root()
	if len(entry) > 0 {
		if sel, err = sel.Find(findPath(entry)); err != nil || sel == nil {
			return nil, fmt.Errorf("source store %s: Find(%s): sel=%v err=%v", kind, findPath(entry), sel != nil, err)
		}
	}
	return sel.Node, nil
}

func choiceConflict(n *dm.Node, target, src dm.Tree) bool {
	for _, ch := range n.Choices() {
		sc := dm.SelectedCase(ch, src)
		tc := dm.SelectedCase(ch, target)
		if sc != nil && tc != nil && sc != tc {
			return true
		}
	}
	for _, d := range n.DataChildren() {
		switch d.Kind {
		case "container":
			st, ok1 := src[d.Name].(dm.Tree)
			tt, ok2 := target[d.Name].(dm.Tree)
			if ok1 && ok2 && choiceConflict(d, tt, st) {
				return true
			}
		case "list":
			sl, _ := src[d.Name].([]interface{})
			tl, _ := target[d.Name].([]interface{})
			for _, se := range sl {
				if i := dm.FindEntry(d, tl, dm.KeyOf(d, se.(dm.Tree))); i >= 0 && choiceConflict(d, tl[i].(dm.Tree), se.(dm.Tree)) {
					return true
				}
			}
		}
	}
	return false
}

func c03Run(c c03Case, o *hx.Obs) {
	root := c.Module.Root()
	schemaClasses(o, c.Module)
	mm, err := loadDM(c.Module)
	if err != nil {
		o.Failf("harness|schema-rejected", "generated schema does not load: %v\n%s", err, c.Module.Yang())
		return
	}
	// locate the entry node in the model
	entryNode, _, ok := dm.Resolve(root, c.Target, c.Entry)
	if !ok {
		return // entry not present in the target (shrinking artefact)
	}
	entryKind := "root"
	isListNode := false
	var parentNode *dm.Node = root
	if len(c.Entry) > 0 {
		parentNode, _, _ = dm.Resolve(root, c.Target, c.Entry[:len(c.Entry)-1])
		switch {
		case entryNode.Kind == "list" && c.Entry[len(c.Entry)-1].Key == nil:
			entryKind, isListNode = "list", true
		case entryNode.Kind == "list":
			entryKind = "entry"
		default:
			entryKind = "container"
		}
	}
	o.Class("strategy=%s", c.Strategy)
	o.Class("entry=%s", entryKind)
	o.Class("stores=%s>%s", c.SrcKind, c.DstKind)
	// expected result
	want := dm.CloneTree(c.Target)
	_, wantEntryVal, _ := dm.Resolve(root, want, c.Entry)
	var merr *dm.MergeErr
	var srcEntries []interface{}
	if isListNode {
		srcEntries, _ = c.Source[entryNode.Name].([]interface{})
		if srcEntries == nil {
			srcEntries = []interface{}{}
		}
		_, holder, _ := dm.ParentOf(root, want, c.Entry)
		tl, _ := wantEntryVal.([]interface{})
		if choiceConflict(parentNode, dm.Tree{entryNode.Name: tl}, dm.Tree{entryNode.Name: srcEntries}) && c.Strategy != dm.Upsert {
			o.Excluded("case switch with insert/update")
			return
		}
		nl, e := dm.MergeList(entryNode, tl, srcEntries, c.Strategy, "")
		holder[entryNode.Name] = nl
		merr = e
	} else {
		tt, _ := wantEntryVal.(dm.Tree)
		if choiceConflict(entryNode, tt, c.Source) && c.Strategy != dm.Upsert {
			o.Excluded("case switch with insert/update")
			return
		}
		merr = dm.MergeContent(entryNode, tt, c.Source, c.Strategy, false, "")
	}
	if merr != nil {
		o.Class("expect=%s", merr.Class)
		o.NonTrivial()
	} else {
		o.Class("expect=ok")
		if len(dm.Diff(root, c.Target, want, dm.DiffOpts{}, "")) > 0 && len(c.Target) > 0 {
			o.NonTrivial()
		}
	}

	store, err := dm.NewStore(c.DstKind, root, c.Target)
	if err != nil {
		o.Failf("harness|store", "store %s: %v", c.DstKind, err)
		return
	}
	sigBase := fmt.Sprintf("merge|%s|%s|", c.Strategy, entryKind)
	tail := "|" + c.DstKind
	if c.SrcKind != "rs" {
		tail += "<" + c.SrcKind
	}
	var src node.Node
	// (a struct field cannot be unset, so a struct-backed source would state a zero for every leaf: not used as a source)
	if c.SrcKind == "same-store" && c.DstKind != "rs" && !strings.HasSuffix(c.DstKind, "-struct") {
		src, err = c03StoreSource(mm, root, c.DstKind, c.Entry, isListNode, c.Source, srcEntries)
	} else if c.SrcKind == "same-store" {
		src, err = c03SourceNode("rs", c.Module, entryNode, parentNode, isListNode, c.Source, srcEntries)
	} else {
		src, err = c03SourceNode(c.SrcKind, c.Module, entryNode, parentNode, isListNode, c.Source, srcEntries)
	}
	if err != nil {
		o.Failf(sigBase+"source-rejected"+tail, "source: %v", err)
		return
	}
	b := node.NewBrowser(mm, store.Node())
	var sel *node.Selection
	var ferr error
	if o.Guard("Find", func() {
		sel = b.Root()
		if len(c.Entry) > 0 {
			sel, ferr = sel.Find(findPath(c.Entry))
		}
	}) {
		return
	}
	if ferr != nil || sel == nil {
		o.Failf(sigBase+"entry-not-found"+tail, "Find(%q) on the %s target: sel=%v err=%v", findPath(c.Entry), c.DstKind, sel, ferr)
		return
	}
	var xerr error
	api := map[dm.Strategy]string{dm.Upsert: "Upsert", dm.Insert: "Insert", dm.Update: "Update"}[c.Strategy]
	if o.Guard(api, func() {
		if c.Into {
			// drive the same edit from the source side: select the source, push into the target node
			ssel := sel.Split(src)
			switch c.Strategy {
			case dm.Upsert:
				xerr = ssel.UpsertInto(sel.Node)
			case dm.Insert:
				xerr = ssel.InsertInto(sel.Node)
			case dm.Update:
				xerr = ssel.UpdateInto(sel.Node)
			}
			return
		}
		switch c.Strategy {
		case dm.Upsert:
			xerr = sel.UpsertFrom(src)
		case dm.Insert:
			xerr = sel.InsertFrom(src)
		case dm.Update:
			xerr = sel.UpdateFrom(src)
		}
	}) {
		return
	}
	got, serr := store.Snapshot()
	if serr != nil {
		o.Failf(sigBase+"snapshot"+tail, "backing data of the %s store is not a conforming tree after the edit: %v", c.DstKind, serr)
		return
	}
	if merr != nil {
		if xerr == nil {
			o.Failf(sigBase+"spurious-ok("+merr.Class+")"+tail, "%s should fail with %s at %s but returned nil\ntarget %s\nsource %s", api, merr.Class, merr.Where, dm.ToJSON("", root, c.Target, dm.JSONStyle{}), short(c.Source))
			return
		}
		wantErr := fc.ConflictError
		if merr.Class == "notfound" {
			wantErr = fc.NotFoundError
		}
		if !errors.Is(xerr, wantErr) {
			o.Failf(sigBase+"errclass("+merr.Class+")"+tail, "%s should fail with %s at %s, got: %v", api, merr.Class, merr.Where, xerr)
		}
		// nothing S does not mention may change
		_, gotEntry, _ := dm.Resolve(root, got, c.Entry)
		_, t0Entry, _ := dm.Resolve(root, c.Target, c.Entry)
		if gt, isT := gotEntry.(dm.Tree); isT {
			t0 := t0Entry.(dm.Tree)
			for _, d := range entryNode.DataChildren() {
				if _, mentioned := c.Source[d.Name]; mentioned {
					continue
				}
				a, b := dm.Tree{}, dm.Tree{}
				if v, ok := t0[d.Name]; ok {
					a[d.Name] = v
				}
				if v, ok := gt[d.Name]; ok {
					b[d.Name] = v
				}
				if df := dm.Diff(entryNode, a, b, dm.DiffOpts{ListsAsSets: !store.KeepsOrder(), IgnoreEmptyList: true, ZeroIsUnset: store.ZeroIsUnset()}, ""); len(df) > 0 {
					o.Failf(sigBase+"untouched"+tail, "a path the source does not mention changed during a failed %s:\n%s", api, joinMax(df, 4))
					return
				}
			}
		}
		return
	}
	if xerr != nil {
		o.Failf(sigBase+"errclass(ok)"+tail, "%s should succeed but failed: %v\ntarget %s\nsource %s", api, xerr, dm.ToJSON("", root, c.Target, dm.JSONStyle{}), short(c.Source))
		return
	}
	if df := dm.Diff(root, want, got, dm.DiffOpts{ListsAsSets: !store.KeepsOrder(), IgnoreEmptyList: true, ZeroIsUnset: store.ZeroIsUnset()}, ""); len(df) > 0 {
		o.Failf(sigBase+dm.Clause(df[0])+tail, "%s result differs from the keyed deep merge:\n%s\ntarget %s\nsource %s", api, joinMax(df, 5), dm.ToJSON("", root, c.Target, dm.JSONStyle{}), short(c.Source))
	}
}

func short(v interface{}) string {
	s := fmt.Sprintf("%v", v)
	if t, ok := v.(dm.Tree); ok {
		s = jsonOf(t)
	}
	if len(s) > 600 {
		s = s[:600] + "…"
	}
	return s
}

func c03Gen(dstKinds, srcKinds []string, strategies []dm.Strategy) func(t *rapid.T) c03Case {
	return func(t *rapid.T) c03Case {
		o := dm.DefaultGen()
		dst := rapid.SampledFrom(dstKinds).Draw(t, "dst")
		o.Types = []string{"int8", "int32", "int64", "uint16", "uint64", "decimal64", "string", "boolean", "enumeration"}
		o.KeyTypes = []string{"string", "int32"}
		o.ConfigFalse = false
		o.Unions = false
		o.LeafLists = true
		if dst != "rs" {
			// Go maps hold entries by one key; slices (and the struct stores' slices) hold compound keys as well
			o.CompoundKeys = true
			o.Types = []string{"int8", "int32", "int64", "uint16", "uint64", "decimal64", "string", "boolean"}
			if !strings.HasSuffix(dst, "-struct") {
				// (every key type: for most of them the node keeps a list it creates in a map[interface{}]...)
				o.KeyTypes = []string{"string", "int32", "string", "int32", "int8", "int64", "uint16", "uint64", "boolean"}
				o.Types = append(o.Types, "enumeration")
			}
		}
		if strings.HasSuffix(dst, "-struct") {
			o.Choices, o.NestedChoice, o.Defaults, o.Presence = false, false, false, false
		}
		m := dm.GenModule(t, o)
		to := dm.TreeOpts{MaxEntries: 3, EasyKeys: true, EasyStrings: true, PresentPct: 75, NoEmptyStr: true}
		u := dm.GenTree(t, m.Root(), to)
		target := dm.Subsample(t, m.Root(), u, 70, 0, to)
		source := dm.Subsample(t, m.Root(), u, 60, 50, to)
		c := c03Case{Module: m, Target: target, Strategy: rapid.SampledFrom(strategies).Draw(t, "strategy"),
			Into: rapid.IntRange(0, 3).Draw(t, "into") == 0, SrcKind: rapid.SampledFrom(srcKinds).Draw(t, "src"), DstKind: dst}
		// entry point among nodes present in the target
		paths := dm.AllPaths(m.Root(), target, nil)
		if len(paths) > 0 && rapid.IntRange(0, 3).Draw(t, "nonroot") > 0 {
			c.Entry = paths[rapid.IntRange(0, len(paths)-1).Draw(t, "entry")]
		}
		// the source content for that entry: the matching part of the source sample, or fresh content
		en, _, _ := dm.Resolve(m.Root(), target, c.Entry)
		_, sv, ok := dm.Resolve(m.Root(), source, c.Entry)
		switch {
		case len(c.Entry) == 0:
			c.Source = source
			if c.Strategy == dm.Upsert && c.SrcKind != "same-store" && rapid.IntRange(0, 3).Draw(t, "repeat-key") == 0 {
				repeatAnEntry(t, m.Root(), c.Source) // the same key twice in one payload merges into one entry
			}
		case en.Kind == "list" && c.Entry[len(c.Entry)-1].Key == nil:
			l, _ := sv.([]interface{})
			if !ok || l == nil {
				l = dm.GenEntries(t, en, to)
			}
			c.Source = dm.Tree{en.Name: l}
		default:
			st, isT := sv.(dm.Tree)
			if !ok || !isT {
				st = dm.GenTree(t, en, to)
				if en.Kind == "list" {
					for i, k := range en.Keys {
						st[k] = c.Entry[len(c.Entry)-1].Key[i]
					}
				}
			}
			c.Source = st
		}
		return c
	}
}

var allStrategies = []dm.Strategy{dm.Upsert, dm.Insert, dm.Update}

var c03Merge = hx.Register(&hx.Check[c03Case]{
	Name: "c03-merge",
	Rule: "schema (containers, nested lists, leaves with defaults, leaf-lists, choices) + universe tree; target and source are independent sub-samples of the universe (source leaves redrawn with p=1/2); strategy x entry point (root, container, list, list entry present in the target) x XFrom/XInto x source store {reference, JSON reader, a store of the target's kind} x target store {reference, map-backed Reflect, map-backed Node, struct-backed Reflect, struct-backed Node}; oracle = harness keyed deep merge with conflict / not-found classes; non-trivial = an error is expected or the merge changes a non-empty target",
	Gen:  c03Gen([]string{"rs", "rs", "reflect-map", "node-map", "reflect-slice", "node-slice", "reflect-struct", "node-struct"}, []string{"rs", "json", "same-store"}, allStrategies),
	Run:  c03Run,
})

var c03Hist = hx.Register(&hx.Check[histCase]{
	Name: "c03-upsert-through-kept-selection",
	Rule: "the history machine of c18-delete-replace-history with a selection of a whole list taken first and kept while zero to two entries are added to that list and zero to two removed through other selections; then entries are upserted through the kept selection (some that are there, the ones added or removed meanwhile, one never seen), followed by 1-8 ordinary operations; on reference, map- and slice-backed Reflect and Node stores; after every step the store equals the keyed deep merge of the model; non-trivial = an upsert through the kept selection happened",
	Gen:  histGen("C03", []string{"rs", "reflect-map", "reflect-slice", "node-map", "node-slice", "node-slice"}),
	Run:  histRun("C03"),
})

func TestC03(t *testing.T) {
	s := hx.Begin(t, "C03")
	defer s.End()
	hx.Run(s, c03Merge, s.N(4000, 40000))
	hx.Run(s, c03Hist, s.N(1500, 15000))
}
