package props

import (
	"encoding/json"
	"fmt"
	"sort"
	"strings"

	"github.com/freeconf/yang/node"
	"github.com/freeconf/yang/nodeutil"
	"github.com/freeconf/yang/parser"
	"pgregory.net/rapid"

	"verif/harness/dm"
	"verif/harness/hx"
)

// C15 with augmenting modules: member names are qualified at the top level and wherever the defining module changes
// (RFC 7951 section 4), also when a choice / case lies between a node and its parent data node.

type c15QCase struct {
	Augments []string `json:"augments"` // which augments module mb applies (names below)
	Data     dm.Tree  `json:"data"`
	Start    string   `json:"start"` // "" or a path to start the write from
	Pretty   bool     `json:"pretty"`
}

const c15MaYang = `module ma { namespace "urn:ma"; prefix ma;
 identity animal; identity dog { base animal; }
 grouping g {
  container sys { leaf name { type string; } leaf pet { type identityref { base animal; } }
   container inner { leaf x { type string; } }
   choice transport { case tcp { leaf port { type int32; } } case udp { container dgram { leaf size { type int32; } } } }
   list l { key k; leaf k { type string; } leaf v { type string; } } } } }`

// each augment: yang text, and the nodes it adds as (parent data path, name, kind)
type c15Aug struct {
	Name  string
	Yang  string
	Needs string // another augment that must be applied first
}

var c15Augs = []c15Aug{
	{"sys", `augment "/sys" { leaf extra { type string; } container box { leaf in { type string; } } }`, ""},
	{"case", `augment "/sys/transport" { case tls { leaf cert { type string; } container ciphers { leaf c { type string; } } } }`, ""},
	{"in-case", `augment "/sys/transport/tcp" { leaf tcpx { type string; } }`, ""},
	{"inner", `augment "/sys/inner" { leaf ix { type string; } }`, ""},
	{"list", `augment "/sys/l" { leaf lx { type string; } container lc { leaf y { type string; } } }`, ""},
	{"box", `augment "/sys/box" { leaf deep { type string; } }`, "sys"},
	{"shorthand", `augment "/sys/transport" { leaf quic { type string; } }`, ""},
}

func c15MbYang(augs []string) string {
	var b strings.Builder
	b.WriteString("module mb { namespace \"urn:mb\"; prefix mb; import ma { prefix ma; }\n identity cat { base ma:animal; }\n uses ma:g;\n")
	for _, a := range c15Augs {
		if containsStr(augs, a.Name) {
			b.WriteString(" " + a.Yang + "\n")
		}
	}
	b.WriteString(" leaf own { type string; }\n}\n")
	return b.String()
}

// the combined data tree as a harness schema model, every node tagged (in Description) with its defining module
func c15Model(augs []string) *dm.Node {
	has := func(n string) bool { return containsStr(augs, n) }
	str := func(name, mod string) *dm.Node {
		return &dm.Node{Kind: "leaf", Name: name, Type: &dm.Type{Base: "string"}, Mod: mod}
	}
	i32 := func(name, mod string) *dm.Node {
		return &dm.Node{Kind: "leaf", Name: name, Type: &dm.Type{Base: "int32"}, Mod: mod}
	}
	inner := &dm.Node{Kind: "container", Name: "inner", Mod: "ma", Children: []*dm.Node{str("x", "ma")}}
	if has("inner") {
		inner.Children = append(inner.Children, str("ix", "mb"))
	}
	tcp := &dm.Node{Kind: "case", Name: "tcp", Children: []*dm.Node{i32("port", "ma")}}
	if has("in-case") {
		tcp.Children = append(tcp.Children, str("tcpx", "mb"))
	}
	udp := &dm.Node{Kind: "case", Name: "udp", Children: []*dm.Node{{Kind: "container", Name: "dgram", Mod: "ma", Children: []*dm.Node{i32("size", "ma")}}}}
	ch := &dm.Node{Kind: "choice", Name: "transport", Children: []*dm.Node{tcp, udp}}
	if has("case") {
		ch.Children = append(ch.Children, &dm.Node{Kind: "case", Name: "tls", Children: []*dm.Node{str("cert", "mb"),
			{Kind: "container", Name: "ciphers", Mod: "mb", Children: []*dm.Node{str("c", "mb")}}}})
	}
	if has("shorthand") {
		ch.Children = append(ch.Children, &dm.Node{Kind: "case", Name: "quic", Children: []*dm.Node{str("quic", "mb")}})
	}
	l := &dm.Node{Kind: "list", Name: "l", Keys: []string{"k"}, Mod: "ma", Children: []*dm.Node{str("k", "ma"), str("v", "ma")}}
	if has("list") {
		l.Children = append(l.Children, str("lx", "mb"), &dm.Node{Kind: "container", Name: "lc", Mod: "mb", Children: []*dm.Node{str("y", "mb")}})
	}
	// an identityref of module ma that also takes the identity module mb derives from ma's base
	pet := &dm.Node{Kind: "leaf", Name: "pet", Mod: "ma", Type: &dm.Type{Base: "identityref", IdBase: "animal", Idents: []string{"dog", "cat"}}}
	sys := &dm.Node{Kind: "container", Name: "sys", Mod: "ma", Children: []*dm.Node{str("name", "ma"), pet, inner, ch, l}}
	if has("sys") {
		box := &dm.Node{Kind: "container", Name: "box", Mod: "mb", Children: []*dm.Node{str("in", "mb")}}
		if has("box") {
			box.Children = append(box.Children, str("deep", "mb"))
		}
		sys.Children = append(sys.Children, str("extra", "mb"), box)
	}
	return &dm.Node{Kind: "module", Name: "mb", Children: []*dm.Node{sys, str("own", "mb")}}
}

func c15QGen(t *rapid.T) c15QCase {
	c := c15QCase{Pretty: rapid.Bool().Draw(t, "pretty")}
	for _, a := range c15Augs {
		if rapid.IntRange(0, 2).Draw(t, "aug-"+a.Name) > 0 && (a.Needs == "" || containsStr(c.Augments, a.Needs)) {
			c.Augments = append(c.Augments, a.Name)
		}
	}
	root := c15Model(c.Augments)
	c.Data = dm.GenTree(t, root, dm.TreeOpts{MaxEntries: 2, PresentPct: 85, EasyKeys: true, EasyStrings: true, NoEmptyStr: true})
	if _, ok := c.Data["sys"]; ok {
		c.Start = rapid.SampledFrom([]string{"", "", "sys"}).Draw(t, "start")
	}
	return c
}

func c15QRun(c c15QCase, o *hx.Obs) {
	root := c15Model(c.Augments)
	files := map[string]string{"ma.yang": c15MaYang, "mb.yang": c15MbYang(c.Augments)}
	mm, err := parser.LoadModuleFromString(memOpener(files), files["mb.yang"])
	if err != nil {
		o.Failf("harness|schema-rejected", "%v\n%s", err, files["mb.yang"])
		return
	}
	for _, a := range c.Augments {
		o.Class("augment=%s", a)
	}
	o.Class("start=%q", c.Start)
	var text string
	var werr error
	if o.Guard("JSONWtr", func() {
		sel := node.NewBrowser(mm, dm.NewRS(root, dm.CloneTree(c.Data))).Root()
		if c.Start != "" {
			var ferr error
			if sel, ferr = sel.Find(c.Start); ferr != nil || sel == nil {
				werr = fmt.Errorf("harness: start: %v", ferr)
				return
			}
		}
		text, werr = (&nodeutil.JSONWtr{Pretty: c.Pretty, QualifyNamespace: true}).JSON(sel)
	}) {
		return
	}
	if werr != nil {
		if strings.HasPrefix(werr.Error(), "harness:") {
			o.Excluded("start selection not reachable")
			return
		}
		o.Failf("jsonw|qualified|write-error", "%v", werr)
		return
	}
	var dec interface{}
	if err := json.Unmarshal([]byte(text), &dec); err != nil {
		o.Failf("jsonw|qualified|malformed", "%v\n%s", err, text)
		return
	}
	startNode, startMod := root, "" // at the top level every member is qualified
	if c.Start != "" {
		startNode = root.Child(c.Start)
		// the member names of the start node's content relate to the start node's module
		startMod = startNode.Mod
	}
	crossings := 0
	var walk func(n *dm.Node, parentMod string, v interface{}, where string) bool
	walk = func(n *dm.Node, parentMod string, v interface{}, where string) bool {
		obj, ok := v.(map[string]interface{})
		if !ok {
			o.Failf("jsonw|qualified|shape", "%s is not an object\n%s", where, text)
			return false
		}
		var names []string
		for k := range obj {
			names = append(names, k)
		}
		sort.Strings(names)
		for _, member := range names {
			bare := member
			prefix := ""
			if i := strings.IndexByte(member, ':'); i >= 0 {
				prefix, bare = member[:i], member[i+1:]
			}
			d := n.Child(bare)
			if d == nil {
				o.Failf("jsonw|qualified|unknown-member", "%s has a member %q that is no schema child\n%s", where, member, text)
				return false
			}
			mod := d.Mod
			wantPrefix := ""
			if mod != parentMod {
				wantPrefix = mod
				crossings++
			}
			if prefix != wantPrefix {
				kind := "missing"
				if wantPrefix == "" {
					kind = "superfluous"
				} else if prefix != "" {
					kind = "wrong-module"
				}
				o.Failf("jsonw|qualified|name-qualification|"+kind, "%s: member %q: node %s is defined by module %s, its parent data node by %q, so the name must be %q\n%s", where, member, bare, mod, parentMod, strings.TrimPrefix(wantPrefix+":"+bare, ":"), text)
				return false
			}
			if d.Name == "pet" {
				// RFC 7951 6.8: the identity's module is named when it is not the module of the leaf
				got, _ := obj[member].(string)
				want := map[string][]string{"dog": {"dog", "ma:dog"}, "cat": {"mb:cat"}}
				ok := false
				for label, forms := range want {
					if strings.TrimPrefix(strings.TrimPrefix(got, "ma:"), "mb:") == label {
						o.Class("identityref of the imported module holds %s", label)
						ok = containsStr(forms, got)
					}
				}
				if !ok {
					o.Failf("jsonw|qualified|identityref-module", "%s: leaf pet of module ma is written as %v (identity dog is ma's, cat is mb's)\n%s", where, obj[member], text)
					return false
				}
			}
			switch d.Kind {
			case "container":
				if !walk(d, mod, obj[member], where+"/"+bare) {
					return false
				}
			case "list":
				arr, _ := obj[member].([]interface{})
				for i, e := range arr {
					if !walk(d, mod, e, fmt.Sprintf("%s/%s[%d]", where, bare, i)) {
						return false
					}
				}
			}
		}
		return true
	}
	if c.Start != "" {
		// {"<name of start>": {...}} or just the content, depending on the writer's convention for non-root starts
		if obj, ok := dec.(map[string]interface{}); ok && len(obj) == 1 {
			for k, v := range obj {
				if strings.TrimPrefix(k, "ma:") == c.Start || strings.TrimPrefix(k, "mb:") == c.Start {
					dec = v
				}
			}
		}
	}
	if !walk(startNode, startMod, dec, "/"+c.Start) {
		return
	}
	if crossings >= 3 {
		o.NonTrivial()
	}
}

var c15Qualified = hx.Register(&hx.Check[c15QCase]{
	Name: "c15-qualified-augments",
	Rule: "module mb uses a grouping of module ma (container with a nested container, a choice with cases, a keyed list) and applies a random subset of seven augments to it (into the container, into the choice as a case and in shorthand form, into a case, into the nested container, into the list, into an augment's own container); generated data; written with QualifyNamespace from the root and from the container: a member name carries a module prefix exactly when the node's defining module differs from that of its parent data node (always at the top level), choice and case not counting as parents; non-trivial = at least three module crossings in the document",
	Gen:  c15QGen,
	Run:  c15QRun,
})
