package props

// C02, typedefs "imported by prefix": a prefix means what the file it is written in says it means. A module and the
// submodules it includes may use the same prefix for different modules.

import (
	"fmt"
	"sort"
	"strings"

	"github.com/freeconf/yang/meta"
	"github.com/freeconf/yang/parser"
	"pgregory.net/rapid"

	"verif/harness/hx"
)

type c02PrefixCase struct {
	// Imports[f] = for file f (0 = the module, 1.. = its submodules) the libraries it imports: prefix -> library index
	Imports []map[string]int `json:"imports"`
	// SubOfSub: submodule 2 is included by submodule 1 rather than by the module
	SubOfSub bool `json:"subOfSub,omitempty"`
}

var c02LibBases = []string{"string", "int32", "boolean", "uint8"}

// prefixes the files choose from; two of them are also the names of libraries (a prefix may be any identifier)
var c02Prefixes3 = []string{"p", "q", "lib0", "lib1"}

func (c c02PrefixCase) files() (string, map[string]string, map[string]string) {
	files := map[string]string{}
	for i, b := range c02LibBases {
		files[fmt.Sprintf("lib%d.yang", i)] = fmt.Sprintf("module lib%d { namespace \"urn:lib%d\"; prefix l%d; typedef tx { type %s; } }", i, i, i, b)
	}
	want := map[string]string{}
	body := func(f int) string {
		var b strings.Builder
		var ps []string
		for p := range c.Imports[f] {
			ps = append(ps, p)
		}
		sort.Strings(ps)
		for _, p := range ps {
			fmt.Fprintf(&b, " import lib%d { prefix %s; }", c.Imports[f][p], p)
		}
		return b.String()
	}
	leaves := func(f int) string {
		var b strings.Builder
		var ps []string
		for p := range c.Imports[f] {
			ps = append(ps, p)
		}
		sort.Strings(ps)
		for _, p := range ps {
			name := fmt.Sprintf("f%d-%s", f, p)
			fmt.Fprintf(&b, " leaf %s { type %s:tx; }", name, p)
			want[name] = c02LibBases[c.Imports[f][p]]
		}
		return b.String()
	}
	main := "module main { namespace \"urn:main\"; prefix m;" + body(0)
	for f := 1; f < len(c.Imports); f++ {
		inc := ""
		if f == 1 && c.SubOfSub && len(c.Imports) > 2 {
			inc = " include sub2;"
		}
		files[fmt.Sprintf("sub%d.yang", f)] = fmt.Sprintf("submodule sub%d { belongs-to main { prefix m; }%s%s%s }", f, body(f), inc, leaves(f))
		if !(f == 2 && c.SubOfSub) {
			main += fmt.Sprintf(" include sub%d;", f)
		}
	}
	main += leaves(0) + " }"
	return main, files, want
}

var c02Prefixes = hx.Register(&hx.Check[c02PrefixCase]{
	Name: "c02-prefix-per-file",
	Rule: "a module and one or two submodules (the second included by the module or by the first), each importing one to three of four libraries under prefixes drawn from {p, q, lib0, lib1} (two of them are names of libraries as well), so that files use the same prefix for different libraries; every library defines typedef tx with another base; every file has a leaf of type <prefix>:tx per import; loaded three times: each leaf has the base of tx in the library that its own file's import binds the prefix to, every time; non-trivial = two files bind one prefix to different libraries",
	Gen: func(t *rapid.T) c02PrefixCase {
		var c c02PrefixCase
		nf := rapid.IntRange(2, 3).Draw(t, "files")
		for f := 0; f < nf; f++ {
			imp := map[string]int{}
			for _, p := range c02Prefixes3 {
				if rapid.IntRange(0, 2).Draw(t, fmt.Sprintf("f%d-%s?", f, p)) > 0 {
					imp[p] = rapid.IntRange(0, len(c02LibBases)-1).Draw(t, fmt.Sprintf("f%d-%s", f, p))
				}
			}
			// a library is imported once per file
			seen := map[int]bool{}
			for _, p := range c02Prefixes3 {
				if l, ok := imp[p]; ok {
					if seen[l] {
						delete(imp, p)
					}
					seen[l] = true
				}
			}
			if len(imp) == 0 {
				imp["p"] = rapid.IntRange(0, len(c02LibBases)-1).Draw(t, fmt.Sprintf("f%d-only", f))
			}
			c.Imports = append(c.Imports, imp)
		}
		c.SubOfSub = nf == 3 && rapid.Bool().Draw(t, "sub-of-sub")
		return c
	},
	Run: func(c c02PrefixCase, o *hx.Obs) {
		main, files, want := c.files()
		clash := false
		for i := range c.Imports {
			for j := i + 1; j < len(c.Imports); j++ {
				for p, l := range c.Imports[i] {
					if l2, ok := c.Imports[j][p]; ok && l2 != l {
						clash = true
					}
				}
			}
		}
		o.Class("files=%d", len(c.Imports))
		if clash {
			o.Class("two files bind one prefix to different libraries")
			o.NonTrivial()
		}
		for round := 0; round < 3; round++ {
			var m *meta.Module
			var err error
			if o.Guard("LoadModule", func() { m, err = parser.LoadModuleFromString(memOpener(files), main) }) {
				return
			}
			if err != nil {
				o.Failf("prefix-per-file|load-error", "load %d failed: %v\n%s\n%v", round, err, main, files)
				return
			}
			for name, base := range want {
				l, _ := findDef(m, name).(*meta.Leaf)
				if l == nil {
					o.Failf("prefix-per-file|leaf-missing", "load %d: leaf %s is not in the module\n%s\n%v", round, name, main, files)
					return
				}
				if got := l.Type().Format().String(); got != base {
					o.Failf("prefix-per-file|wrong-module", "load %d: leaf %s has base %s, the import of its own file binds its prefix to a library whose tx is %s\n%s\n%v", round, name, got, base, main, files)
					return
				}
			}
		}
	},
})
