package props

import (
	"encoding/json"
	"encoding/base64"
	"fmt"
	"math"
	"math/big"
	"regexp"
	"strconv"
	"strings"
	"testing"

	"github.com/freeconf/yang/val"
	"pgregory.net/rapid"

	"verif/harness/hx"
)

// ---- C10: conversion is exact or fails -------------------------------------

// A source value: Go kind + textual form from which the Go value is rebuilt.
type srcVal struct {
	Kind string `json:"kind"`
	Text string `json:"text"`
}

// named-*: Go types declared over an integer kind (type Level int16, time.Duration, type Counter uint64): callers pass
// them as they pass the built-in kinds
var srcIntKinds = []string{"int", "int8", "int16", "int32", "int64", "uint", "uint8", "uint16", "uint32", "uint64", "named-int16", "named-int64", "named-uint8", "named-uint64"}

type namedI16 int16
type namedU8 uint8
type namedU64 uint64
type namedI64 int64 // (not time.Duration: its String method makes what text it denotes a matter of taste)
var srcKinds = append(append([]string{}, srcIntKinds...), "float32", "float64", "string", "bool")

func kindRange(kind string) (min, max *big.Int) {
	kind = strings.TrimPrefix(kind, "named-")
	switch kind {
	case "int", "int64":
		return bi("-9223372036854775808"), bi("9223372036854775807")
	case "uint", "uint64":
		return bi("0"), bi("18446744073709551615")
	}
	it := intTypeByName(kind)
	return it.min, it.max
}

// goValue rebuilds the Go value a caller would pass.
func (s srcVal) goValue() (interface{}, bool) {
	switch s.Kind {
	case "string":
		return s.Text, true
	case "bool":
		return s.Text == "true", true
	case "float64":
		f, err := strconv.ParseFloat(s.Text, 64)
		return f, err == nil
	case "float32":
		f, err := strconv.ParseFloat(s.Text, 32)
		return float32(f), err == nil
	case "json-number":
		// what a JSON document read with UseNumber hands over
		return json.Number(s.Text), true
	}
	b, ok := new(big.Int).SetString(s.Text, 10)
	if !ok {
		return nil, false
	}
	min, max := kindRange(s.Kind)
	if b.Cmp(min) < 0 || b.Cmp(max) > 0 {
		return nil, false
	}
	switch s.Kind {
	case "int":
		return int(b.Int64()), true
	case "int8":
		return int8(b.Int64()), true
	case "int16":
		return int16(b.Int64()), true
	case "int32":
		return int32(b.Int64()), true
	case "int64":
		return b.Int64(), true
	case "uint":
		return uint(b.Uint64()), true
	case "uint8":
		return uint8(b.Uint64()), true
	case "uint16":
		return uint16(b.Uint64()), true
	case "uint32":
		return uint32(b.Uint64()), true
	case "uint64":
		return b.Uint64(), true
	case "named-int16":
		return namedI16(b.Int64()), true
	case "named-int64":
		return namedI64(b.Int64()), true
	case "named-uint8":
		return namedU8(b.Uint64()), true
	case "named-uint64":
		return namedU64(b.Uint64()), true
	}
	return nil, false
}

var strictNum = regexp.MustCompile(`^[+-]?[0-9]+(\.[0-9]+)?([eE][+-]?[0-9]+)?$`)

// number returns the exact number the source denotes (nil if it denotes none).
func (s srcVal) number() *big.Rat {
	switch s.Kind {
	case "bool":
		return nil
	case "string":
		if !strictNum.MatchString(s.Text) {
			return nil
		}
		if i := strings.IndexAny(s.Text, "eE"); i >= 0 {
			if e, err := strconv.Atoi(s.Text[i+1:]); err != nil || e > 400 || e < -400 {
				return nil
			}
		}
		r, ok := new(big.Rat).SetString(s.Text)
		if !ok {
			return nil
		}
		return r
	case "float64", "float32":
		v, _ := s.goValue()
		var f float64
		if s.Kind == "float32" {
			f = float64(v.(float32))
		} else {
			f = v.(float64)
		}
		if math.IsInf(f, 0) || math.IsNaN(f) {
			return nil
		}
		return new(big.Rat).SetFloat64(f)
	}
	b, _ := new(big.Int).SetString(s.Text, 10)
	return new(big.Rat).SetInt(b)
}

var c10NumBoundaries = func() []string {
	var out []string
	seen := map[string]bool{}
	add := func(b *big.Int) {
		if !seen[b.String()] {
			seen[b.String()] = true
			out = append(out, b.String())
		}
	}
	one := big.NewInt(1)
	for _, it := range intTypes {
		for _, b := range []*big.Int{it.min, it.max} {
			add(b)
			add(new(big.Int).Add(b, one))
			add(new(big.Int).Sub(b, one))
		}
	}
	for _, sh := range []uint{31, 32, 53, 63, 64} {
		p := new(big.Int).Lsh(one, sh)
		for _, b := range []*big.Int{p, new(big.Int).Neg(p)} {
			add(b)
			add(new(big.Int).Add(b, one))
			add(new(big.Int).Sub(b, one))
		}
	}
	for _, v := range []int64{0, 1, -1, 2, -2, 10, 100, 200, -100, -200, 1000, 40000, -40000, 70000, 3000000000, -3000000000} {
		add(big.NewInt(v))
	}
	return out
}()

var c10FloatBoundaries = []string{"0", "-0", "0.5", "-0.5", "1.5", "3.7", "-3.7", "0.1", "127.5", "127.9", "-128.5", "255.5", "1e-9",
	"9007199254740992", "9007199254740993", "9007199254740994", "9.223372036854775807e18", "9223372036854775808", "-9223372036854775808", "-9223372036854777856", "1.8446744073709552e19", "1e19", "1e20", "-1e20", "1e300", "-1",
	"128", "-129", "256", "32768", "65536", "2147483648", "-2147483649", "4294967296", "4294967295", "2147483647", "123456789.125", "NaN", "+Inf", "-Inf"}

var c10StringBoundaries = []string{"", " ", "0", "1", "-1", "+1", " 1", "1 ", "01", "-0", "127", "128", "-128", "-129", "255", "256", "32767", "32768", "65535", "65536",
	"2147483647", "2147483648", "-2147483648", "-2147483649", "4294967295", "4294967296", "9223372036854775807", "9223372036854775808", "-9223372036854775808", "-9223372036854775809",
	"18446744073709551615", "18446744073709551616", "1.0", "1.5", "-1.5", "3.7", "1e3", "1E3", "1e-3", "0x10", "0b1", "0o7", "1_000", "12abc", "abc", "true", "false", "yes", "no", "np", "on", "off", "TRUE", "True", "1/2", "inf", "Inf", "NaN", "-inf", "٣", "１２",
	"99999999999999999999999999", "0.1", "0.30000000000000004", "92233720368547758.07", "YQ==", "YWJj", "!!!notbase64", "a b", "é", "\x00"}

var c10ScalarTargets = []val.Format{val.FmtInt8, val.FmtInt16, val.FmtInt32, val.FmtInt64, val.FmtUInt8, val.FmtUInt16, val.FmtUInt32, val.FmtUInt64,
	val.FmtDecimal64, val.FmtBool, val.FmtString, val.FmtBinary, val.FmtEmpty}

func fmtByName(n string) val.Format {
	list := strings.HasSuffix(n, "-list")
	base := strings.TrimSuffix(n, "-list")
	f, ok := val.TypeAsFormat(base)
	if !ok {
		panic("format " + n)
	}
	if list {
		return f.List()
	}
	return f
}

func fmtName(f val.Format) string { return f.String() }

// valueNumber: exact number a typed val denotes, through Value() only.
func valueNumber(v interface{}) (*big.Rat, bool) {
	switch x := v.(type) {
	case int8:
		return new(big.Rat).SetInt64(int64(x)), true
	case int16:
		return new(big.Rat).SetInt64(int64(x)), true
	case int32:
		return new(big.Rat).SetInt64(int64(x)), true
	case int:
		return new(big.Rat).SetInt64(int64(x)), true
	case int64:
		return new(big.Rat).SetInt64(x), true
	case uint8:
		return new(big.Rat).SetInt(new(big.Int).SetUint64(uint64(x))), true
	case uint16:
		return new(big.Rat).SetInt(new(big.Int).SetUint64(uint64(x))), true
	case uint32:
		return new(big.Rat).SetInt(new(big.Int).SetUint64(uint64(x))), true
	case uint:
		return new(big.Rat).SetInt(new(big.Int).SetUint64(uint64(x))), true
	case uint64:
		return new(big.Rat).SetInt(new(big.Int).SetUint64(x)), true
	case float64:
		if math.IsNaN(x) || math.IsInf(x, 0) {
			return nil, false
		}
		return new(big.Rat).SetFloat64(x), true
	}
	return nil, false
}

func isIntFormat(f val.Format) bool {
	s := f.Single()
	return (s >= val.FmtInt8 && s <= val.FmtInt64) || (s >= val.FmtUInt8 && s <= val.FmtUInt64)
}

func boolDenotes(s string) (bool, bool) {
	switch s {
	case "true", "1", "yes":
		return true, true
	case "false", "0", "no":
		return false, true
	}
	return false, false
}

// checkScalar verifies one successful scalar conversion result against the source.
// It returns a failure class ("" = fine) and a message.
func c10Judge(target val.Format, src srcVal, got val.Value) (class string, msg string) {
	if got == nil {
		return "nil-value", "nil value without error"
	}
	if got.Format() != target {
		return "wrong-format", fmt.Sprintf("format %s want %s", got.Format(), target)
	}
	num := src.number()
	switch {
	case isIntFormat(target) || target == val.FmtDecimal64:
		gn, ok := valueNumber(got.Value())
		if !ok {
			if target == val.FmtDecimal64 && num == nil {
				return "", "" // NaN/Inf in, NaN/Inf out: not a number either way, nothing asserted
			}
			if src.Kind == "string" || src.Kind == "float64" || src.Kind == "float32" {
				return "nonsense-number", fmt.Sprintf("result %v is not a number", got.Value())
			}
			return "wrong-value", fmt.Sprintf("Value() is %T", got.Value())
		}
		if num == nil {
			if src.Kind == "string" && !strictNum.MatchString(src.Text) {
				// a text outside the strict decimal syntax: no denotation is asserted
				return "", ""
			}
			if target == val.FmtDecimal64 {
				return "", "" // NaN/Inf sources: no number is denoted, nothing asserted
			}
			return "nonsense-number", fmt.Sprintf("source denotes no number but result is %s", gn.RatString())
		}
		if target == val.FmtDecimal64 {
			// decimal64 is represented as float64: "same number" = nearest float64 (DESIGN 4.2)
			f, _ := num.Float64()
			want := new(big.Rat).SetFloat64(f)
			if want == nil || gn.Cmp(want) != 0 {
				return "precision", fmt.Sprintf("got %s want float64(%s)", gn.RatString(), num.RatString())
			}
			return "", ""
		}
		if gn.Cmp(num) != 0 {
			cl := "wrong-value"
			it := intTypeByName(fmtName(target))
			switch {
			case !num.IsInt():
				cl = "truncates"
			case num.Sign() < 0 && it.min.Sign() == 0:
				cl = "neg-to-unsigned"
			case num.Num().Cmp(it.min) < 0 || num.Num().Cmp(it.max) > 0:
				cl = "wraps"
			case src.Kind == "float64" || src.Kind == "float32":
				cl = "precision"
			}
			return cl, fmt.Sprintf("got %s want %s", gn.RatString(), num.RatString())
		}
		// read back through String()
		if isIntFormat(target) && got.String() != num.Num().String() {
			return "readback", fmt.Sprintf("String()=%q want %q", got.String(), num.Num().String())
		}
	case target == val.FmtBool:
		b, ok := got.Value().(bool)
		if !ok {
			return "wrong-value", "Value() not bool"
		}
		switch src.Kind {
		case "bool":
			if b != (src.Text == "true") {
				return "wrong-value", fmt.Sprintf("got %v", b)
			}
		case "string":
			want, denotes := boolDenotes(src.Text)
			if !denotes {
				return "nonsense-string", fmt.Sprintf("%q denotes no truth value but converted to %v", src.Text, b)
			}
			if b != want {
				return "wrong-value", fmt.Sprintf("got %v want %v", b, want)
			}
		default:
			// a number as boolean: only 0/1 could denote one
			if num == nil || !(num.Cmp(new(big.Rat)) == 0 && !b || num.Cmp(big.NewRat(1, 1)) == 0 && b) {
				return "wrong-value", fmt.Sprintf("number %s became %v", src.Text, b)
			}
		}
	case target == val.FmtString:
		s, ok := got.Value().(string)
		if !ok || s != got.String() {
			return "wrong-value", "Value() not the string"
		}
		switch src.Kind {
		case "string":
			if s != src.Text {
				return "altered", fmt.Sprintf("got %q", s)
			}
		case "bool":
			if s != src.Text {
				return "altered", fmt.Sprintf("got %q", s)
			}
		case "float64", "float32":
			bits := 64
			if src.Kind == "float32" {
				bits = 32
			}
			orig, _ := strconv.ParseFloat(src.Text, bits)
			back, err := strconv.ParseFloat(s, bits)
			if err != nil || !(back == orig || (math.IsNaN(back) && math.IsNaN(orig))) {
				cl := "altered"
				if num != nil && !num.IsInt() {
					cl = "truncates"
				}
				return cl, fmt.Sprintf("text %q does not denote %s", s, src.Text)
			}
		default:
			if s != src.Text {
				return "altered", fmt.Sprintf("got %q want %q", s, src.Text)
			}
		}
	case target == val.FmtBinary:
		raw, _ := got.Value().([]byte)
		if src.Kind == "string" {
			dec, err := base64.StdEncoding.DecodeString(src.Text)
			if err != nil {
				return "", "" // not base64: nothing asserted
			}
			if string(raw) != string(dec) || got.String() != src.Text {
				return "altered", fmt.Sprintf("got %q", raw)
			}
		} else {
			return "nonsense-binary", fmt.Sprintf("%s converted to binary %q", src.Kind, got.String())
		}
	case target == val.FmtEmpty:
		// any non-nil value means "present"
	}
	return "", ""
}

type c10ScalarCase struct {
	Target string `json:"target"`
	Src    srcVal `json:"src"`
}

func c10NonTrivial(target val.Format, s srcVal) bool {
	num := s.number()
	if num == nil {
		return s.Kind == "string"
	}
	if !num.IsInt() {
		return true
	}
	if isIntFormat(target) {
		it := intTypeByName(fmtName(target))
		n := num.Num()
		one := big.NewInt(1)
		for _, b := range []*big.Int{it.min, it.max} {
			d := new(big.Int).Sub(n, b)
			if d.CmpAbs(one) <= 0 {
				return true
			}
		}
		if n.Cmp(it.min) < 0 || n.Cmp(it.max) > 0 {
			return true
		}
		srcSigned := strings.HasPrefix(s.Kind, "int")
		srcUnsigned := strings.HasPrefix(s.Kind, "uint")
		if (it.min.Sign() == 0 && srcSigned) || (it.min.Sign() < 0 && srcUnsigned) {
			return true
		}
		return false
	}
	if target == val.FmtDecimal64 {
		return num.Num().BitLen() > 53
	}
	return false
}

var c10Scalar = hx.Register(&hx.Check[c10ScalarCase]{
	Name: "c10-scalar",
	Rule: "target scalar format x source Go kind x value; enumerated product over the boundary sets (exhaustive) plus random draws; non-trivial = source is outside, at or next to the target range, non-integral, cross-signedness, not exactly representable, or a string",
	Gen: func(t *rapid.T) c10ScalarCase {
		tf := c10ScalarTargets[rapid.IntRange(0, len(c10ScalarTargets)-1).Draw(t, "target")]
		return c10ScalarCase{fmtName(tf), genSrc(t, "src")}
	},
	Run: func(c c10ScalarCase, o *hx.Obs) {
		target := fmtByName(c.Target)
		gv, ok := c.Src.goValue()
		if !ok {
			return
		}
		o.Class("target=%s", c.Target)
		o.Class("src=%s", c.Src.Kind)
		if c10NonTrivial(target, c.Src) {
			o.NonTrivial()
		}
		var got val.Value
		var err error
		if o.Guard("val.Conv", func() { got, err = val.Conv(target, gv) }) {
			return
		}
		if err != nil {
			o.Class("result=error")
			return // an error is always acceptable
		}
		o.Class("result=value")
		if cl, msg := c10Judge(target, c.Src, got); cl != "" {
			o.Failf("conv|"+c.Target+"|"+c.Src.Kind+"|"+cl, "val.Conv(%s, %s(%s)) = %v: %s", c.Target, c.Src.Kind, c.Src.Text, got, msg)
		}
	},
})

func genSrc(t *rapid.T, label string) srcVal {
	kind := rapid.SampledFrom(srcKinds).Draw(t, label+"-kind")
	switch kind {
	case "bool":
		return srcVal{kind, fmt.Sprint(rapid.Bool().Draw(t, label))}
	case "string":
		switch rapid.IntRange(0, 3).Draw(t, label+"-how") {
		case 0:
			return srcVal{kind, rapid.SampledFrom(c10StringBoundaries).Draw(t, label)}
		case 1:
			return srcVal{kind, rapid.SampledFrom(c10NumBoundaries).Draw(t, label)}
		case 2:
			return srcVal{kind, rapid.StringMatching(`[+-]?[0-9]{1,20}(\.[0-9]{1,4})?(e[+-]?[0-9])?`).Draw(t, label)}
		}
		return srcVal{kind, rapid.StringN(0, 6, 12).Draw(t, label)}
	case "float64", "float32":
		switch rapid.IntRange(0, 3).Draw(t, label+"-how") {
		case 0:
			return srcVal{kind, rapid.SampledFrom(c10FloatBoundaries).Draw(t, label)}
		case 1:
			s := rapid.SampledFrom(c10NumBoundaries).Draw(t, label)
			if rapid.Bool().Draw(t, label+"-frac") {
				s += ".5"
			}
			return srcVal{kind, s}
		}
		f := rapid.Float64().Draw(t, label)
		if kind == "float32" {
			return srcVal{kind, strconv.FormatFloat(float64(float32(f)), 'g', -1, 32)}
		}
		return srcVal{kind, strconv.FormatFloat(f, 'g', -1, 64)}
	}
	min, max := kindRange(kind)
	if rapid.IntRange(0, 3).Draw(t, label+"-how") > 0 {
		// a boundary inside the kind's range
		var in []string
		for _, s := range c10NumBoundaries {
			b := bi(s)
			if b.Cmp(min) >= 0 && b.Cmp(max) <= 0 {
				in = append(in, s)
			}
		}
		return srcVal{kind, rapid.SampledFrom(in).Draw(t, label)}
	}
	span := new(big.Int).Sub(max, min)
	v := new(big.Int).SetUint64(rapid.Uint64().Draw(t, label))
	v.Mod(v, new(big.Int).Add(span, big.NewInt(1)))
	return srcVal{kind, v.Add(v, min).String()}
}

// the finite boundary product
func c10Product(yield func(c10ScalarCase) bool) {
	for _, tf := range c10ScalarTargets {
		for _, kind := range srcKinds {
			var texts []string
			switch kind {
			case "bool":
				texts = []string{"true", "false"}
			case "string":
				texts = append(append([]string{}, c10StringBoundaries...), c10NumBoundaries...)
			case "float64", "float32":
				texts = append([]string{}, c10FloatBoundaries...)
				for _, s := range c10NumBoundaries {
					texts = append(texts, s, s+".5")
				}
			default:
				texts = c10NumBoundaries
			}
			for _, tx := range texts {
				c := c10ScalarCase{fmtName(tf), srcVal{kind, tx}}
				if _, ok := c.Src.goValue(); !ok {
					continue
				}
				if !yield(c) {
					return
				}
			}
		}
	}
}

var c10ScalarProduct = hx.Register(&hx.Check[c10ScalarCase]{
	Name: "c10-scalar-product",
	Rule: "the full product of 13 scalar target formats x 14 source Go kinds x the boundary value set of each kind (type minima/maxima of every width and their neighbours, +-2^31/32/53/63/64 and neighbours, fractions, negative zero, NaN/Inf, numeric and non-numeric strings), enumerated completely; non-trivial as in c10-scalar",
	Run:  c10Scalar.Run,
})

func TestC10(t *testing.T) {
	s := hx.Begin(t, "C10")
	defer s.End()
	hx.Each(s, c10ScalarProduct, true, c10Product)
	hx.Run(s, c10Scalar, s.N(50000, 400000))
	hx.Run(s, c10List, s.N(30000, 200000))
	hx.Run(s, c10Typed, s.N(30000, 200000))
}
