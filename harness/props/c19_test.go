package props

import (
	"bytes"
	"strings"
	"testing"

	"github.com/freeconf/yang/node"
	"github.com/freeconf/yang/nodeutil"
	"pgregory.net/rapid"

	"verif/harness/dm"
	"verif/harness/hx"
)

// ---- C19: XML export and import are inverse ---------------------------------------------

type c19Case struct {
	Module *dm.Module `json:"module"`
	Data   dm.Tree    `json:"data"`
	Writer string     `json:"writer"` // doc (WriteXMLDoc / XMLWtr2) | wtr1 (WriteXML / XMLWtr)
	Pretty bool       `json:"pretty"`
	Perm   []int      `json:"perm"` // drives the sibling interleaving
}

func textClass(t dm.Tree) string {
	cls := ""
	var walk func(v interface{})
	walk = func(v interface{}) {
		switch x := v.(type) {
		case string:
			switch {
			case strings.ContainsAny(x, "<>&\"'") || strings.Contains(x, "]]>"):
				cls = "markup"
			case x != strings.TrimSpace(x) && cls == "":
				cls = "ws-edge"
			case strings.ContainsAny(x, "\n\t") && cls == "":
				cls = "ws-inner"
			}
		case dm.Tree:
			for _, k := range dm.SortedKeys(x) {
				walk(x[k])
			}
		case []interface{}:
			for _, e := range x {
				walk(e)
			}
		}
	}
	walk(t)
	return cls
}

// interleave permutes sibling elements keeping the relative order of same-named ones.
func interleave(xs []*dm.XNode, perm []int, pos *int) []*dm.XNode {
	// group by name preserving order
	var names []string
	groups := map[string][]*dm.XNode{}
	for _, x := range xs {
		if _, ok := groups[x.Name]; !ok {
			names = append(names, x.Name)
		}
		groups[x.Name] = append(groups[x.Name], x)
	}
	var out []*dm.XNode
	for len(names) > 0 {
		k := 0
		if len(perm) > 0 {
			k = perm[*pos%len(perm)] % len(names)
			*pos++
		}
		n := names[k]
		x := groups[n][0]
		groups[n] = groups[n][1:]
		if len(groups[n]) == 0 {
			names = append(names[:k], names[k+1:]...)
		}
		cp := *x
		cp.Children = interleave(x.Children, perm, pos)
		out = append(out, &cp)
	}
	return out
}

// xmlRepresentable maps characters XML 1.0 cannot carry at all (C0 controls other than tab, LF, CR;
// U+FFFE, U+FFFF) to a space: no writer could round-trip them, they are outside the property's domain.
func xmlRepresentable(v interface{}, n *int) interface{} {
	switch x := v.(type) {
	case string:
		return strings.Map(func(r rune) rune {
			if (r < 0x20 && r != '\t' && r != '\n' && r != '\r') || r == 0xFFFE || r == 0xFFFF || r == 0xFFFD {
				*n++
				return ' '
			}
			return r
		}, x)
	case dm.Tree:
		out := dm.Tree{}
		for k, c := range x {
			out[k] = xmlRepresentable(c, n)
		}
		return out
	case []interface{}:
		out := make([]interface{}, len(x))
		for i, c := range x {
			out[i] = xmlRepresentable(c, n)
		}
		return out
	}
	return v
}

func c19Run(c c19Case, o *hx.Obs) {
	root := c.Module.Root()
	schemaClasses(o, c.Module)
	mm, err := loadDM(c.Module)
	if err != nil {
		o.Failf("harness|schema-rejected", "generated schema does not load: %v\n%s", err, c.Module.Yang())
		return
	}
	ns := c.Module.Namespace()
	switch c.Module.NS {
	case "":
		o.Class("namespace=urn")
	case "-":
		o.Class("namespace=none")
	default:
		o.Class("namespace=needs-escaping")
	}
	cls := textClass(c.Data)
	o.Class("writer=%s", c.Writer)
	o.Class("text=%s", cls)
	if cls != "" || hasBigList(c.Data) {
		o.NonTrivial()
	}
	types := map[string]bool{}
	leafTypesIn(root, c.Data, types)
	sig := func(clause string) string {
		s := "xml|" + c.Writer + "|" + clause
		if cls != "" {
			s += "|" + cls
		}
		return s
	}
	sel := node.NewBrowser(mm, dm.NewRS(root, dm.CloneTree(c.Data))).Root()
	var text string
	var werr error
	if o.Guard("XML writer", func() {
		switch c.Writer {
		case "doc":
			text, werr = nodeutil.WriteXMLDoc(sel, c.Pretty)
		case "wtr1-reused":
			// one XMLWtr value serves two exports, its Out pointed at a new buffer for the second: the second document
			// is the one examined
			var first, second bytes.Buffer
			w := nodeutil.NewXMLWtr(&first)
			if werr = sel.InsertInto(w.Node()); werr == nil {
				w.Out = &second
				werr = node.NewBrowser(mm, dm.NewRS(root, dm.CloneTree(c.Data))).Root().InsertInto(w.Node())
				text = second.String()
			}
		default:
			text, werr = nodeutil.WriteXML(sel)
		}
	}) {
		return
	}
	if werr != nil {
		o.Failf(sig("write-error"), "XML write failed: %v", werr)
		return
	}
	x, perr := dm.ParseXML(text)
	if perr != nil {
		clause := "malformed"
		if strings.HasPrefix(perr.Error(), "multi-root") || strings.HasPrefix(perr.Error(), "no root") {
			clause = "multi-root"
		}
		o.Failf(sig(clause), "%v\n%s", perr, text)
		return
	}
	if c.Module.NS == "-" && x.NS == c.Module.Name {
		// a module that states no namespace: its name standing in for one is as good as none
		ns = x.NS
	}
	if x.NS != ns {
		o.Failf(sig("namespace"), "root element <%s> is in namespace %q, want %q\n%s", x.Name, x.NS, ns, text)
	}
	opts := dm.DiffOpts{IgnoreEmptyList: true, AllowDefaults: true}
	if !(c.Writer == "doc" && c.Pretty) {
		// (pretty printing of the standard encoder only indents between elements; leaf text is still exact,
		// but container text is whitespace, so the exact-text comparison is done on compact output)
	}
	got, probs := dm.XMLToTree(root, x, ns, "")
	if len(probs) > 0 {
		o.Failf(sig(probs[0].Clause+"-"+probs[0].Kind), "%s\n%s", probs[0], text)
		return
	}
	if d := dm.Diff(root, c.Data, got, opts, ""); len(d) > 0 {
		o.Failf(sig("text-"+dm.Clause(d[0])), "XML text (decoded with encoding/xml) differs from the data present:\n%s\n%s", joinMax(d, 5), text)
		return
	}
	// library reader on the library's output
	readBack := func(doc string, what string) bool {
		var rn *nodeutil.XmlNode
		var rerr error
		if o.Guard("ReadXMLDoc", func() { rn, rerr = nodeutil.ReadXMLDoc(strings.NewReader(doc)) }) {
			return false
		}
		if rerr != nil {
			o.Failf(sig(what+"-read-error"), "library XML reader rejects %s: %v\n%s", what, rerr, doc)
			return false
		}
		back := dm.Tree{}
		if o.Guard("UpsertInto(xml)", func() { rerr = node.NewBrowser(mm, rn).Root().UpsertInto(dm.NewRS(root, back)) }) {
			return false
		}
		if rerr != nil {
			o.Failf(sig(what+"-export-error"), "export of the re-read XML failed: %v\n%s", rerr, doc)
			return false
		}
		if d := dm.Diff(root, c.Data, back, opts, ""); len(d) > 0 {
			o.Failf(sig(what+"-"+dm.Clause(d[0])), "reading %s back gives a different tree:\n%s\n%s", what, joinMax(d, 5), doc)
			return false
		}
		return true
	}
	if !readBack(text, "roundtrip") {
		return
	}
	// interleaved input written by the harness
	pos := 0
	doc := &dm.XNode{Name: c.Module.Name, Children: interleave(dm.TreeToXML(root, c.Data), c.Perm, &pos)}
	var b bytes.Buffer
	doc.Render(&b, ns)
	o.Class("interleaved")
	readBack(b.String(), "interleave")
}

var c19XML = hx.Register(&hx.Check[c19Case]{
	Name: "c19-xml-roundtrip",
	Rule: "generated schema + data (all leaf types, text with markup characters, quotes, CDATA terminators, leading/trailing/inner whitespace, non-ASCII) x writer (WriteXMLDoc pretty/compact, WriteXML, one XMLWtr value reused for a second document); output must be one well-formed document for encoding/xml, decode to the data, and read back through the library's reader to the same tree; a harness-written document with sibling elements interleaved (same-named elements keep their order) must read as the same tree; non-trivial = text needing escaping or with significant whitespace, or a list with >= 2 entries",
	Gen: func(t *rapid.T) c19Case {
		o := dm.DefaultGen()
		o.Types = []string{"int8", "int32", "int64", "uint8", "uint64", "decimal64", "string", "string", "boolean", "enumeration", "bits", "identityref", "binary", "empty"}
		m := dm.GenModule(t, o)
		m.NS = rapid.SampledFrom([]string{"", "", "", "urn:x?a=1&b=2", "urn:it's", "-"}).Draw(t, "namespace")
		data := dm.GenTree(t, m.Root(), dm.TreeOpts{MaxEntries: 3, PresentPct: 75, EasyKeys: true})
		replaced := 0
		data = xmlRepresentable(data, &replaced).(dm.Tree)
		return c19Case{Module: m, Data: data, Writer: rapid.SampledFrom([]string{"doc", "doc", "wtr1", "wtr1-reused"}).Draw(t, "writer"), Pretty: rapid.Bool().Draw(t, "pretty"),
			Perm: rapid.SliceOfN(rapid.IntRange(0, 7), 0, 8).Draw(t, "perm")}
	},
	Run: c19Run,
})

func TestC19(t *testing.T) {
	s := hx.Begin(t, "C19")
	defer s.End()
	hx.Run(s, c19XML, s.N(3000, 30000))
	hx.Run(s, c19Aug, s.N(1500, 15000))
	hx.Run(s, c19Start, s.N(1500, 15000))
}
