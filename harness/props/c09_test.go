package props

import (
	"testing"

	"verif/harness/hx"
)

// ---- C09: at most one case of a choice ever holds data ---------------------------------

var c09Hist = hx.Register(&hx.Check[histCase]{
	Name: "c09-choice-history",
	Rule: "histories of 1-8 steps - upserts of independently drawn fragments (each selects its own cases) and SetValue on single leaves of cases - into schemas with several choices per container, choices nested in cases, choices inside lists, cases holding leaves / containers / lists; after every step the backing data of the store must equal the model (other cases cleared recursively, nodes outside the choice untouched) and no choice may hold data of two cases; non-trivial = at least two case switches",
	Gen:  histGen("C09", []string{"rs", "rs", "reflect-map", "node-map"}),
	Run:  histRun("C09"),
})

func TestC09(t *testing.T) {
	s := hx.Begin(t, "C09")
	defer s.End()
	hx.Run(s, c09Hist, s.N(2500, 25000))
	hx.Run(s, c09Any, s.N(1500, 15000))
}
