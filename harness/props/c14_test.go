package props

import (
	"errors"
	"fmt"
	"io"
	"os"
	"path/filepath"
	"runtime/debug"
	"sort"
	"strings"
	"sync"
	"testing"

	"github.com/freeconf/yang/meta"
	"github.com/freeconf/yang/node"
	"github.com/freeconf/yang/parser"
	"github.com/freeconf/yang/source"
	"pgregory.net/rapid"

	"verif/harness/hx"
	"verif/harness/ydump"
)

// ---- corpus ----------------------------------------------------------------

type corpusFile struct {
	Dir, Name, Text string
}

var corpusOnce sync.Once
var corpusFiles []corpusFile
var corpusByDir map[string]map[string]string

func loadCorpus() {
	corpusOnce.Do(func() {
		corpusByDir = map[string]map[string]string{}
		root := filepath.Join(hx.Root(), "corpus", "yang")
		dirs, _ := os.ReadDir(root)
		for _, d := range dirs {
			if !d.IsDir() {
				continue
			}
			files, _ := os.ReadDir(filepath.Join(root, d.Name()))
			corpusByDir[d.Name()] = map[string]string{}
			for _, f := range files {
				if !strings.HasSuffix(f.Name(), ".yang") {
					continue
				}
				b, err := os.ReadFile(filepath.Join(root, d.Name(), f.Name()))
				if err != nil {
					continue
				}
				corpusByDir[d.Name()][f.Name()] = string(b)
				corpusFiles = append(corpusFiles, corpusFile{d.Name(), f.Name(), string(b)})
			}
		}
		sort.Slice(corpusFiles, func(i, j int) bool {
			if corpusFiles[i].Dir != corpusFiles[j].Dir {
				return corpusFiles[i].Dir < corpusFiles[j].Dir
			}
			return corpusFiles[i].Name < corpusFiles[j].Name
		})
	})
}

// corpusOpener serves imports/includes from the corpus directory dir, falling back to yang/.
func corpusOpener(dir string, extra map[string]string) source.Opener {
	loadCorpus()
	return func(name string, ext string) (io.Reader, error) {
		if s, ok := extra[name+ext]; ok {
			return strings.NewReader(s), nil
		}
		if s, ok := corpusByDir[dir][name+ext]; ok {
			return strings.NewReader(s), nil
		}
		if s, ok := corpusByDir["yang"][name+ext]; ok {
			return strings.NewReader(s), nil
		}
		return nil, nil
	}
}

// ---- a small YANG tokenizer for mutations -----------------------------------

func yangTokens(s string) []string {
	var out []string
	i := 0
	for i < len(s) {
		c := s[i]
		switch {
		case c == ' ' || c == '\t' || c == '\n' || c == '\r':
			j := i
			for j < len(s) && (s[j] == ' ' || s[j] == '\t' || s[j] == '\n' || s[j] == '\r') {
				j++
			}
			out = append(out, s[i:j])
			i = j
		case c == '"' || c == '\'':
			j := i + 1
			for j < len(s) && s[j] != c {
				if c == '"' && s[j] == '\\' {
					j++
				}
				j++
			}
			if j < len(s) {
				j++
			} else {
				j = len(s)
			}
			out = append(out, s[i:j])
			i = j
		case c == '/' && i+1 < len(s) && s[i+1] == '/':
			j := strings.IndexByte(s[i:], '\n')
			if j < 0 {
				j = len(s) - i
			}
			out = append(out, s[i:i+j])
			i += j
		case c == '/' && i+1 < len(s) && s[i+1] == '*':
			j := strings.Index(s[i+2:], "*/")
			if j < 0 {
				j = len(s) - i
			} else {
				j += 4
			}
			out = append(out, s[i:i+j])
			i += j
		case c == '{' || c == '}' || c == ';' || c == '+':
			out = append(out, string(c))
			i++
		default:
			j := i
			for j < len(s) && !strings.ContainsRune(" \t\r\n{};\"'", rune(s[j])) {
				j++
			}
			if j == i {
				j = i + 1
			}
			out = append(out, s[i:j])
			i = j
		}
	}
	return out
}

func isBlank(tok string) bool { return strings.TrimSpace(tok) == "" }

var yangKeywords = []string{"module", "submodule", "container", "list", "leaf", "leaf-list", "choice", "case", "grouping", "uses", "refine", "augment",
	"typedef", "type", "import", "include", "prefix", "namespace", "revision", "key", "unique", "config", "mandatory", "default", "units", "status",
	"description", "reference", "when", "must", "if-feature", "feature", "identity", "base", "enum", "bit", "value", "position", "range", "length",
	"pattern", "path", "rpc", "action", "input", "output", "notification", "anyxml", "anydata", "deviation", "deviate", "extension", "argument",
	"min-elements", "max-elements", "ordered-by", "presence", "belongs-to", "yang-version", "fraction-digits", "require-instance", "error-message",
	"error-app-tag", "revision-date", "organization", "contact", "yin-element", "modifier", "not-supported", "add", "replace", "delete", "true", "false",
	"unbounded", "min", "max", "current", "deprecated", "obsolete", "user", "system", "invert-match", "string", "int8", "int32", "uint64", "decimal64",
	"boolean", "enumeration", "bits", "binary", "leafref", "identityref", "empty", "union", "instance-identifier", "x:ext", "\"\"", "'a'", "\"a b\"", "0", "1", "-1", "a", "b", "../a", "/a/b", "a:b"}

// ---- running one load ---------------------------------------------------------

type c14Case struct {
	Kind  string            `json:"kind"`
	Dir   string            `json:"dir,omitempty"`   // corpus directory serving imports/includes
	Files map[string]string `json:"files,omitempty"` // extra files served by the opener (name.yang -> text)
	Fault string            `json:"fault,omitempty"` // opener fault
	Text  string            `json:"text"`
	Base  string            `json:"base,omitempty"`
}

type faultReader struct {
	data []byte
	n    int
	pos  int
}

func (f *faultReader) Read(p []byte) (int, error) {
	if f.pos >= f.n {
		return 0, io.ErrUnexpectedEOF
	}
	k := copy(p, f.data[f.pos:f.n])
	f.pos += k
	return k, nil
}

var errInjected = errors.New("injected opener fault")

func c14Opener(c c14Case) source.Opener {
	base := corpusOpener(c.Dir, c.Files)
	switch {
	case c.Fault == "":
		return base
	case c.Fault == "missing-nil":
		return func(string, string) (io.Reader, error) { return nil, nil }
	case c.Fault == "missing-err":
		return func(n string, e string) (io.Reader, error) { return nil, fmt.Errorf("%s%s: %w", n, e, os.ErrNotExist) }
	case c.Fault == "error":
		return func(string, string) (io.Reader, error) { return nil, errInjected }
	case strings.HasPrefix(c.Fault, "readerr:"):
		var n int
		fmt.Sscanf(c.Fault, "readerr:%d", &n)
		return func(name string, ext string) (io.Reader, error) {
			r, err := base(name, ext)
			if r == nil || err != nil {
				return r, err
			}
			b, _ := io.ReadAll(r)
			if n > len(b) {
				n = len(b)
			}
			return &faultReader{data: b, n: n}, nil
		}
	case strings.HasPrefix(c.Fault, "serve:"):
		// every request is answered with the same text (a module where a submodule is expected and so on)
		text := c.Files[strings.TrimPrefix(c.Fault, "serve:")]
		return func(string, string) (io.Reader, error) { return strings.NewReader(text), nil }
	}
	return base
}

func runLoad(c c14Case, o *hx.Obs) {
	var m *meta.Module
	var err error
	if o.Guard("LoadModuleFromString", func() {
		m, err = parser.LoadModuleFromString(c14Opener(c), c.Text)
	}) {
		return
	}
	if err != nil {
		o.Class("result=error")
		if m != nil {
			// fine: error wins
		}
		return
	}
	if m == nil {
		o.Failf("load|nil-module", "LoadModuleFromString returned (nil, nil)")
		return
	}
	o.Class("result=module")
	// walking through the public accessors must not crash
	var d *ydump.Dumper
	if o.Guard("ydump", func() { _, d = ydump.Module(m) }) {
		return
	}
	for _, p := range d.Panics {
		o.Failf("walk-panic|"+accessorOf(p), "accessor panicked on a module the loader returned: %s", p)
	}
	// the first thing any reader does with a leaf of the module: turn a text into a value of its type
	var leaves func(h meta.HasDataDefinitions, depth int)
	seen := map[meta.Definition]bool{}
	leaves = func(h meta.HasDataDefinitions, depth int) {
		if depth > 6 {
			return
		}
		for _, def := range h.DataDefinitions() {
			if seen[def] {
				continue
			}
			seen[def] = true
			if l, ok := def.(meta.Leafable); ok && l.Type() != nil {
				if o.Guard("NewValue("+def.Ident()+")", func() { node.NewValue(l.Type(), "1") }) {
					return
				}
			}
			if ch, ok := def.(*meta.Choice); ok {
				for _, cs := range ch.Cases() {
					leaves(cs, depth+1)
				}
			} else if sub, ok := def.(meta.HasDataDefinitions); ok {
				leaves(sub, depth+1)
			}
		}
	}
	leaves(m, 0)
}

func accessorOf(p string) string {
	// "/m.DataDefinitions[0:x].Type.Resolve(): msg" -> "Resolve"
	i := strings.Index(p, "():")
	if i < 0 {
		return "?"
	}
	s := p[:i]
	if j := strings.LastIndexByte(s, '.'); j >= 0 {
		s = s[j+1:]
	}
	return s
}

// ---- check: mutations of corpus files ------------------------------------------

func genCorpusFile(t *rapid.T) corpusFile {
	loadCorpus()
	return corpusFiles[rapid.IntRange(0, len(corpusFiles)-1).Draw(t, "file")]
}

func nonBlankIdx(toks []string) []int {
	var idx []int
	for i, tk := range toks {
		if !isBlank(tk) {
			idx = append(idx, i)
		}
	}
	return idx
}

var c14Mutate = hx.Register(&hx.Check[c14Case]{
	Name:    "c14-mutate",
	Journal: true,
	Rule:    "a corpus module (86 files of the repository's test data) with 1-3 token-level mutations: delete / duplicate / substitute (by another token of the file or a YANG keyword) / swap / truncate at a byte / insert a brace or quote; non-trivial = text differs from the corpus file and is not rejected at the first token",
	Gen: func(t *rapid.T) c14Case {
		f := genCorpusFile(t)
		toks := yangTokens(f.Text)
		n := rapid.IntRange(1, 3).Draw(t, "nmut")
		text := f.Text
		for k := 0; k < n; k++ {
			idx := nonBlankIdx(toks)
			if len(idx) == 0 {
				break
			}
			i := idx[rapid.IntRange(0, len(idx)-1).Draw(t, "pos")]
			switch rapid.IntRange(0, 6).Draw(t, "op") {
			case 0: // delete
				toks = append(append([]string{}, toks[:i]...), toks[i+1:]...)
			case 1: // duplicate
				toks = append(append(append([]string{}, toks[:i+1]...), " ", toks[i]), toks[i+1:]...)
			case 2: // substitute by another token of the file
				j := idx[rapid.IntRange(0, len(idx)-1).Draw(t, "with")]
				toks = append([]string{}, toks...)
				toks[i] = toks[j]
			case 3: // substitute by a keyword
				toks = append([]string{}, toks...)
				toks[i] = rapid.SampledFrom(yangKeywords).Draw(t, "kw")
			case 4: // swap with the next non-blank token
				j := idx[rapid.IntRange(0, len(idx)-1).Draw(t, "with")]
				toks = append([]string{}, toks...)
				toks[i], toks[j] = toks[j], toks[i]
			case 5: // truncate
				text = strings.Join(toks, "")
				cut := rapid.IntRange(0, len(text)).Draw(t, "cut")
				toks = yangTokens(text[:cut])
			case 6: // insert a structural character
				ins := rapid.SampledFrom([]string{"{", "}", ";", "\"", "'", "+", "/*", "//", "*/", "\\"}).Draw(t, "ins")
				toks = append(append(append([]string{}, toks[:i]...), ins), toks[i:]...)
			}
		}
		text = strings.Join(toks, "")
		return c14Case{Kind: "mutate", Dir: f.Dir, Text: text, Base: f.Dir + "/" + f.Name}
	},
	Run: func(c c14Case, o *hx.Obs) {
		loadCorpus()
		o.Class("kind=%s", c.Kind)
		if i := strings.IndexByte(c.Base, '/'); i > 0 {
			if orig, ok := corpusByDir[c.Base[:i]][c.Base[i+1:]]; !ok || orig != c.Text {
				o.NonTrivial()
			}
		} else {
			o.NonTrivial()
		}
		runLoad(c, o)
	},
})

// every prefix of corpus files
var c14Prefix = hx.Register(&hx.Check[c14Case]{
	Name:    "c14-prefixes",
	Journal: true,
	Rule:    "every byte prefix (truncation point) of every corpus module up to the tier's size limit, enumerated; all but the complete file are non-trivial",
	Run:     c14Mutate.Run,
})

// ---- check: structured pathological inputs ---------------------------------------

type c14StructCase struct {
	Shape string `json:"shape"`
	N     int    `json:"n"`
	V     int    `json:"v"`
}

func hdr(name string) string {
	return "module " + name + " { namespace \"urn:" + name + "\"; prefix " + name + "; revision 2020-01-01; "
}

// c14Build returns the text, extra files and opener fault for a structured case.
func c14Build(c c14StructCase) c14Case {
	n := c.N
	out := c14Case{Kind: "struct:" + c.Shape, Files: map[string]string{}}
	rep := func(s string, k int) string { return strings.Repeat(s, k) }
	switch c.Shape {
	case "nest-container":
		out.Text = hdr("m") + rep("container c { ", n) + "leaf x { type string; }" + rep(" }", n) + " }"
	case "nest-list":
		out.Text = hdr("m") + rep("list l { key k; leaf k { type string; } ", n) + rep(" }", n) + " }"
	case "nest-choice":
		out.Text = hdr("m") + rep("choice ch { case cs { ", n) + "leaf x { type string; }" + rep(" } }", n) + " }"
	case "nest-grouping":
		out.Text = hdr("m") + rep("grouping g { ", n) + "leaf x { type string; }" + rep(" }", n) + " }"
	case "nest-open":
		out.Text = hdr("m") + rep("container c { ", n)
	case "nest-close":
		out.Text = hdr("m") + rep("} ", n)
	case "nest-union":
		out.Text = hdr("m") + "leaf x { type " + rep("union { type ", n) + "string;" + rep(" }", n) + " } }"
	case "nest-ext":
		out.Text = hdr("m") + "extension e { argument a; } " + rep("m:e a { ", n) + rep(" }", n) + " }"
	case "ext-args":
		out.Text = hdr("m") + "extension e { argument a; } container c { m:e " + rep("arg ", n) + "; } }"
	case "ext-args-str":
		out.Text = hdr("m") + "extension e { argument a; } container c { m:e " + rep("\"a b\" ", n) + "; } }"
	case "concat":
		out.Text = hdr("m") + "description \"a\"" + rep(" + \"b\"", n) + "; }"
	case "concat-dangling":
		out.Text = hdr("m") + "description \"a\"" + rep(" +", n) + "; }"
	case "many-siblings":
		var b strings.Builder
		b.WriteString(hdr("m"))
		for i := 0; i < n; i++ {
			fmt.Fprintf(&b, "leaf l%d { type string; } ", i)
		}
		b.WriteString("}")
		out.Text = b.String()
	case "dup-siblings":
		out.Text = hdr("m") + rep("leaf x { type string; } ", n+1) + "}"
	case "dup-statements":
		stmts := []string{"default a;", "type string;", "units u;", "description d;", "mandatory true;", "config false;", "status current;", "reference r;", "when \"a\";"}
		s := stmts[c.V%len(stmts)]
		out.Text = hdr("m") + "leaf x { type string; " + rep(s+" ", n+1) + "} }"
	case "dup-header":
		stmts := []string{"namespace \"urn:x\";", "prefix p;", "yang-version 1.1;", "organization o;", "contact c;", "description d;", "revision 2021-01-01;"}
		s := stmts[c.V%len(stmts)]
		out.Text = hdr("m") + rep(s+" ", n+1) + "}"
	case "unterminated-dquote":
		out.Text = hdr("m") + "description \"" + rep("x", n)
	case "unterminated-squote":
		out.Text = hdr("m") + "description '" + rep("x", n)
	case "unterminated-comment":
		out.Text = hdr("m") + "/* " + rep("x", n)
	case "line-comment-eof":
		out.Text = hdr("m") + "} //" + rep("x", n)
	case "line-comment-only":
		out.Text = "//" + rep("x", n)
	case "backslash-eof":
		out.Text = hdr("m") + "description \"" + rep("x", n) + "\\"
	case "typedef-cycle":
		var b strings.Builder
		b.WriteString(hdr("m"))
		if n < 1 {
			n = 1
		}
		for i := 0; i < n; i++ {
			fmt.Fprintf(&b, "typedef t%d { type t%d; } ", i, (i+1)%n)
		}
		b.WriteString("leaf x { type t0; } }")
		out.Text = b.String()
	case "grouping-cycle":
		var b strings.Builder
		b.WriteString(hdr("m"))
		if n < 1 {
			n = 1
		}
		for i := 0; i < n; i++ {
			if c.V%2 == 0 {
				fmt.Fprintf(&b, "grouping g%d { uses g%d; } ", i, (i+1)%n)
			} else {
				fmt.Fprintf(&b, "grouping g%d { container c%d { uses g%d; } } ", i, i, (i+1)%n)
			}
		}
		b.WriteString("uses g0; }")
		out.Text = b.String()
	case "grouping-cycle-unused":
		out.Text = hdr("m") + "grouping g { uses g; } leaf x { type string; } }"
	case "identity-cycle":
		var b strings.Builder
		b.WriteString(hdr("m"))
		if n < 1 {
			n = 1
		}
		for i := 0; i < n; i++ {
			fmt.Fprintf(&b, "identity i%d { base i%d; } ", i, (i+1)%n)
		}
		b.WriteString("leaf x { type identityref { base i0; } } }")
		out.Text = b.String()
	case "identity-lattice":
		// n layers of two identities, each derived from both of the layer before: no cycle, 2^n ways up
		var b strings.Builder
		b.WriteString("module m { yang-version 1.1; namespace \"urn:m\"; prefix m; identity a0; identity b0; ")
		layers := n
		if layers > 64 {
			layers = 64
		}
		for i := 1; i <= layers; i++ {
			fmt.Fprintf(&b, "identity a%d { base a%d; base b%d; } identity b%d { base a%d; base b%d; } ", i, i-1, i-1, i, i-1, i-1)
		}
		if c.V%2 == 1 && layers > 0 {
			fmt.Fprintf(&b, "identity a0x { base a%d; } ", layers) // (no cycle either)
		}
		fmt.Fprintf(&b, "leaf x { type identityref { base a0; } } }")
		out.Text = b.String()
	case "extension-body":
		// an extension statement with a body of definitions, written in statements of every kind
		host := []string{"revision 2020-01-01 { %s }", "identity i { %s }", "feature f { %s }", "leaf h { type string; must \"x\" { %s } }", "leaf h { type enumeration { enum a { %s } } }",
			"leaf h { type bits { bit a { %s } } }", "container h { %s }", "typedef t { type string; %s }", "leaf h { type string { pattern \"a\" { %s } } }", "leaf h { type string; %s }",
			"rpc r { input { %s } }", "leaf h { type int8 { range \"1..2\" { %s } } }"}[c.V%12]
		body := []string{"leaf inb { type string; }", "leaf inb { type m:pct; }", "leaf inb { type identityref { base idb; } }", "leaf inb { type leafref { path \"../inb2\"; } } leaf inb2 { type int8; }",
			"uses g;", "container inc { leaf x { type pct; } }", "list inl { key k; leaf k { type string; } }", "leaf inb { if-feature ff; type string; }"}[c.N%8]
		out.Text = hdr("m") + "extension note { argument text; } typedef pct { type uint8; } identity idb; feature ff; grouping g { leaf gl { type string; } } " + fmt.Sprintf(host, "m:note \"a\" { "+body+" }") + " }"
	case "leafref-cycle":
		var b strings.Builder
		b.WriteString(hdr("m"))
		if n < 1 {
			n = 1
		}
		for i := 0; i < n; i++ {
			switch c.V % 4 {
			case 1: // the way back leads through the member of a union
				fmt.Fprintf(&b, "leaf l%d { type union { type leafref { path \"../l%d\"; } type int32; } } ", i, (i+1)%n)
			case 2: // ... through a typedef
				fmt.Fprintf(&b, "typedef t%d { type leafref { path \"../l%d\"; } } leaf l%d { type t%d; } ", i, (i+1)%n, i, i)
			case 3: // ... through a union in a typedef
				fmt.Fprintf(&b, "typedef t%d { type union { type int32; type leafref { path \"../l%d\"; } } } leaf l%d { type t%d; } ", i, (i+1)%n, i, i)
			default:
				fmt.Fprintf(&b, "leaf l%d { type leafref { path \"../l%d\"; } } ", i, (i+1)%n)
			}
		}
		b.WriteString("}")
		out.Text = b.String()
	case "union-self":
		out.Text = hdr("m") + "typedef u { type union { type u; type string; } } leaf x { type u; } }"
	case "import-self":
		out.Text = hdr("m") + "import m { prefix self; } leaf x { type string; } }"
		out.Files["m.yang"] = out.Text
	case "import-mutual":
		out.Text = hdr("a") + "import b { prefix b; } leaf x { type string; } }"
		out.Files["a.yang"] = out.Text
		out.Files["b.yang"] = hdr("b") + "import a { prefix a; } leaf y { type string; } }"
	case "import-chain-cycle":
		if n < 2 {
			n = 2
		}
		for i := 0; i < n; i++ {
			out.Files[fmt.Sprintf("c%d.yang", i)] = hdr(fmt.Sprintf("c%d", i)) + fmt.Sprintf("import c%d { prefix p; } }", (i+1)%n)
		}
		out.Text = out.Files["c0.yang"]
	case "include-self":
		out.Text = "submodule s { belongs-to m { prefix m; } include s; }"
		out.Files["s.yang"] = out.Text
	case "include-mutual":
		out.Text = hdr("m") + "include s1; }"
		out.Files["s1.yang"] = "submodule s1 { belongs-to m { prefix m; } include s2; leaf a { type string; } }"
		out.Files["s2.yang"] = "submodule s2 { belongs-to m { prefix m; } include s1; leaf b { type string; } }"
	case "include-cycle-nodata":
		// include cycles among submodules that define no data nodes (nothing collides, so nothing stops the merge by chance)
		switch c.V % 3 {
		case 0:
			out.Text = hdr("m") + "include s; }"
			out.Files["s.yang"] = "submodule s { belongs-to m { prefix m; } include s; typedef t { type string; } }"
		case 1:
			out.Text = hdr("m") + "include a; include b; }"
			out.Files["a.yang"] = "submodule a { belongs-to m { prefix m; } include b; typedef ta { type string; } }"
			out.Files["b.yang"] = "submodule b { belongs-to m { prefix m; } include a; typedef tb { type string; } }"
		default:
			out.Text = hdr("m") + "include a; }"
			out.Files["a.yang"] = "submodule a { belongs-to m { prefix m; } include b; }"
			out.Files["b.yang"] = "submodule b { belongs-to m { prefix m; } include c; }"
			out.Files["c.yang"] = "submodule c { belongs-to m { prefix m; } include a; grouping g { leaf x { type string; } } }"
		}
	case "import-misnamed-cycle":
		// the file served for module x holds a module of another name that imports x again
		out.Text = hdr("m") + "import x { prefix x; } }"
		out.Files["x.yang"] = hdr("y") + "import x { prefix q; } }"
		if c.V%2 == 1 {
			out.Files["x.yang"] = hdr("y") + "import z { prefix q; } }"
			out.Files["z.yang"] = hdr("w") + "import x { prefix q; } }"
		}
	case "disabled-uses-cycle":
		// a uses that its if-feature leaves out, of a grouping that uses itself (directly, through another, in an import)
		switch c.V % 4 {
		case 0:
			out.Text = hdr("m") + "feature f; grouping g { uses g; } container c { uses g { if-feature \"not f\"; } leaf x { type string; } } }"
		case 1:
			out.Text = hdr("m") + "feature f; grouping g { uses h; } grouping h { uses g; } container c { uses g { if-feature \"not f\"; } leaf x { type string; } } }"
		case 2:
			out.Text = hdr("m") + "feature f; import dep { prefix d; } container c { uses d:g { if-feature \"not f\"; } leaf x { type string; } } }"
			out.Files["dep.yang"] = hdr("dep") + "grouping g { uses h; } grouping h { uses g; } }"
		default:
			out.Text = hdr("m") + "feature f; grouping g { leaf y { type string; } uses g { if-feature \"not f\"; } } container c { uses g; } }"
		}
	case "include-module":
		out.Text = hdr("m") + "include other; }"
		out.Files["other.yang"] = hdr("other") + "leaf y { type string; } }"
	case "import-submodule":
		out.Text = hdr("m") + "import sub { prefix s; } }"
		out.Files["sub.yang"] = "submodule sub { belongs-to m { prefix m; } leaf y { type string; } }"
	case "import-garbage":
		out.Text = hdr("m") + "import g { prefix g; } }"
		out.Files["g.yang"] = []string{"", "}", "module", "module g {", "\x00\x01", "leaf x;"}[c.V%6]
	case "import-missing":
		out.Text = hdr("m") + "import nothere { prefix n; } leaf x { type n:t; } }"
		out.Fault = []string{"missing-nil", "missing-err", "error", ""}[c.V%4]
	case "include-missing":
		out.Text = hdr("m") + "include nothere; }"
		out.Fault = []string{"missing-nil", "missing-err", "error", ""}[c.V%4]
	case "import-readerr":
		out.Text = hdr("m") + "import dep { prefix d; } leaf x { type d:t; } }"
		out.Files["dep.yang"] = hdr("dep") + "typedef t { type string; } }"
		out.Fault = fmt.Sprintf("readerr:%d", n)
	case "include-readerr":
		out.Text = hdr("m") + "include dep; uses g; }"
		out.Files["dep.yang"] = "submodule dep { belongs-to m { prefix m; } grouping g { leaf x { type string; } } }"
		out.Fault = fmt.Sprintf("readerr:%d", n)
	case "serve-same":
		out.Text = hdr("m") + "import other { prefix o; } include sub; }"
		out.Files["x"] = out.Text
		out.Fault = "serve:x"
	case "leafref-to-container":
		out.Text = hdr("m") + "container c { leaf a { type string; } } leaf r { type leafref { path \"" + []string{"../c", "/c", "/m:c", "../c/", "..", "../..", "/", "", "../r", "../nothere", "../c/a/b", "/c/a/../..", "../c[a='x']/a", "c"}[c.V%14] + "\"; } } }"
	case "leafref-to-list":
		out.Text = hdr("m") + "list l { key k; leaf k { type string; } } leaf-list ll { type string; } leaf r { type leafref { path \"" + []string{"../l", "../l/k", "../ll", "/l/k", "../l[k=current()/../r]/k"}[c.V%5] + "\"; } } }"
	case "leafref-into-import":
		// the leaf pointed at lives in an imported module, whose own leaves the loader has no other reason to look at
		tgt := []string{"leaf x { type string; }", "leaf x { description \"no type\"; }", "leaf x { type nothere; }", "leaf x { type leafref { path \"../y\"; } } leaf y { type int8; }",
			"leaf x { type leafref { path \"../nothere\"; } }", "leaf x { type t; } typedef t { type t; }", "leaf x { type union { } }", "leaf-list x { type string; }", "container x { }",
			"leaf x { type leafref { path \"/m:r\"; } }", "leaf x { type enumeration { } }", "leaf x { type identityref { base nothere; } }"}[c.V%12]
		path := []string{"/b:x", "/b:x", "/b:x", "/x", "/b:nothere", "/q:x"}[c.N%6]
		out.Text = hdr("m") + "import b { prefix b; } leaf r { type leafref { path \"" + path + "\"; } } }"
		out.Files["b.yang"] = hdr("b") + tgt + " }"
	case "augment-bad-target":
		tg := []string{"/nothere", "/c/x", "/c/nothere", "c", "", "/", "/c/ch/x", "/r", "/r/input", "/n", "/m:c", "/bad:c", "//", "/c//x", "/c/"}[c.V%15]
		out.Text = hdr("m") + "container c { leaf x { type string; } choice ch { leaf y { type string; } } } rpc r { input { leaf i { type string; } } } notification n { leaf z { type string; } } augment \"" + tg + "\" { leaf added { type string; } } }"
	case "refine-bad-target":
		tg := []string{"nothere", "x/y", "c/nothere", "", "/", "/x", "x/", "c", "../x"}[c.V%9]
		what := []string{"default a;", "mandatory true;", "config false;", "description d;", "min-elements 1;", "max-elements 2;", "presence p;", "must \"a\";", "if-feature f;"}[c.N%9]
		out.Text = hdr("m") + "feature f; grouping g { leaf x { type string; } container c { leaf y { type string; } } } uses g { refine \"" + tg + "\" { " + what + " } } }"
	case "refine-wrong-kind":
		tg := []string{"x", "c", "l", "ll", "ch", "a"}[c.V%6]
		what := []string{"default a;", "mandatory true;", "config false;", "min-elements 1;", "max-elements 2;", "presence p;", "must \"a\";", "max-elements unbounded;", "default a; default b;"}[c.N%9]
		out.Text = hdr("m") + "grouping g { leaf x { type string; } container c { } list l { key k; leaf k { type string; } } leaf-list ll { type string; } choice ch { leaf q { type string; } } anyxml a; } uses g { refine " + tg + " { " + what + " } } }"
	case "deviation":
		tg := []string{"/c/x", "/c", "/c/l", "/c/ll", "/c/ch", "/nothere", "/c/nothere", "", "/r", "/n", "/c/a"}[c.V%11]
		dv := []string{"not-supported;", "add { default a; }", "add { units u; }", "add { must \"x\"; }", "add { unique k; }", "add { config false; }", "add { mandatory true; }",
			"add { min-elements 1; }", "add { max-elements 3; }", "replace { type int32; }", "replace { default b; }", "replace { units v; }", "replace { config false; }",
			"replace { mandatory false; }", "replace { min-elements 0; }", "replace { max-elements unbounded; }", "delete { default a; }", "delete { units u; }", "delete { must \"x\"; }", "delete { unique k; }",
			"add { default a; default b; }", "replace { type leafref { path \"../y\"; } }", "add { }", "replace { }", "delete { }"}[c.N%25]
		out.Text = hdr("m") + "container c { leaf x { type string; } leaf y { type string; } list l { key k; leaf k { type string; } } leaf-list ll { type string; } choice ch { leaf q { type string; } } anyxml a; } rpc r; notification n; deviation \"" + tg + "\" { deviate " + dv + " } }"
	case "default-twice":
		out.Text = hdr("m") + "leaf x { type string; default a; default b; } }"
	case "key-missing":
		k := []string{"nothere", "", "a b", "a  b", " a", "a a", "c", "ll", "a/b"}[c.V%9]
		out.Text = hdr("m") + "list l { key \"" + k + "\"; leaf a { type string; } leaf b { type string; } container c { } leaf-list ll { type string; } } }"
	case "unique-bad":
		k := []string{"nothere", "", "a  b", "c", "c/x", "../a"}[c.V%6]
		out.Text = hdr("m") + "list l { key a; unique \"" + k + "\"; leaf a { type string; } leaf b { type string; } container c { } } }"
	case "type-unknown":
		ty := []string{"nothere", "p:t", "m:nothere", ":t", "t:", "m:m:t", "", "string string"}[c.V%8]
		out.Text = hdr("m") + "leaf x { type " + ty + "; } }"
	case "uses-unknown":
		ty := []string{"nothere", "p:g", "m:nothere", ":g", "g:"}[c.V%5]
		out.Text = hdr("m") + "uses " + ty + "; }"
	case "base-unknown":
		ty := []string{"nothere", "p:i", "m:nothere", ":i"}[c.V%4]
		out.Text = hdr("m") + "identity i { base " + ty + "; } leaf x { type identityref { base " + ty + "; } } }"
	case "range-garbage":
		r := []string{"", "..", "1..", "..1", "a..b", "1..2..3", "|", "1|", "|1", "1 | 2 .. 3 |", "min..max", "max..min", "5..1", "1.5..2", "-", "--1", "1e3", "0x10", "99999999999999999999", "-99999999999999999999", "min", "max", " 1 .. 2 ", "1 .. 2 | 2 .. 3"}[c.V%24]
		ty := []string{"int8", "uint8", "int64", "uint64", "decimal64 { fraction-digits 2; ", "string"}[c.N%6]
		kw := "range"
		if ty == "string" {
			kw = "length"
		}
		if strings.HasPrefix(ty, "decimal64") {
			out.Text = hdr("m") + "leaf x { type " + ty + kw + " \"" + r + "\"; } } }"
		} else {
			out.Text = hdr("m") + "leaf x { type " + ty + " { " + kw + " \"" + r + "\"; } } }"
		}
	case "pattern-garbage":
		p := []string{"(", "[", "a{1,", "*", "\\", "(?P<n>a)", "a{99999}", "\\p{IsBasicLatin}", "[a-z-[aeiou]]", ""}[c.V%10]
		out.Text = hdr("m") + "leaf x { type string { pattern '" + p + "'; } } }"
	case "enum-garbage":
		e := []string{"enum a; enum a;", "enum a { value 1; } enum b { value 1; }", "enum a { value 2147483647; } enum b;", "enum a { value -1; }", "enum \"\";", "enum a { value x; }", "enum a { value 99999999999; }", ""}[c.V%8]
		out.Text = hdr("m") + "leaf x { type enumeration { " + e + " } } }"
	case "bits-garbage":
		e := []string{"bit a; bit a;", "bit a { position 1; } bit b { position 1; }", "bit a { position 4294967295; } bit b;", "bit a { position 64; }", "bit a { position 100; }", "bit a { position x; }", ""}[c.V%7]
		out.Text = hdr("m") + "leaf x { type bits { " + e + " } default a; } }"
	case "default-mismatch":
		d := []string{"int8; default 200", "int8; default x", "boolean; default maybe", "enumeration { enum a; } default b", "identityref { base i; } default nothere", "union { type int8; type boolean; } default x", "bits { bit a; } default b", "empty; default x", "leafref { path \"../y\"; } default x", "decimal64 { fraction-digits 2; } default 1.234"}[c.V%10]
		out.Text = hdr("m") + "identity i; leaf y { type int8; } leaf x { type " + d + "; } }"
	case "feature-garbage":
		e := []string{"", "(", ")", "a and", "and a", "a or or b", "not", "a b", "((a)", "(a))", "nothere", "a and nothere", "not not a", "a:b", "m:a", "x:a"}[c.V%16]
		out.Text = hdr("m") + "feature a; feature b; leaf x { if-feature \"" + e + "\"; type string; } }"
	case "submodule-top":
		out.Text = "submodule s { belongs-to " + []string{"m", "nothere", "s"}[c.V%3] + " { prefix m; } leaf x { type string; } }"
		out.Files["m.yang"] = hdr("m") + "include s; }"
	case "rpc-shapes":
		body := []string{"", "input { } output { }", "input { } input { }", "output { } output { }", "input { uses g; } output { uses g; }", "input { choice c { leaf a { type string; } } }", "typedef t { type string; } grouping gg { } input { leaf a { type t; } uses gg; }"}[c.V%7]
		out.Text = hdr("m") + "grouping g { leaf x { type string; } } rpc r { " + body + " } container c { action a { " + body + " } } }"
	case "when-garbage":
		w := []string{"", "(", "a =", "= 1", "a = 'x", "../../../../a", "a[", "a/b/c = 1 and", "1 = 1", "not(a)", "a | b", "count(a) > 1", "\x00"}[c.V%13]
		out.Text = hdr("m") + "leaf a { type string; } leaf x { when \"" + strings.ReplaceAll(w, "\"", "") + "\"; type string; } }"
	case "empty-bodies":
		b := []string{"container c { }", "list l { }", "leaf x { }", "leaf-list x { }", "choice c { }", "choice c { case d { } }", "grouping g { } uses g;", "typedef t { }", "rpc r { }", "notification n { }", "identity i { }", "feature f { }", "extension e { }", "augment \"/c\" { }", "leaf x { type enumeration { } }", "leaf x { type union { } }", "leaf x { type leafref { } }", "leaf x { type identityref { } }", "leaf x { type bits { } }", "leaf x { type decimal64 { } }", "anyxml a { }", "anydata a { }", "deviation \"/c\" { }", "list l { key \"\"; }"}[c.V%24]
		out.Text = hdr("m") + b + " }"
	case "long-ident":
		out.Text = hdr("m") + "leaf " + rep("x", n) + " { type string; } }"
	case "long-token-run":
		out.Text = hdr("m") + "leaf x { type string; description " + rep("a", n) + "; } }"
	case "no-module":
		out.Text = []string{"", " ", ";", "{", "}", "module", "module {", "module m", "module m {", "module m { }", "submodule", "leaf x { type string; }", "\x00", "\xff\xfe", "module m { namespace; }", "module \"m\" { }", "module m { prefix ; }", "module m { revision; }"}[c.V%18]
	default:
		out.Text = ""
	}
	return out
}

var c14Shapes = []string{"include-cycle-nodata", "import-misnamed-cycle", "disabled-uses-cycle", "nest-container", "nest-list", "nest-choice", "nest-grouping", "nest-open", "nest-close", "nest-union", "nest-ext", "ext-args", "ext-args-str", "concat", "concat-dangling",
	"many-siblings", "dup-siblings", "dup-statements", "dup-header", "unterminated-dquote", "unterminated-squote", "unterminated-comment", "line-comment-eof", "line-comment-only", "backslash-eof",
	"typedef-cycle", "grouping-cycle", "grouping-cycle-unused", "identity-cycle", "identity-lattice", "extension-body", "leafref-cycle", "union-self", "import-self", "import-mutual", "import-chain-cycle", "include-self", "include-mutual",
	"include-module", "import-submodule", "import-garbage", "import-missing", "include-missing", "import-readerr", "include-readerr", "serve-same", "leafref-to-container", "leafref-to-list", "leafref-into-import",
	"augment-bad-target", "refine-bad-target", "refine-wrong-kind", "deviation", "default-twice", "key-missing", "unique-bad", "type-unknown", "uses-unknown", "base-unknown", "range-garbage",
	"pattern-garbage", "enum-garbage", "bits-garbage", "default-mismatch", "feature-garbage", "submodule-top", "rpc-shapes", "when-garbage", "empty-bodies", "long-ident", "long-token-run", "no-module"}

var c14Struct = hx.Register(&hx.Check[c14StructCase]{
	Name:    "c14-structured",
	Journal: true,
	Rule:    "parameterised pathological modules: nesting depth 1..400 of every nestable statement, 1..300 extension arguments / concatenations / siblings, unterminated strings and comments, // at EOF, reference cycles (typedef, grouping, identity, leafref, union, import, include; self, mutual, chains), imports/includes answered by a missing file, an error, a read error after n bytes, a module where a submodule is expected and vice versa, garbage; paths hitting the wrong node kind for leafref / augment / refine / deviation / key / unique; malformed range, pattern, enum, bits, default, if-feature and when arguments; every case is non-trivial",
	Gen: func(t *rapid.T) c14StructCase {
		return c14StructCase{
			Shape: rapid.SampledFrom(c14Shapes).Draw(t, "shape"),
			N:     rapid.SampledFrom([]int{0, 1, 2, 3, 5, 8, 16, 32, 63, 64, 65, 127, 128, 129, 255, 256, 257, 300, 400}).Draw(t, "n"),
			V:     rapid.IntRange(0, 47).Draw(t, "v"),
		}
	},
	Run: func(c c14StructCase, o *hx.Obs) {
		o.Class("shape=%s", c.Shape)
		o.NonTrivial()
		runLoad(c14Build(c), o)
	},
})

// token soup
var c14Soup = hx.Register(&hx.Check[c14Case]{
	Name:    "c14-token-soup",
	Journal: true,
	Rule:    "a module header followed by 1-40 random YANG tokens (keywords, braces, semicolons, strings, numbers, paths), grammar-unaware; every case is non-trivial",
	Gen: func(t *rapid.T) c14Case {
		n := rapid.IntRange(1, 40).Draw(t, "n")
		var b strings.Builder
		if rapid.IntRange(0, 9).Draw(t, "hdr") > 0 {
			b.WriteString(hdr("m"))
		}
		for i := 0; i < n; i++ {
			switch rapid.IntRange(0, 5).Draw(t, "k") {
			case 0:
				b.WriteString("{ ")
			case 1:
				b.WriteString("} ")
			case 2:
				b.WriteString("; ")
			default:
				b.WriteString(rapid.SampledFrom(yangKeywords).Draw(t, "kw"))
				b.WriteString(" ")
			}
		}
		return c14Case{Kind: "soup", Dir: "yang", Text: b.String()}
	},
	Run: func(c c14Case, o *hx.Obs) {
		o.NonTrivial()
		runLoad(c, o)
	},
})

func TestC14(t *testing.T) {
	debug.SetMaxStack(48 << 20) // make unbounded recursion die quickly instead of eating 1 GB
	s := hx.Begin(t, "C14")
	defer s.End()
	loadCorpus()
	limit := 1200
	if s.Thorough() {
		limit = 4096
	}
	hx.Each(s, c14Prefix, true, func(yield func(c14Case) bool) {
		for _, f := range corpusFiles {
			if len(f.Text) > limit {
				continue
			}
			for k := 0; k <= len(f.Text); k++ {
				if !yield(c14Case{Kind: "prefix", Dir: f.Dir, Text: f.Text[:k], Base: f.Dir + "/" + f.Name}) {
					return
				}
			}
		}
	})
	// the structured product is small enough to enumerate: shape x n x v
	hx.Each(s, c14Struct, false, func(yield func(c14StructCase) bool) {
		for _, sh := range c14Shapes {
			for _, n := range []int{0, 1, 2, 3, 8, 25, 64, 65, 128, 256, 257, 400} {
				for v := 0; v < 25; v++ {
					if !yield(c14StructCase{sh, n, v}) {
						return
					}
				}
			}
		}
	})
	hx.Each(s, c14Misplaced, true, c14MisplacedCases)
	hx.Each(s, c14Statement, true, c14StatementCases)
	hx.Run(s, c14Groups, s.N(3000, 40000))
	hx.Run(s, c14Mutate, s.N(6000, 60000))
	hx.Run(s, c14Soup, s.N(4000, 40000))
}
