package props

// C18 on Go structs whose content is only reachable through accessor methods (no exported field): the way
// nodeutil.Node's documentation shows for custom children and leaves.

import (
	"encoding/json"
	"fmt"
	"reflect"

	"github.com/freeconf/yang/node"
	"github.com/freeconf/yang/nodeutil"
	"github.com/freeconf/yang/parser"
	"pgregory.net/rapid"

	"verif/harness/hx"
)

type c18AccInner struct {
	Y string
	Z int
}

type c18AccApp struct {
	Keep  string
	Other int
	c     *c18AccInner // container c, through GetC / SetC only
	note  string       // leaf note, through GetNote / SetNote only
}

func (a *c18AccApp) GetC() *c18AccInner  { return a.c }
func (a *c18AccApp) SetC(c *c18AccInner) { a.c = c }
func (a *c18AccApp) GetNote() string     { return a.note }
func (a *c18AccApp) SetNote(s string)    { a.note = s }

const c18AccYang = `module ga { namespace "urn:ga"; prefix ga;
 leaf keep { type string; } leaf other { type int32; } leaf note { type string; }
 container c { leaf y { type string; } leaf z { type int32; } } }`

type c18AccOp struct {
	Kind string                 `json:"kind"` // upsert | delete-c | clear-note | set-note
	Doc  map[string]interface{} `json:"doc,omitempty"`
}

type c18AccCase struct {
	Ops []c18AccOp `json:"ops"`
}

var c18Acc = hx.Register(&hx.Check[c18AccCase]{
	Name: "c18-accessor-structs",
	Rule: "a Go struct with two exported fields, a container and a leaf that are only reachable through Get / Set methods, served by nodeutil.Node; 1-6 operations {upsert of some of the four, delete of the container, clearing and setting of the accessor leaf}; after every step a read shows exactly what the operations so far leave: a delete removes the container and nothing else; non-trivial = a delete or clear while the exported fields hold values",
	Gen: func(t *rapid.T) c18AccCase {
		var c c18AccCase
		for i := 0; i < rapid.IntRange(1, 6).Draw(t, "nops"); i++ {
			op := c18AccOp{Kind: rapid.SampledFrom([]string{"upsert", "upsert", "delete-c", "clear-note", "set-note"}).Draw(t, "kind")}
			if op.Kind == "upsert" {
				op.Doc = map[string]interface{}{}
				if rapid.Bool().Draw(t, "keep") {
					op.Doc["keep"] = fmt.Sprintf("k%d", i)
				}
				if rapid.Bool().Draw(t, "other") {
					op.Doc["other"] = float64(i + 1)
				}
				if rapid.Bool().Draw(t, "note") {
					op.Doc["note"] = fmt.Sprintf("n%d", i)
				}
				if rapid.Bool().Draw(t, "c") {
					op.Doc["c"] = map[string]interface{}{"y": fmt.Sprintf("y%d", i), "z": float64(i + 10)}
				}
				if len(op.Doc) == 0 {
					op.Doc["keep"] = fmt.Sprintf("k%d", i)
				}
			}
			c.Ops = append(c.Ops, op)
		}
		return c
	},
	Run: func(c c18AccCase, o *hx.Obs) {
		m, err := parser.LoadModuleFromString(nil, c18AccYang)
		if err != nil {
			o.Failf("harness|schema-rejected", "%v", err)
			return
		}
		app := &c18AccApp{}
		model := map[string]interface{}{}
		for i, op := range c.Ops {
			o.Class("op=%s", op.Kind)
			if (op.Kind == "delete-c" || op.Kind == "clear-note") && (model["keep"] != nil || model["other"] != nil) {
				o.NonTrivial()
			}
			var oerr error
			if o.Guard(op.Kind, func() {
				root := node.NewBrowser(m, &nodeutil.Node{Object: app}).Root()
				switch op.Kind {
				case "upsert":
					doc, _ := json.Marshal(op.Doc)
					src, e := nodeutil.ReadJSON(string(doc))
					if e != nil {
						oerr = e
						return
					}
					oerr = root.UpsertFrom(src)
				case "delete-c":
					sel, e := root.Find("c")
					if e != nil {
						oerr = e
						return
					}
					if sel != nil {
						oerr = sel.Delete()
					}
				case "clear-note":
					sel, e := root.Find("note")
					if e != nil || sel == nil {
						oerr = e
						return
					}
					oerr = sel.Delete()
				case "set-note":
					sel, e := root.Find("note")
					if e != nil || sel == nil {
						oerr = fmt.Errorf("Find(note): %v", e)
						return
					}
					oerr = sel.SetValue(fmt.Sprintf("s%d", i))
				}
			}) {
				return
			}
			if oerr != nil {
				o.Failf("accessor-struct|"+op.Kind+"|error", "step %d %s failed: %v", i, op.Kind, oerr)
				return
			}
			switch op.Kind {
			case "upsert":
				for k, v := range op.Doc {
					if k == "c" {
						model["c"] = v
					} else {
						model[k] = v
					}
				}
			case "delete-c":
				delete(model, "c")
			case "clear-note":
				delete(model, "note")
			case "set-note":
				model["note"] = fmt.Sprintf("s%d", i)
			}
			var text string
			var rerr error
			if o.Guard("read", func() { text, rerr = nodeutil.WriteJSON(node.NewBrowser(m, &nodeutil.Node{Object: app}).Root()) }) {
				return
			}
			if rerr != nil {
				o.Failf("accessor-struct|"+op.Kind+"|read-error", "read after step %d failed: %v", i, rerr)
				return
			}
			var got map[string]interface{}
			if e := json.Unmarshal([]byte(text), &got); e != nil {
				o.Failf("accessor-struct|"+op.Kind+"|malformed", "%v\n%s", e, text)
				return
			}
			// a Go field cannot be unset: zero values of the exported fields and of the accessor leaf count as absent
			norm := func(t map[string]interface{}) map[string]interface{} {
				out := map[string]interface{}{}
				for k, v := range t {
					if v == "" || v == float64(0) || v == nil {
						continue
					}
					if cm, ok := v.(map[string]interface{}); ok {
						cc := map[string]interface{}{}
						for ck, cv := range cm {
							if cv != "" && cv != float64(0) {
								cc[ck] = cv
							}
						}
						v = cc
					}
					out[k] = v
				}
				return out
			}
			if g, w := norm(got), norm(model); !reflect.DeepEqual(g, w) {
				wb, _ := json.Marshal(w)
				o.Failf("accessor-struct|"+op.Kind+"|differs", "after step %d (%s) the struct reads %s, the operations so far leave %s; ops %+v", i, op.Kind, text, wb, c.Ops[:i+1])
				return
			}
		}
	},
})
