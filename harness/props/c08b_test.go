package props

import (
	"fmt"
	"net/url"
	"strings"

	"github.com/freeconf/yang/meta"
	"github.com/freeconf/yang/node"
	"github.com/freeconf/yang/nodeutil"
	"github.com/freeconf/yang/parser"

	"verif/harness/hx"
)

// C08 for the remaining kinds of terminal node: anydata / anyxml (the generated schemas of c08-find have none).

type c08AnyCase struct {
	Start    string `json:"start"`    // "" = root, else a path to start from
	Path     string `json:"path"`     // path given to Find (relative to Start)
	Want     string `json:"want"`     // identifier of the node that must be selected
	WantPath string `json:"wantPath"` // rendering of the selection's path
	Present  bool   `json:"present"`
}

const c08AnyYang = `module ga { namespace "urn:ga"; prefix ga;
 container c { leaf a { type string; } anydata blob; anyxml x2;
  list l { key k; leaf k { type string; } anydata item-blob; leaf after { type string; } }
  container in { anyxml deep; } }
 anydata top-blob; leaf z { type string; } }`

func c08AnyData() map[string]interface{} {
	return map[string]interface{}{
		"c": map[string]interface{}{"a": "v", "blob": map[string]interface{}{"p": 1}, "x2": "zz",
			"l":  map[string]interface{}{"k1": map[string]interface{}{"k": "k1", "item-blob": map[string]interface{}{"r": 2}, "after": "x"}, "k 2": map[string]interface{}{"k": "k 2", "item-blob": "s"}},
			"in": map[string]interface{}{"deep": map[string]interface{}{"d": true}}},
		"top-blob": map[string]interface{}{"s": 3}, "z": "zv"}
}

func c08AnyRun(c c08AnyCase, o *hx.Obs) {
	o.NonTrivial()
	m, err := parser.LoadModuleFromString(nil, c08AnyYang)
	if err != nil {
		o.Failf("harness|schema-rejected", "%v", err)
		return
	}
	var sel *node.Selection
	var ferr error
	if o.Guard("Find", func() {
		s := node.NewBrowser(m, nodeutil.ReflectChild(c08AnyData())).Root()
		if c.Start != "" {
			if s, ferr = s.Find(c.Start); ferr != nil || s == nil {
				ferr = fmt.Errorf("harness: start %q: %v", c.Start, ferr)
				return
			}
		}
		sel, ferr = s.Find(c.Path)
	}) {
		return
	}
	if ferr != nil && strings.HasPrefix(ferr.Error(), "harness:") {
		o.Failf("find|any|start", "%v", ferr)
		return
	}
	if ferr != nil || sel == nil {
		o.Failf("find|any|nil", "Find(%q) from %q: sel=%v err=%v, want the %s node", c.Path, c.Start, sel != nil, ferr, c.Want)
		return
	}
	if sel.Meta().Ident() != c.Want {
		o.Failf("find|any|wrong-node", "Find(%q) from %q selected %s (%T), want %s", c.Path, c.Start, meta.SchemaPath(sel.Meta()), sel.Meta(), c.Want)
		return
	}
	unesc := func(s string) string {
		if u, err := url.PathUnescape(s); err == nil {
			return u
		}
		return s
	}
	if got := sel.Path.String(); unesc(got) != unesc(c.WantPath) {
		o.Failf("find|any|wrong-path", "Find(%q) from %q: the selection's path is %q, want %q", c.Path, c.Start, got, c.WantPath)
	}
}

var c08Any = hx.Register(&hx.Check[c08AnyCase]{
	Name: "c08-find-anydata",
	Rule: "anydata / anyxml nodes at the top level, in a container, in a nested container and in list entries (one key with a blank), addressed plainly, with module-qualified segments, with a trailing slash and through ../ steps from three start selections: Find selects exactly that node and its path names it; enumerated completely",
	Run:  c08AnyRun,
})

func c08AnyCases(yield func(c08AnyCase) bool) {
	targets := []struct{ path, want, wantPath string }{
		{"c/blob", "blob", "ga/c/blob"}, {"c/x2", "x2", "ga/c/x2"}, {"c/l=k1/item-blob", "item-blob", "ga/c/l=k1/item-blob"},
		{"c/l=k%202/item-blob", "item-blob", "ga/c/l=k%202/item-blob"}, {"c/in/deep", "deep", "ga/c/in/deep"}, {"top-blob", "top-blob", "ga/top-blob"},
		// ordinary neighbours as a control
		{"c/a", "a", "ga/c/a"}, {"c/l=k1/after", "after", "ga/c/l=k1/after"}, {"z", "z", "ga/z"},
	}
	for _, tg := range targets {
		forms := []string{tg.path, tg.path + "/", "ga:" + strings.ReplaceAll(tg.path, "/", "/ga:")}
		for _, f := range forms {
			if !yield(c08AnyCase{Path: f, Want: tg.want, WantPath: tg.wantPath, Present: true}) {
				return
			}
		}
		for _, start := range []string{"c", "c/in", "c/l=k1"} {
			up := strings.Repeat("../", strings.Count(start, "/")+1)
			if start == "c/l=k1" {
				up = "../../../" // entry -> list -> container c -> root
			}
			if !yield(c08AnyCase{Start: start, Path: up + tg.path, Want: tg.want, WantPath: tg.wantPath, Present: true}) {
				return
			}
		}
	}
}
