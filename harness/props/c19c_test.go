package props

import (
	"strings"

	"github.com/freeconf/yang/node"
	"github.com/freeconf/yang/nodeutil"
	"pgregory.net/rapid"

	"verif/harness/dm"
	"verif/harness/hx"
)

// C19, last sentence: "the output is always a well-formed XML document with a single root element" - also when the
// export starts at a container, a list entry or a whole list instead of the module.

type c19StartCase struct {
	Module *dm.Module `json:"module"`
	Data   dm.Tree    `json:"data"`
	Start  dm.Path    `json:"start"`
	Writer string     `json:"writer"` // doc | wtr1
	Pretty bool       `json:"pretty"`
}

var c19Start = hx.Register(&hx.Check[c19StartCase]{
	Name: "c19-start-selection",
	Rule: "generated schema + data, export through WriteXMLDoc (pretty / compact) and WriteXML starting at a container, a list entry or a whole list: the output must parse as one document with a single root element that is named after the start node and lies in the module's namespace; for a container or list entry the content must be the data below it; non-trivial = the start is a list or an entry",
	Gen: func(t *rapid.T) c19StartCase {
		o := dm.DefaultGen()
		o.Types = []string{"int8", "int32", "uint64", "decimal64", "string", "boolean", "enumeration"}
		m := dm.GenModule(t, o)
		data := dm.GenTree(t, m.Root(), dm.TreeOpts{MaxEntries: 3, PresentPct: 85, EasyKeys: true, EasyStrings: true, NoEmptyStr: true})
		c := c19StartCase{Module: m, Data: data, Writer: rapid.SampledFrom([]string{"doc", "wtr1"}).Draw(t, "writer"), Pretty: rapid.Bool().Draw(t, "pretty")}
		if paths := dm.AllPaths(m.Root(), data, nil); len(paths) > 0 {
			c.Start = paths[rapid.IntRange(0, len(paths)-1).Draw(t, "start")]
		}
		return c
	},
	Run: func(c c19StartCase, o *hx.Obs) {
		if len(c.Start) == 0 {
			return
		}
		root := c.Module.Root()
		mm, err := loadDM(c.Module)
		if err != nil {
			o.Failf("harness|schema-rejected", "%v\n%s", err, c.Module.Yang())
			return
		}
		sn, sv, ok := dm.Resolve(root, c.Data, c.Start)
		if !ok {
			return
		}
		kind := sn.Kind
		if sn.Kind == "list" && c.Start[len(c.Start)-1].Key != nil {
			kind = "entry"
		}
		o.Class("start=%s writer=%s", kind, c.Writer)
		if kind != "container" {
			o.NonTrivial()
		}
		sig := func(clause string) string { return "xml-start|" + c.Writer + "|" + kind + "|" + clause }
		var text string
		var werr error
		if o.Guard("XML writer", func() {
			sel, ferr := node.NewBrowser(mm, dm.NewRS(root, dm.CloneTree(c.Data))).Root().Find(findPath(c.Start))
			if ferr != nil || sel == nil {
				werr = ferr
				return
			}
			if c.Writer == "doc" {
				text, werr = nodeutil.WriteXMLDoc(sel, c.Pretty)
			} else {
				text, werr = nodeutil.WriteXML(sel)
			}
		}) {
			return
		}
		if werr != nil {
			o.Failf(sig("write-error"), "XML write from %s failed: %v", findPath(c.Start), werr)
			return
		}
		x, perr := dm.ParseXML(text)
		if perr != nil {
			clause := "malformed"
			if strings.HasPrefix(perr.Error(), "multi-root") || strings.HasPrefix(perr.Error(), "no root") {
				clause = "multi-root"
			}
			o.Failf(sig(clause), "export from %s is not one well-formed document: %v\n%s", findPath(c.Start), perr, text)
			return
		}
		if x.Name != sn.Name {
			o.Failf(sig("root-name"), "export from %s has the root element <%s>, the start node is %s\n%s", findPath(c.Start), x.Name, sn.Name, text)
			return
		}
		if x.NS != c.Module.Namespace() {
			o.Failf(sig("namespace"), "root element <%s> is in namespace %q\n%s", x.Name, x.NS, text)
			return
		}
		if st, isTree := sv.(dm.Tree); isTree && kind != "list" {
			got, probs := dm.XMLToTree(sn, x, c.Module.Namespace(), "")
			if len(probs) > 0 {
				o.Failf(sig(probs[0].Clause+"-"+probs[0].Kind), "%s\n%s", probs[0], text)
				return
			}
			if d := dm.Diff(sn, st, got, dm.DiffOpts{IgnoreEmptyList: true, AllowDefaults: true}, ""); len(d) > 0 {
				o.Failf(sig("text-"+dm.Clause(d[0])), "export from %s differs from the data below it:\n%s\n%s", findPath(c.Start), joinMax(d, 5), text)
			}
		}
	},
})
