package props

import (
	"fmt"
	"io"
	"os"
	"sort"
	"strings"
	"sync"

	"github.com/freeconf/yang/meta"
	"github.com/freeconf/yang/parser"
	"github.com/freeconf/yang/source"
)

// memOpener serves generated module files from memory.
func memOpener(files map[string]string) source.Opener {
	return func(name string, ext string) (io.Reader, error) {
		if s, ok := files[name+ext]; ok {
			return strings.NewReader(s), nil
		}
		if s, ok := files[name]; ok && ext == ".yang" {
			return strings.NewReader(s), nil
		}
		return nil, fmt.Errorf("%s%s: %w", name, ext, os.ErrNotExist)
	}
}

var modCache sync.Map

// mustModule loads (and caches) a fixed schema; panics when it does not load,
// which would be a harness error for the hand-written schemas.
func mustModule(text string) *meta.Module {
	if m, ok := modCache.Load(text); ok {
		return m.(*meta.Module)
	}
	m, err := parser.LoadModuleFromString(nil, text)
	if err != nil {
		panic("fixed schema does not load: " + err.Error())
	}
	modCache.Store(text, m)
	return m
}

func findDef(parent meta.HasDataDefinitions, name string) meta.Definition {
	for _, d := range parent.DataDefinitions() {
		if d.Ident() == name {
			return d
		}
		if ch, ok := d.(*meta.Choice); ok {
			for _, cid := range sortedCaseIdents(ch) {
				if r := findDef(ch.Cases()[cid], name); r != nil {
					return r
				}
			}
		}
	}
	return nil
}

func sortedCaseIdents(ch *meta.Choice) []string {
	var ids []string
	for id := range ch.Cases() {
		ids = append(ids, id)
	}
	sort.Strings(ids)
	return ids
}

func sortedKeys[V any](m map[string]V) []string {
	ks := make([]string, 0, len(m))
	for k := range m {
		ks = append(ks, k)
	}
	sort.Strings(ks)
	return ks
}
