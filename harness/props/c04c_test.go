package props

// C04 on two kinds of content the generated schemas of c04-export-json have none of: nodes that come from a grouping of
// an imported module (their member names carry that module's name in RFC 7951 JSON), and anydata / anyxml, whose
// content is JSON of any shape.

import (
	"bytes"
	"encoding/json"
	"fmt"
	"reflect"
	"strings"

	"github.com/freeconf/yang/node"
	"github.com/freeconf/yang/nodeutil"
	"github.com/freeconf/yang/parser"
	"pgregory.net/rapid"

	"verif/harness/dm"
	"verif/harness/hx"
)

// ---- module-qualified JSON of a schema built from an imported grouping and augments ----------------

func c04QRun(c c15QCase, o *hx.Obs) {
	root := c15Model(c.Augments)
	files := map[string]string{"ma.yang": c15MaYang, "mb.yang": c15MbYang(c.Augments)}
	mm, err := parser.LoadModuleFromString(memOpener(files), files["mb.yang"])
	if err != nil {
		o.Failf("harness|schema-rejected", "%v\n%s", err, files["mb.yang"])
		return
	}
	for _, a := range c.Augments {
		o.Class("augment=%s", a)
	}
	if len(dm.AllPaths(root, c.Data, nil)) >= 3 {
		o.NonTrivial()
	}
	for _, qualified := range []bool{true, false} {
		sig := func(clause string) string {
			return fmt.Sprintf("imported|qualified=%v|%s", qualified, clause)
		}
		var text string
		var werr error
		if o.Guard("JSONWtr", func() {
			sel := node.NewBrowser(mm, dm.NewRS(root, dm.CloneTree(c.Data))).Root()
			text, werr = (&nodeutil.JSONWtr{Pretty: c.Pretty, QualifyNamespace: qualified}).JSON(sel)
		}) {
			return
		}
		if werr != nil {
			o.Failf(sig("write-error"), "%v", werr)
			return
		}
		back := dm.Tree{}
		var rerr error
		if o.Guard("ReadJSON+UpsertInto", func() {
			rn, e := nodeutil.ReadJSON(text)
			if e != nil {
				rerr = e
				return
			}
			rerr = node.NewBrowser(mm, rn).Root().UpsertInto(dm.NewRS(root, back))
		}) {
			return
		}
		if rerr != nil {
			o.Failf(sig("read-error"), "reading the library's own JSON back failed: %v\n%s", rerr, text)
			return
		}
		if d := dm.Diff(root, c.Data, back, dm.DiffOpts{IgnoreEmptyList: true}, ""); len(d) > 0 {
			o.Failf(sig("roundtrip-"+dm.Clause(d[0])), "decoding the produced JSON and exporting again gives a different tree:\n%s\n%s", joinMax(d, 5), text)
			return
		}
	}
}

var c04Qualified = hx.Register(&hx.Check[c15QCase]{
	Name: "c04-imported-grouping-roundtrip",
	Rule: "the two-module schema of c15-qualified-augments (module mb uses a grouping of module ma and applies a random subset of seven augments to it), generated data, written as JSON with and without module-qualified names, read back by the library's reader against the same schema and exported into the reference store: the tree is the one written; non-trivial = at least three nodes present",
	Gen:  c15QGen,
	Run:  c04QRun,
})

// ---- anydata / anyxml ------------------------------------------------------------------------------

const c04AnyYang = `module gy { namespace "urn:gy"; prefix gy;
 container c { leaf a { type string; } anydata blob; anyxml x2;
  list l { key k; leaf k { type string; } anydata item; leaf after { type string; } } }
 anydata top; leaf z { type string; } }`

type c04AnyCase struct {
	// Doc is the JSON text of the whole document, written by the generator
	Doc    string `json:"doc"`
	Pretty bool   `json:"pretty"`
	Via    string `json:"via"` // reader: straight from the reader node | reflect: after an upsert into a map-backed node
}

func genAnyJSON(t *rapid.T, depth int, label string) interface{} {
	kinds := []string{"int", "neg", "frac", "big", "string", "bool", "null-in"}
	if depth < 3 {
		kinds = append(kinds, "object", "object", "array", "array")
	}
	switch rapid.SampledFrom(kinds).Draw(t, label+"-kind") {
	case "int":
		return json.Number(fmt.Sprint(rapid.IntRange(0, 100000).Draw(t, label)))
	case "neg":
		return json.Number(fmt.Sprint(-rapid.IntRange(1, 100000).Draw(t, label)))
	case "frac":
		return json.Number(rapid.SampledFrom([]string{"2.5", "-12.5", "0.001", "3.14159", "100.25"}).Draw(t, label))
	case "big":
		return json.Number(rapid.SampledFrom([]string{"18446744073709551615", "9223372036854775807", "-9223372036854775808", "9007199254740993"}).Draw(t, label))
	case "string":
		return rapid.SampledFrom([]string{"", "s", "5", "true", "a b", "é", "x\"y", "null"}).Draw(t, label)
	case "bool":
		return rapid.Bool().Draw(t, label)
	case "object":
		out := map[string]interface{}{}
		for i := 0; i < rapid.IntRange(0, 3).Draw(t, label+"-n"); i++ {
			out[rapid.SampledFrom([]string{"p", "q", "r", "a", "k", "x-y"}).Draw(t, label+"-name")] = genAnyJSON(t, depth+1, fmt.Sprintf("%s.%d", label, i))
		}
		return out
	case "array":
		out := []interface{}{}
		for i := 0; i < rapid.IntRange(0, 3).Draw(t, label+"-n"); i++ {
			out = append(out, genAnyJSON(t, depth+1, fmt.Sprintf("%s[%d]", label, i)))
		}
		return out
	}
	// a null inside an array or an object member (a null for the anydata itself stands for no data)
	if depth == 0 {
		return "was-null"
	}
	return nil
}

func decodeNumber(text string) (interface{}, error) {
	d := json.NewDecoder(strings.NewReader(text))
	d.UseNumber()
	var v interface{}
	err := d.Decode(&v)
	return v, err
}

var c04Any = hx.Register(&hx.Check[c04AnyCase]{
	Name: "c04-anydata-roundtrip",
	Rule: "a schema with anydata and anyxml nodes at the top level, in a container and in list entries; their content is generated JSON of any shape up to three levels (integers, negative, fractional and 64-bit-extreme numbers, strings that look like numbers or keywords, booleans, objects, arrays, nulls inside them); the document is read by the library's reader and exported as JSON again, straight from the reader node or after an upsert into a map-backed node: the exported document decodes to the same values, numbers staying numbers with the same digits and strings staying strings; non-trivial = some anydata holds a number or an array",
	Gen: func(t *rapid.T) c04AnyCase {
		doc := map[string]interface{}{}
		c := map[string]interface{}{"a": "v"}
		if rapid.Bool().Draw(t, "blob?") {
			c["blob"] = genAnyJSON(t, 0, "blob")
		}
		if rapid.Bool().Draw(t, "x2?") {
			c["x2"] = genAnyJSON(t, 0, "x2")
		}
		var l []interface{}
		for i := 0; i < rapid.IntRange(0, 2).Draw(t, "entries"); i++ {
			e := map[string]interface{}{"k": fmt.Sprintf("k%d", i), "after": "x"}
			if rapid.Bool().Draw(t, "item?") {
				e["item"] = genAnyJSON(t, 0, fmt.Sprintf("item%d", i))
			}
			l = append(l, e)
		}
		if l != nil {
			c["l"] = l
		}
		doc["c"] = c
		if rapid.Bool().Draw(t, "top?") {
			doc["top"] = genAnyJSON(t, 0, "top")
		}
		doc["z"] = "zv"
		b, _ := json.Marshal(doc)
		return c04AnyCase{Doc: string(b), Pretty: rapid.Bool().Draw(t, "pretty"), Via: rapid.SampledFrom([]string{"reader", "reader", "reflect"}).Draw(t, "via")}
	},
	Run: func(c c04AnyCase, o *hx.Obs) {
		m, err := parser.LoadModuleFromString(nil, c04AnyYang)
		if err != nil {
			o.Failf("harness|schema-rejected", "%v", err)
			return
		}
		want, err := decodeNumber(c.Doc)
		if err != nil {
			o.Failf("harness|doc", "%v", err)
			return
		}
		o.Class("via=%s", c.Via)
		if strings.ContainsAny(c.Doc, "[0123456789") {
			o.NonTrivial()
		}
		var text string
		var rerr error
		if o.Guard("ReadJSON / WriteJSON", func() {
			rn, e := nodeutil.ReadJSON(c.Doc)
			if e != nil {
				rerr = e
				return
			}
			sel := node.NewBrowser(m, rn).Root()
			if c.Via == "reflect" {
				store := map[string]interface{}{}
				if rerr = sel.UpsertInto(nodeutil.ReflectChild(store)); rerr != nil {
					return
				}
				sel = node.NewBrowser(m, nodeutil.ReflectChild(store)).Root()
			}
			text, rerr = (&nodeutil.JSONWtr{Pretty: c.Pretty}).JSON(sel)
		}) {
			return
		}
		if rerr != nil {
			o.Failf("anydata|"+c.Via+"|error", "reading and exporting %s failed: %v", c.Doc, rerr)
			return
		}
		got, derr := decodeNumber(text)
		if derr != nil {
			o.Failf("anydata|"+c.Via+"|malformed", "%v\n%s", derr, text)
			return
		}
		if !reflect.DeepEqual(want, got) {
			var wb, gb bytes.Buffer
			json.NewEncoder(&wb).Encode(want)
			json.NewEncoder(&gb).Encode(got)
			o.Failf("anydata|"+c.Via+"|differs", "the document read and exported again differs:\nread:     %sexported: %s", wb.String(), gb.String())
		}
	},
})

// ---- a list read entry by entry ----------------------------------------------------------------------

type c04IterCase struct {
	Zs    []int  `json:"zs"`    // the leaf z of the rows, in order (row i has the key i)
	Min   int    `json:"min"`   // rows with z < Min are hidden
	How   string `json:"how"`   // where (a where= parameter on the list) | when (the list states the condition itself)
	Store string `json:"store"` // rs | reflect-slice | node-slice | json-reader
}

var c04Iter = hx.Register(&hx.Check[c04IterCase]{
	Name: "c04-list-iteration",
	Rule: "a list of 1-8 rows of which a where= parameter or the list's own when hides those whose leaf z is below a bound, read entry by entry with Selection.First / ListItem.Next: every visible entry exactly once, in order, none of the hidden ones - the same entries the export of the whole list shows; on the reference store, slice-backed Reflect and Node stores and the JSON reader; non-trivial = a visible entry follows a hidden one",
	Gen: func(t *rapid.T) c04IterCase {
		c := c04IterCase{Min: rapid.IntRange(0, 3).Draw(t, "min"), How: rapid.SampledFrom([]string{"where", "when"}).Draw(t, "how"),
			Store: rapid.SampledFrom([]string{"rs", "reflect-slice", "node-slice", "json-reader"}).Draw(t, "store")}
		for i := 0; i < rapid.IntRange(1, 8).Draw(t, "rows"); i++ {
			c.Zs = append(c.Zs, rapid.IntRange(0, 4).Draw(t, "z"))
		}
		return c
	},
	Run: func(c c04IterCase, o *hx.Obs) {
		l := &dm.Node{Kind: "list", Name: "l", Keys: []string{"k"}, Children: []*dm.Node{{Kind: "leaf", Name: "k", Type: &dm.Type{Base: "int32"}}, {Kind: "leaf", Name: "z", Type: &dm.Type{Base: "int32"}}}}
		if c.How == "when" {
			l.When = fmt.Sprintf("z>=%d", c.Min)
		}
		m := &dm.Module{Name: "gm", Top: []*dm.Node{l}}
		mm, err := loadDM(m)
		if err != nil {
			o.Failf("harness|schema-rejected", "%v\n%s", err, m.Yang())
			return
		}
		var rows []interface{}
		var want []string
		afterHidden, hiddenSeen := false, false
		for i, z := range c.Zs {
			rows = append(rows, dm.Tree{"k": fmt.Sprint(i), "z": fmt.Sprint(z)})
			if z >= c.Min {
				want = append(want, fmt.Sprint(i))
				afterHidden = afterHidden || hiddenSeen
			} else {
				hiddenSeen = true
			}
		}
		if afterHidden {
			o.NonTrivial()
		}
		o.Class("how=%s", c.How)
		o.Class("store=%s", c.Store)
		store, serr := dm.NewStore(c.Store, m.Root(), dm.Tree{"l": rows})
		if serr != nil {
			o.Failf("harness|store", "%v", serr)
			return
		}
		var got []string
		var ierr error
		if o.Guard("First/Next", func() {
			path := "l"
			if c.How == "where" {
				path = fmt.Sprintf("l?where=z%%3E%%3D%d", c.Min)
			}
			sel, ferr := node.NewBrowser(mm, store.Node()).Root().Find(path)
			if ferr != nil || sel == nil {
				ierr = fmt.Errorf("harness: Find(%s): %v", path, ferr)
				return
			}
			li, e := sel.First()
			for steps := 0; e == nil && li.Selection != nil && steps < 100; steps++ {
				v, ge := li.Selection.GetValue("k")
				if ge != nil || v == nil {
					ierr = fmt.Errorf("GetValue(k): %v", ge)
					return
				}
				got = append(got, v.String())
				li, e = li.Next()
			}
			ierr = e
		}) {
			return
		}
		if ierr != nil {
			o.Failf("list-iteration|"+c.How+"|"+c.Store+"|error", "iteration failed: %v", ierr)
			return
		}
		if strings.Join(got, ",") != strings.Join(want, ",") {
			o.Failf("list-iteration|"+c.How+"|"+c.Store+"|entries", "rows with z %v, hidden below %d by %s: First/Next gave the entries [%s], visible are [%s]", c.Zs, c.Min, c.How, strings.Join(got, ","), strings.Join(want, ","))
		}
	},
})
