package props

import (
	"fmt"
	"math/big"
	"reflect"
	"sort"
	"strings"

	"github.com/freeconf/yang/meta"
	"github.com/freeconf/yang/node"
	"github.com/freeconf/yang/val"
	"pgregory.net/rapid"

	"verif/harness/hx"
)

// list sources ------------------------------------------------------------------

type srcList struct {
	Kind  string   `json:"kind"` // "[]interface{}", "[]string", "[]float64", "[]int", "[]T" (typed slice of Items[0].Kind), "single"
	Items []srcVal `json:"items"`
}

func (l srcList) goValue() (interface{}, bool) {
	vals := make([]interface{}, len(l.Items))
	for i, it := range l.Items {
		v, ok := it.goValue()
		if !ok {
			return nil, false
		}
		vals[i] = v
	}
	switch l.Kind {
	case "single":
		if len(vals) != 1 {
			return nil, false
		}
		return vals[0], true
	case "[]interface{}":
		return vals, true
	case "[]T", "[]string", "[]float64", "[]int":
		if len(vals) == 0 {
			return nil, false
		}
		t := reflect.TypeOf(vals[0])
		sl := reflect.MakeSlice(reflect.SliceOf(t), 0, len(vals))
		for _, v := range vals {
			if reflect.TypeOf(v) != t {
				return nil, false
			}
			sl = reflect.Append(sl, reflect.ValueOf(v))
		}
		return sl.Interface(), true
	}
	return nil, false
}

func genSrcList(t *rapid.T) srcList {
	kind := rapid.SampledFrom([]string{"[]interface{}", "[]interface{}", "[]T", "[]string", "[]float64", "[]int", "single"}).Draw(t, "lkind")
	n := rapid.IntRange(1, 4).Draw(t, "n")
	if kind == "single" {
		n = 1
	}
	var l srcList
	l.Kind = kind
	var fixed string
	switch kind {
	case "[]string":
		fixed = "string"
	case "[]float64":
		fixed = "float64"
	case "[]int":
		fixed = "int"
	}
	for i := 0; i < n; i++ {
		s := genSrc(t, fmt.Sprintf("i%d", i))
		want := fixed
		if kind == "[]T" && i > 0 {
			want = l.Items[0].Kind
		}
		if want != "" && s.Kind != want {
			// redraw the value inside the wanted kind (construction, not rejection)
			s = genSrcOfKind(t, want, fmt.Sprintf("k%d", i))
		}
		l.Items = append(l.Items, s)
	}
	return l
}

func genSrcOfKind(t *rapid.T, kind, label string) srcVal {
	switch kind {
	case "bool":
		return srcVal{kind, fmt.Sprint(rapid.Bool().Draw(t, label))}
	case "string":
		if rapid.Bool().Draw(t, label+"-n") {
			return srcVal{kind, rapid.SampledFrom(c10NumBoundaries).Draw(t, label)}
		}
		return srcVal{kind, rapid.SampledFrom(c10StringBoundaries).Draw(t, label)}
	case "float64", "float32":
		if rapid.Bool().Draw(t, label+"-b") {
			return srcVal{kind, rapid.SampledFrom(c10FloatBoundaries).Draw(t, label)}
		}
		return srcVal{kind, rapid.SampledFrom(c10NumBoundaries).Draw(t, label)}
	}
	min, max := kindRange(kind)
	var in []string
	for _, s := range c10NumBoundaries {
		b := bi(s)
		if b.Cmp(min) >= 0 && b.Cmp(max) <= 0 {
			in = append(in, s)
		}
	}
	return srcVal{kind, rapid.SampledFrom(in).Draw(t, label)}
}

type c10ListCase struct {
	Target string  `json:"target"`
	Src    srcList `json:"src"`
}

var c10ListTargets = []val.Format{val.FmtInt8List, val.FmtInt16List, val.FmtInt32List, val.FmtInt64List, val.FmtUInt8List, val.FmtUInt16List,
	val.FmtUInt32List, val.FmtUInt64List, val.FmtDecimal64List, val.FmtBoolList, val.FmtStringList}

var c10List = hx.Register(&hx.Check[c10ListCase]{
	Name: "c10-list",
	Rule: "list target format x slice source ([]interface{} of mixed kinds, typed slices, []string, []float64, []int, or a single scalar) with 1-4 boundary-biased elements; a successful conversion must have one element per source element, each exact; non-trivial = some element non-trivial as in c10-scalar",
	Gen: func(t *rapid.T) c10ListCase {
		tf := c10ListTargets[rapid.IntRange(0, len(c10ListTargets)-1).Draw(t, "target")]
		return c10ListCase{fmtName(tf), genSrcList(t)}
	},
	Run: func(c c10ListCase, o *hx.Obs) {
		target := fmtByName(c.Target)
		gv, ok := c.Src.goValue()
		if !ok {
			return
		}
		o.Class("target=%s", c.Target)
		o.Class("src=%s", c.Src.Kind)
		for _, it := range c.Src.Items {
			if c10NonTrivial(target.Single(), it) {
				o.NonTrivial()
			}
		}
		var got val.Value
		var err error
		if o.Guard("val.Conv", func() { got, err = val.Conv(target, gv) }) {
			return
		}
		if err != nil {
			o.Class("result=error")
			return
		}
		o.Class("result=value")
		elemKind := "mixed"
		if c.Src.Kind != "[]interface{}" {
			elemKind = c.Src.Items[0].Kind
		}
		sigBase := "conv|" + c.Target + "|" + c.Src.Kind + ":" + elemKind + "|"
		if got == nil || got.Format() != target {
			o.Failf(sigBase+"wrong-format", "val.Conv(%s, %v) = %v", c.Target, gv, got)
			return
		}
		l, ok := got.(val.Listable)
		if !ok {
			o.Failf(sigBase+"not-listable", "val.Conv(%s, %v) = %T", c.Target, gv, got)
			return
		}
		if l.Len() != len(c.Src.Items) {
			o.Failf(sigBase+"length", "val.Conv(%s, %v) has %d elements want %d", c.Target, gv, l.Len(), len(c.Src.Items))
			return
		}
		for i, it := range c.Src.Items {
			if cl, msg := c10Judge(target.Single(), it, l.Item(i)); cl != "" {
				o.Failf("conv|"+c.Target+"|"+c.Src.Kind+":"+it.Kind+"|"+cl, "val.Conv(%s, %v) element %d = %v: %s", c.Target, gv, i, l.Item(i), msg)
			}
		}
	},
})

// schema-typed conversions (node.NewValue) ---------------------------------------

const c10Yang = `module c10 { namespace "urn:c10"; prefix c; revision 2020-01-01;
 identity base; identity d1 { base base; } identity d2 { base d1; } identity other;
 typedef en { type enumeration { enum a; enum b { value 5; } enum c; enum z { value 0; } } }
 typedef bt { type bits { bit x; bit y { position 5; } bit z; bit h53 { position 53; } bit h60 { position 60; } } }
 leaf e { type en; }
 leaf-list el { type en; }
 leaf b { type bt; }
 leaf-list bl { type bt; }
 leaf i { type identityref { base base; } }
 leaf-list il { type identityref { base base; } }
 leaf u { type union { type int8; type boolean; type string; } }
 leaf u2 { type union { type uint16; type int32; } }
 leaf-list ul { type union { type int8; type string; } }
 leaf ep { type enumeration { enum pa { value 0; } enum pb { value 2; } enum pc { value 1; } enum pd { value 3; } } }
 leaf-list epl { type enumeration { enum pa { value 0; } enum pb { value 2; } enum pc { value 1; } enum pd { value 3; } } }
 leaf lr { type leafref { path "../n16"; } }
 leaf n16 { type int16; }
 leaf-list lrl { type leafref { path "../n16"; } }
}`

// enum a=0? RFC: first enum without value gets 0, b=5, c=6, z=0 would collide; keep z out of the oracle when the library rejects.
var c10Enums = map[string]int{"a": 0, "b": 5, "c": 6}

// values that do not ascend with the declaration order, first 0 and last n-1
var c10EnumsPermuted = map[string]int{"pa": 0, "pb": 2, "pc": 1, "pd": 3}

type c10TypedCase struct {
	Leaf string  `json:"leaf"`
	Src  srcList `json:"src"`
}

func c10Leaf(name string) meta.Leafable {
	m := mustModule(strings.Replace(c10Yang, " enum z { value 0; }", "", 1))
	return findDef(m, name).(meta.Leafable)
}

var bitPos = map[string]uint{"x": 0, "y": 5, "z": 6, "h53": 53, "h60": 60}

func genTypedSrc(t *rapid.T, leaf string) srcList {
	pick := func(label string) srcVal {
		switch strings.TrimSuffix(strings.TrimSuffix(leaf, "l"), "2") {
		case "e":
			return rapid.OneOf(
				rapid.Map(rapid.SampledFrom([]string{"a", "b", "c", "d", "", "A", "a ", "z"}), func(s string) srcVal { return srcVal{"string", s} }),
				rapid.Map(rapid.SampledFrom([]string{"0", "5", "6", "1", "-1", "7", "4294967301", "4294967296", "256"}), func(s string) srcVal {
					return srcVal{"int", s}
				}),
				rapid.Map(rapid.SampledFrom([]string{"0", "5", "6", "5.5", "0.5", "-0.5", "6.9", "4294967301", "NaN"}), func(s string) srcVal {
					return srcVal{"float64", s}
				}),
				rapid.Map(rapid.SampledFrom([]string{"0", "5", "6", "1", "4294967301"}), func(s string) srcVal { return srcVal{"int64", s} }),
				rapid.Map(rapid.SampledFrom([]string{"0", "5", "6", "05", " 5", "5.0"}), func(s string) srcVal { return srcVal{"string", s} }),
			).Draw(t, label)
		case "ep":
			return rapid.OneOf(
				rapid.Map(rapid.SampledFrom([]string{"pa", "pb", "pc", "pd", "pe", ""}), func(s string) srcVal { return srcVal{"string", s} }),
				rapid.Map(rapid.SampledFrom([]string{"0", "1", "2", "3", "4", "-1"}), func(s string) srcVal { return srcVal{"int", s} }),
				rapid.Map(rapid.SampledFrom([]string{"0", "1", "2", "3"}), func(s string) srcVal { return srcVal{"int64", s} }),
				rapid.Map(rapid.SampledFrom([]string{"0", "1", "2", "3", "1.5"}), func(s string) srcVal { return srcVal{"float64", s} }),
				rapid.Map(rapid.SampledFrom([]string{"0", "1", "2", "3"}), func(s string) srcVal { return srcVal{"string", s} }),
			).Draw(t, label)
		case "b":
			return rapid.OneOf(
				rapid.Map(rapid.SampledFrom([]string{"x", "y", "z", "x y", "x z y", "x bogus", "bogus", "", "x  y", "X", "y y"}), func(s string) srcVal { return srcVal{"string", s} }),
				rapid.Map(rapid.SampledFrom([]string{"0", "1", "32", "33", "97", "2", "128", "3", "-1", "4294967297"}), func(s string) srcVal { return srcVal{"int", s} }),
				rapid.Map(rapid.SampledFrom([]string{"0", "1", "32", "97", "2", "18446744073709551615"}), func(s string) srcVal { return srcVal{"uint64", s} }),
				rapid.Map(rapid.SampledFrom([]string{"0", "1", "32.5", "97", "2", "-1", "1.9"}), func(s string) srcVal { return srcVal{"float64", s} }),
				rapid.Map(rapid.SampledFrom([]string{"0", "1", "33", "9007199254740992", "9007199254740993", "1152921504606846976", "1152921504606846977", "1161928703861587969", "2", "-1", "1.5", "18446744073709551616"}), func(s string) srcVal {
					return srcVal{"json-number", s}
				}),
				rapid.Map(rapid.SampledFrom([]string{"h53", "h60 x", "x h53 h60"}), func(s string) srcVal { return srcVal{"string", s} }),
				rapid.Map(rapid.SampledFrom([]string{"9007199254740993", "1152921504606846977"}), func(s string) srcVal { return srcVal{"uint64", s} }),
			).Draw(t, label)
		case "i":
			return rapid.OneOf(
				rapid.Map(rapid.SampledFrom([]string{"d1", "d2", "c:d1", "c10:d2", "other", "c:other", "nope", "", "D1", "d1 ", "x:y:d1", ":d1"}), func(s string) srcVal { return srcVal{"string", s} }),
				rapid.Map(rapid.SampledFrom([]string{"0", "1"}), func(s string) srcVal { return srcVal{"int", s} }),
			).Draw(t, label)
		}
		return genSrc(t, label)
	}
	var l srcList
	if strings.HasSuffix(leaf, "l") && leaf != "el" || leaf == "el" || leaf == "epl" {
		l.Kind = rapid.SampledFrom([]string{"[]interface{}", "[]T", "single"}).Draw(t, "lkind")
		n := rapid.IntRange(1, 3).Draw(t, "n")
		if l.Kind == "single" {
			n = 1
		}
		for i := 0; i < n; i++ {
			s := pick(fmt.Sprintf("i%d", i))
			if l.Kind == "[]T" && i > 0 && s.Kind != l.Items[0].Kind {
				s = l.Items[0]
			}
			l.Items = append(l.Items, s)
		}
		return l
	}
	l.Kind = "single"
	l.Items = []srcVal{pick("v")}
	return l
}

var c10TypedLeaves = []string{"e", "el", "ep", "epl", "b", "bl", "i", "il", "u", "u2", "ul", "lr", "lrl"}

// judge one element of a schema-typed conversion
func c10JudgeTyped(leaf string, src srcVal, got val.Value) (string, string) {
	base := strings.TrimSuffix(leaf, "l")
	switch base {
	case "e", "ep":
		c10Enums := c10Enums
		if base == "ep" {
			c10Enums = c10EnumsPermuted
		}
		e, ok := got.(val.Enum)
		if !ok {
			return "wrong-format", fmt.Sprintf("%T", got)
		}
		if id, declared := c10Enums[e.Label]; !declared || id != e.Id {
			return "undeclared", fmt.Sprintf("result %v is not a declared enum", e)
		}
		if src.Kind == "string" {
			if _, isLabel := c10Enums[src.Text]; isLabel {
				if e.Label != src.Text {
					return "wrong-value", fmt.Sprintf("label %q became %v", src.Text, e)
				}
				return "", ""
			}
		}
		num := src.number()
		if num == nil {
			return "nonsense-string", fmt.Sprintf("%s(%q) names no enum but became %v", src.Kind, src.Text, e)
		}
		if !num.IsInt() || num.Num().Cmp(big.NewInt(int64(e.Id))) != 0 {
			cl := "wraps"
			if !num.IsInt() {
				cl = "truncates"
			}
			return cl, fmt.Sprintf("%s(%s) became %v", src.Kind, src.Text, e)
		}
	case "b":
		b, ok := got.(val.Bits)
		if !ok {
			return "wrong-format", fmt.Sprintf("%T", got)
		}
		var wantPos uint64
		var wantLabels []string
		if src.Kind == "string" {
			for _, n := range strings.Fields(src.Text) {
				p, declared := bitPos[n]
				if !declared {
					return "drops-unknown", fmt.Sprintf("bit name %q of %q is not declared but the conversion succeeded with %v", n, src.Text, b.Labels)
				}
				wantPos |= 1 << p
				wantLabels = append(wantLabels, n)
			}
		} else {
			num := src.number()
			if num == nil || !num.IsInt() || num.Sign() < 0 || num.Num().BitLen() > 64 {
				return "truncates", fmt.Sprintf("%s(%s) is no bit mask but became %v", src.Kind, src.Text, b.Positions)
			}
			wantPos = num.Num().Uint64()
			if wantPos&^(1|1<<5|1<<6|1<<53|1<<60) != 0 {
				return "drops-unknown", fmt.Sprintf("mask %s has undeclared bits but became %d", src.Text, b.Positions)
			}
			for _, n := range []string{"x", "y", "z", "h53", "h60"} {
				if wantPos&(1<<bitPos[n]) != 0 {
					wantLabels = append(wantLabels, n)
				}
			}
		}
		gl := append([]string{}, b.Labels...)
		sort.Strings(gl)
		wl := append([]string{}, wantLabels...)
		sort.Strings(wl)
		wl = uniqStrings(wl)
		gl = uniqStrings(gl)
		if b.Positions != wantPos || strings.Join(gl, ",") != strings.Join(wl, ",") {
			return "wrong-value", fmt.Sprintf("%s(%q) became positions=%d labels=%v want %d %v", src.Kind, src.Text, b.Positions, b.Labels, wantPos, wl)
		}
	case "i":
		r, ok := got.(val.IdentRef)
		if !ok {
			return "wrong-format", fmt.Sprintf("%T", got)
		}
		if src.Kind != "string" {
			return "nonsense", fmt.Sprintf("%s became identity %v", src.Kind, r)
		}
		name := src.Text
		if i := strings.IndexByte(name, ':'); i > 0 {
			name = name[i+1:]
		}
		if r.Label != name {
			return "wrong-value", fmt.Sprintf("%q became %v", src.Text, r)
		}
		if name != "d1" && name != "d2" && name != "base" {
			return "not-derived", fmt.Sprintf("%q is not derived from base but became %v", src.Text, r)
		}
	case "u", "u2":
		members := map[string][]val.Format{"u": {val.FmtInt8, val.FmtBool, val.FmtString}, "u2": {val.FmtUInt16, val.FmtInt32}}[base]
		for _, f := range members {
			if got.Format() == f {
				cl, msg := c10Judge(f, src, got)
				return cl, msg
			}
		}
		return "wrong-format", fmt.Sprintf("format %s is not a member", got.Format())
	case "lr":
		return c10Judge(val.FmtInt16, src, got)
	}
	return "", ""
}

func uniqStrings(s []string) []string {
	var out []string
	for i, x := range s {
		if i == 0 || x != s[i-1] {
			out = append(out, x)
		}
	}
	return out
}

var c10Typed = hx.Register(&hx.Check[c10TypedCase]{
	Name: "c10-typed",
	Rule: "node.NewValue for enumeration / bits / identityref / union / leafref leaves and their leaf-list forms, sources = declared and undeclared names, ids, masks, numeric strings, fractions, out-of-range numbers, single values and slices; every case is non-trivial except a declared name given as a plain string",
	Gen: func(t *rapid.T) c10TypedCase {
		leaf := rapid.SampledFrom(c10TypedLeaves).Draw(t, "leaf")
		return c10TypedCase{leaf, genTypedSrc(t, leaf)}
	},
	Run: func(c c10TypedCase, o *hx.Obs) {
		lf := c10Leaf(c.Leaf)
		gv, ok := c.Src.goValue()
		if !ok {
			return
		}
		o.Class("leaf=%s", c.Leaf)
		o.Class("src=%s", c.Src.Kind)
		o.NonTrivial()
		var got val.Value
		var err error
		if o.Guard("node.NewValue", func() { got, err = node.NewValue(lf.Type(), gv) }) {
			return
		}
		if err != nil {
			o.Class("result=error")
			return
		}
		o.Class("result=value")
		isList := lf.Type().Format().IsList()
		elemKind := c.Src.Items[0].Kind
		if c.Src.Kind == "[]interface{}" {
			elemKind = "mixed"
		}
		sig := func(kind, cl string) string { return "conv|" + c.Leaf + "|" + c.Src.Kind + ":" + kind + "|" + cl }
		if got == nil {
			o.Failf(sig(elemKind, "nil-value"), "NewValue(%s, %#v) returned nil without error", c.Leaf, gv)
			return
		}
		if !isList {
			if cl, msg := c10JudgeTyped(c.Leaf, c.Src.Items[0], got); cl != "" {
				o.Failf(sig(elemKind, cl), "NewValue(%s, %#v) = %v: %s", c.Leaf, gv, got, msg)
			}
			return
		}
		l, ok := got.(val.Listable)
		if !ok {
			o.Failf(sig(elemKind, "not-listable"), "NewValue(%s, %#v) = %T %v", c.Leaf, gv, got, got)
			return
		}
		if l.Len() != len(c.Src.Items) {
			o.Failf(sig(elemKind, "length"), "NewValue(%s, %#v) has %d elements want %d", c.Leaf, gv, l.Len(), len(c.Src.Items))
			return
		}
		for i, it := range c.Src.Items {
			leaf := c.Leaf
			if cl, msg := c10JudgeTyped(leaf, it, l.Item(i)); cl != "" {
				o.Failf(sig(it.Kind, cl), "NewValue(%s, %#v) element %d = %v: %s", c.Leaf, gv, i, l.Item(i), msg)
			}
		}
	},
})
