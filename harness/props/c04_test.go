package props

import (
	"bytes"
	"fmt"
	"sort"
	"strings"
	"testing"

	"github.com/freeconf/yang/node"
	"github.com/freeconf/yang/nodeutil"
	"pgregory.net/rapid"

	"verif/harness/dm"
	"verif/harness/hx"
)

// ---- C04: export and JSON round trip reproduce exactly the data present -------------

type c04Case struct {
	Module  *dm.Module   `json:"module"`
	Data    dm.Tree      `json:"data"`
	Source  string       `json:"source"`
	EnumIDs bool         `json:"enumAsIds,omitempty"` // writer option: enums by value; the reader must take them back
	Style   dm.JSONStyle `json:"style"`
	Pretty  bool         `json:"pretty"`
	Qual    bool         `json:"qualified"`
	Reused  bool         `json:"reused,omitempty"` // the JSON text examined is the second document of one JSONWtr value
}

func genJSONStyle(t *rapid.T) dm.JSONStyle {
	return dm.JSONStyle{
		Num64AsString: rapid.Bool().Draw(t, "num64str"),
		DecAsString:   rapid.Bool().Draw(t, "decstr"),
		QualifyTop:    rapid.Bool().Draw(t, "qualtop"),
	}
}

// order check on the recorded events: the writes into one container must follow schema order
func c04EventOrder(root *dm.Node, log []dm.RSEvent) []string {
	var out []string
	seen := map[string]int{}
	for _, e := range log {
		if e.Op == "field" || e.Op == "new-container" || e.Op == "new-list" || e.Op == "new-entry" {
			k := e.Op + " " + e.Path
			seen[k]++
			if seen[k] == 2 {
				out = append(out, fmt.Sprintf("%s: dup written twice (%s)", e.Path, e.Op))
			}
		}
	}
	// per parent path: order of child names
	last := map[string]int{}
	for _, e := range log {
		if e.Op != "field" && e.Op != "new-container" && e.Op != "new-list" {
			continue
		}
		i := strings.LastIndexByte(e.Path, '/')
		parent, name := e.Path[:i], e.Path[i+1:]
		pn := schemaAt(root, parent)
		if pn == nil {
			continue
		}
		idx := -1
		for j, d := range pn.DataChildren() {
			if d.Name == name {
				idx = j
			}
		}
		if prev, ok := last[parent]; ok && idx < prev {
			out = append(out, fmt.Sprintf("%s: order child %s written after a later schema sibling", parent, name))
		}
		last[parent] = idx
	}
	return out
}

// schemaAt resolves an RS event path ("/c1/l2=[k]/c3" or "/l2[0]") to the schema node
func schemaAt(root *dm.Node, path string) *dm.Node {
	n := root
	for _, seg := range strings.Split(strings.TrimPrefix(path, "/"), "/") {
		if seg == "" {
			continue
		}
		name := seg
		if i := strings.IndexAny(seg, "=["); i >= 0 {
			name = seg[:i]
		}
		n = n.Child(name)
		if n == nil {
			return nil
		}
	}
	return n
}

func hasBigList(t dm.Tree) bool {
	for _, v := range t {
		switch x := v.(type) {
		case dm.Tree:
			if hasBigList(x) {
				return true
			}
		case []interface{}:
			if len(x) >= 2 {
				return true
			}
			for _, e := range x {
				if et, ok := e.(dm.Tree); ok && hasBigList(et) {
					return true
				}
			}
		}
	}
	return false
}

func treeSize(t dm.Tree) int {
	n := 0
	for _, v := range t {
		n++
		switch x := v.(type) {
		case dm.Tree:
			n += treeSize(x)
		case []interface{}:
			for _, e := range x {
				if et, ok := e.(dm.Tree); ok {
					n += treeSize(et)
				}
			}
		}
	}
	return n
}

func leafTypesIn(n *dm.Node, t dm.Tree, out map[string]bool) {
	for _, d := range n.DataChildren() {
		v, ok := t[d.Name]
		if !ok {
			continue
		}
		switch d.Kind {
		case "leaf", "leaf-list":
			out[d.Type.Eff().Base] = true
		case "container":
			if c, ok := v.(dm.Tree); ok {
				leafTypesIn(d, c, out)
			}
		case "list":
			if l, ok := v.([]interface{}); ok {
				for _, e := range l {
					if et, ok := e.(dm.Tree); ok {
						leafTypesIn(d, et, out)
					}
				}
			}
		}
	}
}

func c04Run(c c04Case, o *hx.Obs) {
	root := c.Module.Root()
	schemaClasses(o, c.Module)
	mm, err := loadDM(c.Module)
	if err != nil {
		o.Failf("harness|schema-rejected", "generated schema does not load: %v\n%s", err, c.Module.Yang())
		return
	}
	o.Class("source=%s", c.Source)
	types := map[string]bool{}
	leafTypesIn(root, c.Data, types)
	for _, ty := range sortedBoolKeysT(types) {
		o.Class("type=%s", ty)
	}
	if hasBigList(c.Data) || treeSize(c.Data) >= 4 {
		o.NonTrivial()
	}
	src, err := srcNode(c.Source, c.Module, c.Data, c.Style)
	if err != nil {
		o.Failf("export|"+c.Source+"|source-rejected", "source %s could not be built: %v", c.Source, err)
		return
	}
	// a read may report the schema default of an unset leaf (the property allows it, it does not demand it)
	want := c.Data
	opts := dm.DiffOpts{IgnoreEmptyList: true, AllowDefaults: true}
	switch c.Source {
	case "reflect-map", "node-map":
		opts.ListsAsSets = true // Go maps are read in key order
	case "reflect-struct", "node-struct":
		opts.ListsAsSets, opts.ZeroIsUnset = true, true // some lists are maps; a plain field cannot be unset
	}

	// (a) export into a recording reference store
	var log []dm.RSEvent
	got := dm.Tree{}
	rs := dm.NewRS(root, got)
	rs.Log = &log
	var xerr error
	if o.Guard("UpsertInto", func() { xerr = node.NewBrowser(mm, src).Root().UpsertInto(rs) }) {
		return
	}
	if xerr != nil {
		o.Failf("export|"+c.Source+"|error", "export failed: %v", xerr)
		return
	}
	if d := dm.Diff(root, want, got, opts, ""); len(d) > 0 {
		o.Failf(diffSig("export|"+c.Source, d), "export of %s source differs from the data present:\n%s", c.Source, joinMax(d, 6))
		return
	}
	if d := c04EventOrder(root, log); len(d) > 0 {
		o.Failf(diffSig("export-events|"+c.Source, d), "%s", joinMax(d, 6))
	}

	// (b) JSON text
	src2, _ := srcNode(c.Source, c.Module, c.Data, c.Style)
	wtr := &nodeutil.JSONWtr{Pretty: c.Pretty, QualifyNamespace: c.Qual, EnumAsIds: c.EnumIDs}
	var text string
	if o.Guard("JSONWtr", func() {
		if !c.Reused {
			text, xerr = wtr.JSON(node.NewBrowser(mm, src2).Root())
			return
		}
		// the document examined is the second one the same JSONWtr value writes
		var first, second bytes.Buffer
		wtr.Out = &first
		if xerr = node.NewBrowser(mm, src2).Root().InsertInto(wtr.Node()); xerr != nil {
			return
		}
		src3, _ := srcNode(c.Source, c.Module, c.Data, c.Style)
		wtr.Out = &second
		xerr = node.NewBrowser(mm, src3).Root().InsertInto(wtr.Node())
		text = second.String()
	}) {
		return
	}
	if c.Reused {
		o.Class("one JSONWtr value reused for a second document")
	}
	if xerr != nil {
		o.Failf("json-rt|write-error", "JSON write failed: %v", xerr)
		return
	}
	dec, derr := dm.DecodeOne(text)
	if derr != nil {
		o.Failf("json-rt|malformed", "%v\n%s", derr, text)
		return
	}
	tj, probs := dm.NormJSON(root, dec, dm.NormOpts{Mod: c.Module.Name, EnumAsID: c.EnumIDs}, "")
	if len(probs) > 0 {
		o.Failf("json-rt|"+probs[0].Clause+"-"+probs[0].Kind, "JSON output does not read back: %s\n%s", probs[0], text)
		return
	}
	if d := dm.Diff(root, want, tj, opts, ""); len(d) > 0 {
		o.Failf(diffSig("json-rt|text", d), "JSON text differs from the data present:\n%s\n%s", joinMax(d, 6), text)
		return
	}

	// (c) the library's reader on that text, exported again
	for round := 0; round < 2; round++ {
		var rn node.Node
		if o.Guard("ReadJSON", func() { rn, xerr = nodeutil.ReadJSON(text) }) {
			return
		}
		if xerr != nil {
			o.Failf("json-rt|reread-error", "library reader rejects the library's own output: %v\n%s", xerr, text)
			return
		}
		got2 := dm.Tree{}
		if o.Guard("UpsertInto(reread)", func() { xerr = node.NewBrowser(mm, rn).Root().UpsertInto(dm.NewRS(root, got2)) }) {
			return
		}
		if xerr != nil {
			o.Failf("json-rt|reread-export-error", "export of re-read JSON failed: %v\n%s", xerr, text)
			return
		}
		if d := dm.Diff(root, want, got2, opts, ""); len(d) > 0 {
			o.Failf(diffSig("json-rt|reread", d), "round %d: re-reading the written JSON gives a different tree:\n%s\n%s", round, joinMax(d, 6), text)
			return
		}
		// write again from the re-read tree for the idempotence round
		if o.Guard("JSONWtr(2)", func() { text, xerr = wtr.JSON(node.NewBrowser(mm, dm.NewRS(root, got2)).Root()) }) {
			return
		}
		if xerr != nil {
			o.Failf("json-rt|write-error", "second JSON write failed: %v", xerr)
			return
		}
	}
}

func sortedBoolKeysT(m map[string]bool) []string {
	var ks []string
	for k := range m {
		ks = append(ks, k)
	}
	sort.Strings(ks)
	return ks
}

var c04Export = hx.Register(&hx.Check[c04Case]{
	Name: "c04-export-json",
	Rule: "generated schema (all node kinds and leaf types, nested lists, compound keys, choices, defaults) + conforming data tree with boundary values; source in {reference store, JSON reader, XML reader on a harness-written document, map-, slice- and struct-backed Reflect and Node stores}; compact/pretty, qualified/unqualified, enums by name or by value; non-trivial = a list with >= 2 entries or >= 4 nodes",
	Gen: func(t *rapid.T) c04Case {
		o := dm.DefaultGen()
		source := rapid.SampledFrom([]string{"rs", "rs", "json", "json", "xml", "reflect-map", "reflect-slice", "node-map", "node-slice", "reflect-struct", "node-struct"}).Draw(t, "source")
		to := dm.DefaultTree()
		switch source {
		case "xml":
			// C0 control characters cannot be written in an XML 1.0 document at all (see C19)
			to.EasyStrings, to.EasyKeys = true, true
		case "reflect-map", "reflect-slice", "node-map", "node-slice":
			// what the Go-data stores can hold (as in C03 / C18)
			o.CompoundKeys, o.Unions, o.ConfigFalse = false, false, false
			o.Types = []string{"int8", "int32", "int64", "uint16", "uint64", "decimal64", "string", "boolean", "enumeration"}
			o.KeyTypes = []string{"string", "int32"}
			to = dm.TreeOpts{MaxEntries: 3, EasyKeys: true, EasyStrings: true, PresentPct: 75, NoEmptyStr: true}
		case "reflect-struct", "node-struct":
			o.CompoundKeys, o.Unions, o.ConfigFalse = false, false, false
			o.Choices, o.NestedChoice, o.Defaults, o.Presence = false, false, false, false
			o.Types = []string{"int8", "int32", "int64", "uint16", "uint64", "decimal64", "string", "boolean"}
			o.KeyTypes = []string{"string", "int32"}
			to = dm.TreeOpts{MaxEntries: 3, EasyKeys: true, EasyStrings: true, PresentPct: 75, NoEmptyStr: true}
		}
		m := dm.GenModule(t, o)
		data := dm.GenTree(t, m.Root(), to)
		return c04Case{Module: m, Data: data, Source: source, Style: genJSONStyle(t),
			Pretty: rapid.Bool().Draw(t, "pretty"), Qual: rapid.Bool().Draw(t, "qual"), EnumIDs: rapid.IntRange(0, 2).Draw(t, "enum-ids") == 0,
			Reused: rapid.IntRange(0, 4).Draw(t, "reused") == 0}
	},
	Run: c04Run,
})

func TestC04(t *testing.T) {
	s := hx.Begin(t, "C04")
	defer s.End()
	hx.Run(s, c04Export, s.N(3000, 30000))
	hx.Run(s, c04Qualified, s.N(800, 8000))
	hx.Run(s, c04Any, s.N(1500, 15000))
	hx.Run(s, c04Iter, s.N(1500, 15000))
}
