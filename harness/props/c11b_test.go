package props

import (
	"github.com/freeconf/yang/meta"
	"fmt"
	"os"
	"sort"
	"strings"
	"testing"

	"github.com/freeconf/yang/parser"

	"verif/harness/hx"
	"verif/harness/ydump"
)

// ---- C11 (second half): deviations change exactly what they name -------------------------------

const c11DevBase = `module dv { namespace "urn:dv"; prefix d;
 container c {
   leaf first { type string; }
   leaf x { type string; units "u"; default "dflt"; must "a" { error-message "m"; } must "b"; }
   leaf plain { type string; }
   leaf cfg { type string; config false; mandatory true; }
   leaf-list ll { type int32; min-elements 1; max-elements 5; }
   leaf-list ll2 { type int32; }
   list l { key k; unique "a"; unique "b a"; unique "k b"; leaf k { type string; } leaf a { type string; } leaf b { type string; } }
   container sub { presence p; leaf y { type int8; } }
   leaf last { type string; }
 }
 rpc r1 { description "r"; } rpc r2 { description "r"; } notification n1 { description "n"; } notification n2 { description "n"; }
 %s
}`

// the same definitions, but the body of container c comes from a grouping that two more containers use as well (the
// deviation is aimed at /c/... only: the other two expansions must stay as they are)
var c11DevBaseGrouped = func() string {
	i, j := strings.Index(c11DevBase, " container c {"), strings.Index(c11DevBase, " rpc r1")
	body := c11DevBase[i+len(" container c {") : j]
	body = body[:strings.LastIndex(body, "}")]
	return c11DevBase[:i] + " grouping cg {" + body + "}\n container c0 { uses cg; }\n container c { uses cg; }\n container c9 { uses cg; }\n" + c11DevBase[j:]
}()

type c11DevCase struct {
	Grouped bool   `json:"grouped,omitempty"`
	Name    string `json:"name"`
	Target  string `json:"target"`
	Deviate string `json:"deviate"`
	// Gone: path prefix (in the flattened dump) that must disappear
	Gone []string `json:"gone,omitempty"`
	// Set: flattened path -> value that must appear / change
	Set map[string]string `json:"set,omitempty"`
	// Renumber: positions of later siblings may shift (not-supported)
	Renumber bool `json:"renumber,omitempty"`
	// Error: the deviation must be rejected
	Error bool `json:"error,omitempty"`
	// Loose: paths whose value is not asserted (what MaxElements reports next to Unbounded)
	Loose []string `json:"loose,omitempty"`
	// More: further deviation statements (aimed at another expansion of the grouping), written after the first
	More string `json:"more,omitempty"`
}

func c11Dump(text string) (map[string]string, error) {
	m, err := parser.LoadModuleFromString(nil, text)
	if err != nil {
		return nil, err
	}
	d, dd := ydump.Module(m)
	if len(dd.Panics) > 0 {
		return nil, fmt.Errorf("accessor panics: %v", dd.Panics)
	}
	f := ydump.Flatten(d)
	for k := range f {
		if strings.HasPrefix(k, "/Deviations") {
			delete(f, k)
		}
	}
	return f, nil
}

func c11DevRun(c c11DevCase, o *hx.Obs) {
	o.Class("deviate=%s", strings.Fields(c.Deviate)[0])
	o.NonTrivial()
	base := c11DevBase
	if c.Grouped {
		base = c11DevBaseGrouped
		o.Class("target expanded from a grouping used three times")
	}
	if c.More != "" {
		o.Class("two expansions of the grouping deviated differently")
	}
	without, err := c11Dump(fmt.Sprintf(base, ""))
	if err != nil {
		o.Failf("harness|deviation-base", "%v", err)
		return
	}
	var with map[string]string
	if o.Guard("LoadModule(deviation)", func() {
		with, err = c11Dump(fmt.Sprintf(base, "deviation \""+c.Target+"\" { deviate "+c.Deviate+" } "+c.More))
	}) {
		return
	}
	kind := strings.Fields(c.Deviate)[0]
	if strings.Contains(c.Name, "+") {
		kind = "several"
	}
	sig := func(clause string) string { return "deviate|" + kind + "|" + c.Name + "|" + clause }
	if c.Error {
		if err == nil {
			o.Failf(sig("no-error"), "deviation %s { deviate %s } must be rejected but the module loaded", c.Target, c.Deviate)
		}
		return
	}
	if err != nil {
		o.Failf(sig("load-error"), "deviation %s { deviate %s }: %v", c.Target, c.Deviate, err)
		return
	}
	want := map[string]string{}
	for k, v := range without {
		gone := false
		for _, g := range c.Gone {
			if k == g || strings.HasPrefix(k, g+"/") || strings.HasPrefix(k, g+"[") {
				gone = true
			}
		}
		if !gone {
			want[k] = v
		}
	}
	for k, v := range c.Set {
		want[k] = v
	}
	var diffs []string
	keys := map[string]bool{}
	for k := range want {
		keys[k] = true
	}
	for k := range with {
		keys[k] = true
	}
	var ks []string
	for k := range keys {
		ks = append(ks, k)
	}
	sort.Strings(ks)
	for _, k := range ks {
		if c.Renumber && strings.HasSuffix(k, "/_pos") {
			continue
		}
		if containsStr(c.Loose, k) {
			continue
		}
		w, wok := want[k]
		g, gok := with[k]
		switch {
		case wok && !gok:
			diffs = append(diffs, fmt.Sprintf("%s: lost (was %q)", k, w))
		case !wok && gok:
			diffs = append(diffs, fmt.Sprintf("%s: appeared (%q)", k, g))
		case w != g:
			diffs = append(diffs, fmt.Sprintf("%s: is %q, want %q", k, g, w))
		}
	}
	if len(diffs) > 0 {
		o.Failf(sig("collateral"), "deviation %s { deviate %s } changed something other than exactly the named property:\n%s", c.Target, c.Deviate, joinMax(diffs, 8))
	}
}

var c11Deviation = hx.Register(&hx.Check[c11DevCase]{
	Name: "c11-deviations",
	Rule: "a fixed module with a leaf (units, default, two musts), config-false mandatory leaf, leaf-lists with and without min/max-elements, a list with two unique statements, a presence container, rpcs and notifications; every deviate kind applied to every property it may legally name (and not-supported on first / middle / last siblings, containers, lists, rpcs, notifications); oracle: the flattened public-accessor dump of the deviated module equals the dump of the undeviated one with exactly the named property changed; enumerated completely",
	Run:  c11DevRun,
})

func c11DevCases() []c11DevCase {
	x := "/DataDefinitions[c]/DataDefinitions[x]"
	at := func(n string) string { return "/DataDefinitions[c]/DataDefinitions[" + n + "]" }
	return []c11DevCase{
		{Name: "ns-first-leaf", Target: "/c/first", Deviate: "not-supported;", Gone: []string{at("first")}, Renumber: true},
		{Name: "ns-middle-leaf", Target: "/c/plain", Deviate: "not-supported;", Gone: []string{at("plain")}, Renumber: true},
		{Name: "ns-last-leaf", Target: "/c/last", Deviate: "not-supported;", Gone: []string{at("last")}, Renumber: true},
		{Name: "ns-container", Target: "/c/sub", Deviate: "not-supported;", Gone: []string{at("sub")}, Renumber: true},
		{Name: "ns-list", Target: "/c/l", Deviate: "not-supported;", Gone: []string{at("l")}, Renumber: true},
		{Name: "ns-leaf-in-list", Target: "/c/l/a", Deviate: "not-supported;", Gone: []string{at("l") + "/DataDefinitions[a]"}, Renumber: true},
		{Name: "ns-rpc", Target: "/r1", Deviate: "not-supported;", Gone: []string{"/Actions/r1"}},
		{Name: "ns-notification", Target: "/n2", Deviate: "not-supported;", Gone: []string{"/Notifications/n2"}},
		{Name: "add-units", Target: "/c/plain", Deviate: "add { units \"v\"; }", Set: map[string]string{at("plain") + "/Units": "v"}},
		{Name: "add-default", Target: "/c/plain", Deviate: "add { default \"z\"; }", Set: map[string]string{at("plain") + "/Default": "z", at("plain") + "/DefaultValue": "string:z", at("plain") + "/HasDefault": "true"}},
		{Name: "add-must", Target: "/c/plain", Deviate: "add { must \"q\"; }", Set: map[string]string{at("plain") + "/Musts[0]/Expression": "q", at("plain") + "/Musts[0]/_kind": "Must", at("plain") + "/Musts[0]/Description": "", at("plain") + "/Musts[0]/Reference": "", at("plain") + "/Musts[0]/ErrorMessage": "", at("plain") + "/Musts[0]/ErrorAppTag": ""}},
		{Name: "add-unique", Target: "/c/l", Deviate: "add { unique \"k a\"; }", Set: map[string]string{at("l") + "/Unique[3][0]": "k", at("l") + "/Unique[3][1]": "a"}},
		{Name: "add-min-elements", Target: "/c/ll2", Deviate: "add { min-elements 2; }", Set: map[string]string{at("ll2") + "/MinElements": "2", at("ll2") + "/IsMinElementsSet": "true"}},
		{Name: "add-max-elements", Target: "/c/ll2", Deviate: "add { max-elements 7; }", Set: map[string]string{at("ll2") + "/MaxElements": "7", at("ll2") + "/IsMaxElementsSet": "true", at("ll2") + "/Unbounded": "false"}},
		{Name: "add-config", Target: "/c/plain", Deviate: "add { config false; }", Set: map[string]string{at("plain") + "/Config": "false"}},
		{Name: "add-mandatory", Target: "/c/plain", Deviate: "add { mandatory true; }", Set: map[string]string{at("plain") + "/Mandatory": "true", at("plain") + "/IsMandatorySet": "true"}},
		{Name: "add-units-exists", Target: "/c/x", Deviate: "add { units \"v\"; }", Error: true},
		{Name: "add-default-exists", Target: "/c/x", Deviate: "add { default \"z\"; }", Error: true},
		{Name: "replace-units", Target: "/c/x", Deviate: "replace { units \"v\"; }", Set: map[string]string{x + "/Units": "v"}},
		{Name: "replace-default", Target: "/c/x", Deviate: "replace { default \"z\"; }", Set: map[string]string{x + "/Default": "z", x + "/DefaultValue": "string:z"}},
		{Name: "replace-type", Target: "/c/x", Deviate: "replace { type int32; }", Set: map[string]string{x + "/Type/Format": "int32", x + "/Type/Ident": "int32", x + "/DefaultValue": "string:dflt"}},
		{Name: "replace-config", Target: "/c/cfg", Deviate: "replace { config true; }", Set: map[string]string{at("cfg") + "/Config": "true"}},
		{Name: "replace-mandatory", Target: "/c/cfg", Deviate: "replace { mandatory false; }", Set: map[string]string{at("cfg") + "/Mandatory": "false"}},
		{Name: "replace-min-elements", Target: "/c/ll", Deviate: "replace { min-elements 0; }", Set: map[string]string{at("ll") + "/MinElements": "0"}},
		{Name: "replace-max-elements", Target: "/c/ll", Deviate: "replace { max-elements 9; }", Set: map[string]string{at("ll") + "/MaxElements": "9"}},
		{Name: "replace-units-missing", Target: "/c/plain", Deviate: "replace { units \"v\"; }", Error: true},
		{Name: "delete-units", Target: "/c/x", Deviate: "delete { units \"u\"; }", Set: map[string]string{x + "/Units": ""}},
		{Name: "delete-default", Target: "/c/x", Deviate: "delete { default \"dflt\"; }", Gone: []string{x + "/Default", x + "/DefaultValue"}, Set: map[string]string{x + "/HasDefault": "false"}},
		{Name: "delete-must", Target: "/c/x", Deviate: "delete { must \"a\"; }", Gone: []string{x + "/Musts[0]", x + "/Musts[1]"}, Set: map[string]string{x + "/Musts[0]/Expression": "b", x + "/Musts[0]/_kind": "Must", x + "/Musts[0]/Description": "", x + "/Musts[0]/Reference": "", x + "/Musts[0]/ErrorMessage": "", x + "/Musts[0]/ErrorAppTag": ""}},
		{Name: "delete-unique", Target: "/c/l", Deviate: "delete { unique \"a\"; }", Gone: []string{at("l") + "/Unique[0]", at("l") + "/Unique[1]", at("l") + "/Unique[2]"}, Set: map[string]string{at("l") + "/Unique[0][0]": "b", at("l") + "/Unique[0][1]": "a", at("l") + "/Unique[1][0]": "k", at("l") + "/Unique[1][1]": "b"}},
		{Name: "delete-unique-pair", Target: "/c/l", Deviate: "delete { unique \"k b\"; }", Gone: []string{at("l") + "/Unique[2]"}},
		// one deviate naming several statements of a kind
		{Name: "delete-two-musts", Target: "/c/x", Deviate: "delete { must \"a\"; must \"b\"; }", Gone: []string{x + "/Musts[0]", x + "/Musts[1]"}},
		{Name: "delete-two-musts-reversed", Target: "/c/x", Deviate: "delete { must \"b\"; must \"a\"; }", Gone: []string{x + "/Musts[0]", x + "/Musts[1]"}},
		{Name: "delete-two-uniques", Target: "/c/l", Deviate: "delete { unique \"a\"; unique \"k b\"; }", Gone: []string{at("l") + "/Unique[0]", at("l") + "/Unique[1]", at("l") + "/Unique[2]"}, Set: map[string]string{at("l") + "/Unique[0][0]": "b", at("l") + "/Unique[0][1]": "a"}},
		{Name: "add-two-musts", Target: "/c/plain", Deviate: "add { must \"q\"; must \"r\"; }", Set: map[string]string{at("plain") + "/Musts[0]/Expression": "q", at("plain") + "/Musts[0]/_kind": "Must", at("plain") + "/Musts[0]/Description": "", at("plain") + "/Musts[0]/Reference": "", at("plain") + "/Musts[0]/ErrorMessage": "", at("plain") + "/Musts[0]/ErrorAppTag": "", at("plain") + "/Musts[1]/Expression": "r", at("plain") + "/Musts[1]/_kind": "Must", at("plain") + "/Musts[1]/Description": "", at("plain") + "/Musts[1]/Reference": "", at("plain") + "/Musts[1]/ErrorMessage": "", at("plain") + "/Musts[1]/ErrorAppTag": ""}},
		{Name: "replace-max-elements-unbounded", Target: "/c/ll", Deviate: "replace { max-elements unbounded; }", Set: map[string]string{at("ll") + "/Unbounded": "true", at("ll") + "/IsUnboundedSet": "true"}, Loose: []string{at("ll") + "/MaxElements", at("ll") + "/IsMaxElementsSet"}},
		{Name: "delete-units-mismatch", Target: "/c/x", Deviate: "delete { units \"other\"; }", Error: true},
		{Name: "delete-default-mismatch", Target: "/c/x", Deviate: "delete { default \"other\"; }", Error: true},
	}
}

func c11DeviationTests(s *hx.Session) {
	hx.Each(s, c11Deviation, true, func(yield func(c11DevCase) bool) {
		cases := c11DevCases()
		for _, c := range cases {
			if !yield(c) {
				return
			}
			g := c
			g.Grouped = true
			if !yield(g) {
				return
			}
		}
		// two expansions of one grouping, each with a deviation of its own: what one gets the other must not
		at9 := func(n string) string { return "/DataDefinitions[c9]/DataDefinitions[" + n + "]" }
		mustSet := func(path, expr string, i int) map[string]string {
			p := fmt.Sprintf("%s/Musts[%d]", path, i)
			return map[string]string{p + "/Expression": expr, p + "/_kind": "Must", p + "/Description": "", p + "/Reference": "", p + "/ErrorMessage": "", p + "/ErrorAppTag": ""}
		}
		merge := func(ms ...map[string]string) map[string]string {
			out := map[string]string{}
			for _, m := range ms {
				for k, v := range m {
					out[k] = v
				}
			}
			return out
		}
		atc := func(n string) string { return "/DataDefinitions[c]/DataDefinitions[" + n + "]" }
		twins := []c11DevCase{
			{Name: "twin-add-unique", Target: "/c/l", Deviate: "add { unique \"k a\"; }", More: "deviation \"/c9/l\" { deviate add { unique \"a b\"; } }",
				Set: map[string]string{atc("l") + "/Unique[3][0]": "k", atc("l") + "/Unique[3][1]": "a", at9("l") + "/Unique[3][0]": "a", at9("l") + "/Unique[3][1]": "b"}},
			{Name: "twin-delete-unique", Target: "/c/l", Deviate: "delete { unique \"a\"; }", More: "deviation \"/c9/l\" { deviate delete { unique \"b a\"; } }",
				Gone: []string{atc("l") + "/Unique[0]", atc("l") + "/Unique[1]", atc("l") + "/Unique[2]", at9("l") + "/Unique[1]", at9("l") + "/Unique[2]"},
				Set: map[string]string{atc("l") + "/Unique[0][0]": "b", atc("l") + "/Unique[0][1]": "a", atc("l") + "/Unique[1][0]": "k", atc("l") + "/Unique[1][1]": "b", at9("l") + "/Unique[1][0]": "k", at9("l") + "/Unique[1][1]": "b"}},
			{Name: "twin-add-must", Target: "/c/x", Deviate: "add { must \"q\"; }", More: "deviation \"/c9/x\" { deviate add { must \"r\"; } }",
				Set: merge(mustSet(atc("x"), "q", 2), mustSet(at9("x"), "r", 2))},
			{Name: "twin-replace-type", Target: "/c/x", Deviate: "replace { type int32; }", More: "deviation \"/c9/x\" { deviate replace { type boolean; } }",
				Set: map[string]string{atc("x") + "/Type/Format": "int32", atc("x") + "/Type/Ident": "int32", atc("x") + "/DefaultValue": "string:dflt", at9("x") + "/Type/Format": "boolean", at9("x") + "/Type/Ident": "boolean", at9("x") + "/DefaultValue": "string:dflt"}},
		}
		for _, tw := range twins {
			tw.Grouped = true
			if !yield(tw) {
				return
			}
		}
		// two deviate statements in one deviation, of different kinds or of the same: both take effect
		touches := func(c c11DevCase) []string {
			var ks []string
			ks = append(ks, c.Gone...)
			ks = append(ks, c.Loose...)
			for k := range c.Set {
				ks = append(ks, k)
			}
			return ks
		}
		for i, a := range cases {
			for _, b := range cases[i+1:] {
				if a.Error || b.Error || a.Target != b.Target || a.Renumber || b.Renumber {
					continue
				}
				ka, kb := strings.Fields(a.Deviate)[0], strings.Fields(b.Deviate)[0]
				if ka == "not-supported;" || kb == "not-supported;" {
					continue
				}
				overlap := false
				for _, x := range touches(a) {
					for _, y := range touches(b) {
						// same property, or one entry of an indexed list (musts, uniques) against another
						px, py := x, y
						if i := strings.IndexByte(px, '['); i >= 0 && strings.Contains(px[i:], "]") && (strings.Contains(px, "/Musts[") || strings.Contains(px, "/Unique[")) {
							px = px[:strings.LastIndex(px, "[")]
						}
						if i := strings.IndexByte(py, '['); i >= 0 && strings.Contains(py[i:], "]") && (strings.Contains(py, "/Musts[") || strings.Contains(py, "/Unique[")) {
							py = py[:strings.LastIndex(py, "[")]
						}
						if strings.HasPrefix(px, py) || strings.HasPrefix(py, px) {
							overlap = true
						}
					}
				}
				if overlap {
					continue
				}
				both := c11DevCase{Name: a.Name + "+" + b.Name, Target: a.Target, Deviate: a.Deviate + " deviate " + b.Deviate, Set: map[string]string{}}
				both.Gone = append(append([]string{}, a.Gone...), b.Gone...)
				both.Loose = append(append([]string{}, a.Loose...), b.Loose...)
				for k, v := range a.Set {
					both.Set[k] = v
				}
				for k, v := range b.Set {
					both.Set[k] = v
				}
				if !yield(both) {
					return
				}
				both.Grouped = true
				if !yield(both) {
					return
				}
			}
		}
	})
	hx.Each(s, c11Imported, true, c11ImpCases)
}

// TestC11DumpBase prints the flattened dump of the deviation base module (development aid).
func TestC11DumpBase(t *testing.T) {
	if os.Getenv("C11_DUMP") == "" {
		t.Skip()
	}
	text := fmt.Sprintf(c11DevBase, os.Getenv("C11_DEV"))
	if fn := os.Getenv("C11_FILE"); fn != "" {
		b, _ := os.ReadFile(fn)
		text = string(b)
	}
	f, err := c11Dump(text)
	if err != nil {
		t.Fatal(err)
	}
	var ks []string
	for k := range f {
		ks = append(ks, k)
	}
	sort.Strings(ks)
	for _, k := range ks {
		fmt.Printf("%s = %q\n", k, f[k])
	}
}

// ---- features defined by an imported module ---------------------------------------------------

type c11ImpCase struct {
	Mask int    `json:"mask"` // bit 0: a (main), bit 1: x (imp), bit 2: y (imp)
	Cfg  string `json:"cfg"`  // allow-list | deny-list | all-on
}

const c11ImpYang = `module imp { namespace "urn:imp"; prefix i; feature x; feature y;
 grouping g { leaf gx { if-feature x; type string; } leaf gxy { if-feature "x and not y"; type string; } leaf gix { if-feature "i:x"; type string; } leaf plain { type string; } } }`
const c11ImpMain = `module mn { yang-version 1.1; namespace "urn:mn"; prefix m; import imp { prefix i; } feature a;
 container top { leaf ma { if-feature a; type string; } leaf mma { if-feature "m:a"; type string; } leaf mix { if-feature "i:x and not i:y"; type string; } uses i:g; leaf last { type string; } } }`

func c11ImpRun(c c11ImpCase, o *hx.Obs) {
	o.NonTrivial()
	names := []string{"a", "x", "y"}
	on := map[string]bool{}
	var onList, offList []string
	for i, f := range names {
		if c.Mask&(1<<i) != 0 {
			on[f] = true
			onList = append(onList, f)
		} else {
			offList = append(offList, f)
		}
	}
	var fs meta.FeatureSet
	switch c.Cfg {
	case "allow-list":
		fs = meta.FeaturesOn(onList)
	case "deny-list":
		fs = meta.FeaturesOff(offList)
	}
	o.Class("cfg=%s", c.Cfg)
	files := map[string]string{"imp.yang": c11ImpYang}
	var m *meta.Module
	var err error
	if o.Guard("LoadModule", func() { m, err = parser.LoadModuleFromStringWithOptions(memOpener(files), c11ImpMain, parser.Options{Features: fs}) }) {
		return
	}
	if err != nil {
		o.Failf("iffeature|imported|"+c.Cfg+"|load-error", "enabled=%v (%s): load failed: %v", onList, c.Cfg, err)
		return
	}
	top, _ := findDef(m, "top").(*meta.Container)
	if top == nil || findDef(top, "plain") == nil || findDef(top, "last") == nil {
		o.Failf("iffeature|imported|"+c.Cfg+"|collateral", "enabled=%v (%s): unguarded nodes are missing", onList, c.Cfg)
		return
	}
	for leaf, want := range map[string]bool{"ma": on["a"], "gx": on["x"], "gxy": on["x"] && !on["y"], "mma": on["a"], "mix": on["x"] && !on["y"], "gix": on["x"]} {
		if got := findDef(top, leaf) != nil; got != want {
			o.Failf("iffeature|imported|"+c.Cfg+"|"+leaf, "enabled=%v (%s): leaf %s present=%v, its if-feature is %v (gx and gxy are guarded by features of the imported module that defines their grouping)", onList, c.Cfg, leaf, got, want)
			return
		}
	}
}

var c11Imported = hx.Register(&hx.Check[c11ImpCase]{
	Name: "c11-imported-features",
	Rule: "a grouping of an imported module whose leaves are guarded by that module's features, used by the main module next to leaves guarded by the main module's own feature and, by prefix, by the imported module's features (feature names also written with the own prefix of the module they stand in); all 8 assignments x allow-list / deny-list (and all-on); enumerated completely",
	Run:  c11ImpRun,
})

func c11ImpCases(yield func(c11ImpCase) bool) {
	for mask := 0; mask < 8; mask++ {
		for _, cfg := range []string{"allow-list", "deny-list"} {
			if !yield(c11ImpCase{mask, cfg}) {
				return
			}
		}
	}
	yield(c11ImpCase{7, "all-on"})
}
