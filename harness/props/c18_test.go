package props

import (
	"fmt"
	"strings"
	"testing"

	"github.com/freeconf/yang/meta"
	"github.com/freeconf/yang/node"
	"github.com/freeconf/yang/nodeutil"
	"pgregory.net/rapid"

	"verif/harness/dm"
	"verif/harness/hx"
)

// ---- histories of edits (C18 delete/replace, C09 choices) --------------------------------

type histOp struct {
	// Kind: upsert | delete | replace | delete2 (two entries of one list, both selected before either is deleted) |
	// hold (select Path now and keep the selection) | delete-held (delete through the selection kept by the last hold) |
	// set (Find(Path/Leaf).SetValue(Value); Src is the same write as a fragment, for the model)
	Kind string `json:"kind"`
	Path dm.Path `json:"path,omitempty"`
	Path2 dm.Path `json:"path2,omitempty"`
	Src  dm.Tree `json:"src,omitempty"` // upsert: root content; replace: content of the addressed node
	Leaf  string `json:"leaf,omitempty"`
	Value string `json:"value,omitempty"`
}

type histCase struct {
	Module  *dm.Module `json:"module"`
	Initial dm.Tree    `json:"initial"`
	Ops     []histOp   `json:"ops"`
	Store   string     `json:"store"`
	SrcKind string     `json:"src"`
}

// applyModel applies op to the model tree; ok=false when the op is not applicable (path absent).
func applyModel(root *dm.Node, t dm.Tree, op histOp) bool {
	switch op.Kind {
	case "upsert":
		return dm.MergeContent(root, t, op.Src, dm.Upsert, false, "") == nil
	case "set":
		if _, _, ok := dm.Resolve(root, t, op.Path); !ok {
			return false
		}
		return dm.MergeContent(root, t, op.Src, dm.Upsert, false, "") == nil
	case "hold", "read-held":
		_, _, ok := dm.Resolve(root, t, op.Path)
		return ok
	case "delete", "delete-held":
		return dm.DeleteAt(root, t, op.Path)
	case "upsert-held":
		pn, pt, ok := dm.ParentOf(root, t, op.Path)
		if !ok {
			return false
		}
		if _, _, there := dm.Resolve(root, t, op.Path); !there {
			return false
		}
		return dm.MergeContent(pn, pt, op.Src, dm.Upsert, false, "") == nil
	case "delete2":
		return dm.DeleteAt(root, t, op.Path) && dm.DeleteAt(root, t, op.Path2)
	case "replace":
		pn, pt, ok := dm.ParentOf(root, t, op.Path)
		if !ok {
			return false
		}
		last := op.Path[len(op.Path)-1]
		d := pn.Child(last.Name)
		if d == nil || !dm.DeleteAt(root, t, op.Path) {
			return false
		}
		if last.Key == nil {
			nc := dm.Tree{}
			pt[last.Name] = nc
			return dm.MergeContent(d, nc, op.Src, dm.Insert, true, "") == nil
		}
		l, _ := pt[last.Name].([]interface{})
		nl, err := dm.MergeList(d, l, []interface{}{op.Src}, dm.Insert, "")
		pt[last.Name] = nl
		return err == nil
	}
	return false
}

func histSource(kind string, parent *dm.Node, content dm.Tree) (node.Node, error) {
	if kind == "json" {
		return nodeutil.ReadJSON(dm.ToJSON("", parent, content, dm.JSONStyle{Num64AsString: true}))
	}
	return dm.NewRS(parent, dm.CloneTree(content)), nil
}

// applyLib applies op through the library.
// unseats reports whether op removes or re-creates the node at path held (then a selection of it taken earlier stands
// for a node that is no more, and nothing is promised about it)
func unseats(op histOp, held dm.Path) bool {
	prefixOf := func(p dm.Path) bool {
		if len(p) == 0 || len(p) > len(held) {
			return false
		}
		for i := range p {
			if p[i].Name != held[i].Name || (p[i].Key != nil && strings.Join(p[i].Key, "\x00") != strings.Join(held[i].Key, "\x00")) {
				return false
			}
		}
		return true
	}
	// an entry of a list ABOVE the held node goes or is replaced: the entries of that list move (a Go slice of struct
	// values shifts them), and with them the storage the kept selection stands on
	above := func(p dm.Path) bool {
		k := len(p)
		if k == 0 || k >= len(held) || p[k-1].Key == nil || p[k-1].Name != held[k-1].Name {
			return false
		}
		for i := 0; i < k-1; i++ {
			if p[i].Name != held[i].Name || strings.Join(p[i].Key, "\x00") != strings.Join(held[i].Key, "\x00") {
				return false
			}
		}
		return true
	}
	switch op.Kind {
	case "delete", "replace":
		return prefixOf(op.Path) || above(op.Path)
	case "delete2":
		return prefixOf(op.Path) || prefixOf(op.Path2) || above(op.Path) || above(op.Path2)
	case "upsert":
		// an upsert that names another entry of a list above the held node may make that list grow, and a list kept as
		// a Go slice of struct values then moves the very storage the kept selection stands on (nothing is promised
		// about a selection whose ancestors moved); entries added to the held node's own list are what is tested
		var cur interface{} = op.Src
		for i, seg := range held {
			t, isTree := cur.(dm.Tree)
			if !isTree {
				return false
			}
			v, has := t[seg.Name]
			if !has {
				return false
			}
			rows, isList := v.([]interface{})
			if !isList {
				cur = v
				continue
			}
			if i == len(held)-1 {
				return false
			}
			var next interface{}
			for _, r := range rows {
				rt, _ := r.(dm.Tree)
				same := rt != nil
				for _, kv := range seg.Key {
					found := false
					for _, x := range rt {
						if s, isStr := x.(string); isStr && s == kv {
							found = true
						}
					}
					same = same && found
				}
				if !same {
					return true
				}
				next = rt
			}
			cur = next
		}
	}
	return false
}

// histHeld is the selection a "hold" step keeps for a later "delete-held" step of the same history
type histHeld struct {
	sel  *node.Selection
	path string
	at   dm.Path
}

func applyLib(mm *meta.Module, root *dm.Node, store dm.Store, model dm.Tree, op histOp, srcKind string, held *histHeld) error {
	sel := node.NewBrowser(mm, store.Node()).Root()
	switch op.Kind {
	case "set":
		p := findPath(op.Path)
		if p != "" {
			p += "/"
		}
		t, err := sel.Find(p + op.Leaf)
		if err != nil || t == nil {
			return fmt.Errorf("harness: Find(%s%s): sel=%v err=%v", p, op.Leaf, t != nil, err)
		}
		return t.SetValue(op.Value)
	case "hold":
		t, err := sel.Find(findPath(op.Path))
		if err != nil || t == nil {
			return fmt.Errorf("harness: Find(%s): sel=%v err=%v", findPath(op.Path), t != nil, err)
		}
		held.sel, held.path, held.at = t, findPath(op.Path), op.Path
		return nil
	case "delete-held":
		if held.sel == nil || held.path != findPath(op.Path) {
			return fmt.Errorf("harness: no selection held for %s", findPath(op.Path))
		}
		t := held.sel
		held.sel = nil
		return t.Delete()
	case "read-held":
		// the list read through the selection that was taken before it changed: what it holds now
		if held.sel == nil || held.path != findPath(op.Path) {
			return fmt.Errorf("harness: no selection held for %s", findPath(op.Path))
		}
		ln, lv, _ := dm.Resolve(root, model, op.Path)
		wantRows, _ := lv.([]interface{})
		var gotKeys []string
		li, err := held.sel.First()
		for steps := 0; err == nil && li.Selection != nil && steps < 1000; steps++ {
			var ks []string
			for _, k := range li.Key {
				if k == nil {
					ks = append(ks, "<nil>")
				} else {
					ks = append(ks, k.String())
				}
			}
			gotKeys = append(gotKeys, strings.Join(ks, ","))
			li, err = li.Next()
		}
		if err != nil {
			return err
		}
		if len(gotKeys) != len(wantRows) {
			return fmt.Errorf("read through the kept selection of %s shows %d entries %v, the list holds %d (%s keys)", findPath(op.Path), len(gotKeys), gotKeys, len(wantRows), ln.Name)
		}
		return nil
	case "upsert-held":
		// entries written through a selection of the list that was taken before the list changed
		if held.sel == nil || held.path != findPath(op.Path) {
			return fmt.Errorf("harness: no selection held for %s", findPath(op.Path))
		}
		t := held.sel
		held.sel = nil
		pn, _, _ := dm.ParentOf(root, model, op.Path)
		if srcKind == "json" {
			src, err := nodeutil.ReadJSON(dm.ToJSON("", pn, op.Src, dm.JSONStyle{Num64AsString: true}))
			if err != nil {
				return err
			}
			return t.UpsertFrom(src)
		}
		return t.UpsertFrom(dm.NewRSList(pn, pn.Child(op.Path[len(op.Path)-1].Name), dm.CloneTree(op.Src)))
	case "upsert":
		src, err := histSource(srcKind, root, op.Src)
		if err != nil {
			return err
		}
		return sel.UpsertFrom(src)
	case "delete":
		t, err := sel.Find(findPath(op.Path))
		if err != nil {
			return err
		}
		if t == nil {
			return fmt.Errorf("harness: Find(%s) returned no selection for a node the model holds", findPath(op.Path))
		}
		return t.Delete()
	case "delete2":
		a, err := sel.Find(findPath(op.Path))
		if err != nil || a == nil {
			return fmt.Errorf("harness: Find(%s): %v", findPath(op.Path), err)
		}
		b, err := sel.Find(findPath(op.Path2))
		if err != nil || b == nil {
			return fmt.Errorf("harness: Find(%s): %v", findPath(op.Path2), err)
		}
		if err := a.Delete(); err != nil {
			return err
		}
		return b.Delete()
	case "replace":
		t, err := sel.Find(findPath(op.Path))
		if err != nil {
			return err
		}
		if t == nil {
			return fmt.Errorf("harness: Find(%s) returned no selection for a node the model holds", findPath(op.Path))
		}
		pn, _, _ := dm.ParentOf(root, model, op.Path)
		last := op.Path[len(op.Path)-1]
		var payload dm.Tree
		if last.Key == nil {
			payload = dm.Tree{last.Name: op.Src}
		} else {
			payload = dm.Tree{last.Name: []interface{}{op.Src}}
		}
		if last.Key != nil {
			// the parent of a list entry selection is the list selection: source must answer Next
			if srcKind == "json" {
				src, err := nodeutil.ReadJSON(dm.ToJSON("", pn, payload, dm.JSONStyle{Num64AsString: true}))
				if err != nil {
					return err
				}
				return t.ReplaceFrom(src)
			}
			return t.ReplaceFrom(dm.NewRSList(pn, pn.Child(last.Name), dm.CloneTree(payload)))
		}
		src, err := histSource(srcKind, pn, payload)
		if err != nil {
			return err
		}
		return t.ReplaceFrom(src)
	}
	return fmt.Errorf("op %s", op.Kind)
}

// choiceViolations lists choices holding data of more than one case anywhere in t.
func choiceViolations(n *dm.Node, t dm.Tree, where string) []string {
	var out []string
	for _, ch := range n.Choices() {
		if cs := dm.CasesWithData(ch, t); len(cs) > 1 {
			out = append(out, fmt.Sprintf("%s: choice %s holds data of cases %v", where, ch.Name, cs))
		}
	}
	for _, d := range n.DataChildren() {
		switch d.Kind {
		case "container":
			if c, ok := t[d.Name].(dm.Tree); ok {
				out = append(out, choiceViolations(d, c, where+"/"+d.Name)...)
			}
		case "list":
			if l, ok := t[d.Name].([]interface{}); ok {
				for _, e := range l {
					if et, ok := e.(dm.Tree); ok {
						out = append(out, choiceViolations(d, et, where+"/"+d.Name)...)
					}
				}
			}
		}
	}
	return out
}

func histRun(prop string) func(c histCase, o *hx.Obs) {
	return func(c histCase, o *hx.Obs) {
		root := c.Module.Root()
		schemaClasses(o, c.Module)
		mm, err := loadDM(c.Module)
		if err != nil {
			o.Failf("harness|schema-rejected", "generated schema does not load: %v\n%s", err, c.Module.Yang())
			return
		}
		store, err := dm.NewStore(c.Store, root, c.Initial)
		if err != nil {
			o.Failf("harness|store", "%v", err)
			return
		}
		o.Class("store=%s", c.Store)
		model := dm.CloneTree(c.Initial)
		opts := dm.DiffOpts{ListsAsSets: !store.KeepsOrder(), IgnoreEmptyList: true, ZeroIsUnset: store.ZeroIsUnset()}
		deletes, afterDelete, nestedDelete, switches := 0, false, false, 0
		usedHeld := false
		held := &histHeld{}
		for i, op := range c.Ops {
			before := dm.CloneTree(model)
			if (op.Kind == "delete-held" || op.Kind == "upsert-held" || op.Kind == "read-held") && (held.sel == nil || held.path != findPath(op.Path)) {
				continue // its hold step was skipped
			}
			if !applyModel(root, model, op) {
				model = before
				if op.Kind == "delete-held" || op.Kind == "upsert-held" {
					held.sel = nil // the node it was to delete is gone already
				}
				continue // not applicable any more (shrinking); skip on both sides
			}
			o.Class("op=%s", op.Kind)
			if op.Kind == "upsert-held" {
				usedHeld = true
			}
			if held.sel != nil && op.Kind != "hold" && op.Kind != "delete-held" && op.Kind != "upsert-held" && op.Kind != "read-held" {
				if _, _, still := dm.Resolve(root, model, held.at); !still || unseats(op, held.at) {
					held.sel = nil // the node the kept selection stands for was removed or made anew
				}
			}
			if op.Kind == "delete" || op.Kind == "delete2" || op.Kind == "delete-held" {
				deletes++
				if len(op.Path) > 1 {
					nestedDelete = true
				}
			} else if deletes > 0 {
				afterDelete = true
			}
			if op.Kind == "upsert" || op.Kind == "set" {
				for _, ch := range root.Choices() {
					a, b := dm.SelectedCase(ch, before), dm.SelectedCase(ch, op.Src)
					if a != nil && b != nil && a != b {
						switches++
					}
				}
			}
			var lerr error
			kind := op.Kind
			posKind := ""
			if len(op.Path) > 0 {
				if op.Path[len(op.Path)-1].Key != nil {
					posKind = "entry"
				} else if n, _, _ := dm.Resolve(root, before, op.Path); n != nil {
					posKind = n.Kind
				}
			}
			sig := func(clause string) string {
				if prop == "C09" {
					return "choice|" + clause + "|" + c.Store
				}
				return kind + "|" + posKind + "|" + clause + "|" + c.Store
			}
			if o.Guard(op.Kind, func() { lerr = applyLib(mm, root, store, before, op, c.SrcKind, held) }) {
				return
			}
			if lerr != nil {
				o.Failf(sig("error"), "step %d %s %s failed: %v", i, op.Kind, findPath(op.Path), lerr)
				return
			}
			got, serr := store.Snapshot()
			if serr != nil {
				clause := "snapshot"
				if strings.Contains(serr.Error(), "keymismatch") {
					clause = "key-mismatch"
				}
				o.Failf(sig(clause), "step %d: backing data of the %s store is not a conforming tree: %v", i, c.Store, serr)
				return
			}
			if v := choiceViolations(root, got, ""); len(v) > 0 {
				o.Failf(sig("two-cases"), "step %d (%s): %s", i, op.Kind, joinMax(v, 3))
				return
			}
			if d := dm.Diff(root, model, got, opts, ""); len(d) > 0 {
				o.Failf(sig(dm.Clause(d[0])), "step %d %s %s: store differs from the model:\n%s\nbefore: %s\nop: %s", i, op.Kind, findPath(op.Path), joinMax(d, 5), jsonOf(before), jsonOf(op))
				return
			}
			// navigation agrees: removed node is gone, remaining entries are found under their keys
			if op.Kind == "delete" || op.Kind == "delete2" || op.Kind == "delete-held" {
				var fs *node.Selection
				var ferr error
				if o.Guard("Find(deleted)", func() { fs, ferr = node.NewBrowser(mm, store.Node()).Root().Find(findPath(op.Path)) }) {
					return
				}
				if ferr == nil && fs != nil {
					// an entry, a container or a whole list: a following Find no longer sees the deleted node
					o.Failf(sig("still-found"), "step %d: Find(%s) still returns a selection after Delete", i, findPath(op.Path))
					return
				}
			}
		}
		// every entry present is found under the key its key leaves hold
		for _, p := range dm.AllPaths(root, model, nil) {
			if p[len(p)-1].Key == nil {
				continue
			}
			var fs *node.Selection
			var ferr error
			if o.Guard("Find(entry)", func() { fs, ferr = node.NewBrowser(mm, store.Node()).Root().Find(findPath(p)) }) {
				return
			}
			if ferr != nil || fs == nil {
				o.Failf("lookup|entry|missed|"+c.Store, "Find(%s) after the history: sel=%v err=%v", findPath(p), fs, ferr)
				return
			}
		}
		if prop == "C03" {
			if usedHeld {
				o.NonTrivial()
			}
		} else if prop == "C09" {
			if switches >= 2 {
				o.NonTrivial()
			}
		} else if (deletes > 0 && afterDelete) || nestedDelete {
			o.NonTrivial()
		}
	}
}

func histGen(prop string, stores []string) func(t *rapid.T) histCase {
	return func(t *rapid.T) histCase {
		o := dm.DefaultGen()
		store := rapid.SampledFrom(stores).Draw(t, "store")
		o.Types = []string{"int8", "int32", "int64", "uint16", "decimal64", "string", "boolean", "enumeration"}
		o.KeyTypes = []string{"string", "int32"}
		o.ConfigFalse, o.Unions = false, false
		if store != "rs" {
			o.CompoundKeys = true
			o.Types = []string{"int8", "int32", "int64", "uint16", "decimal64", "string", "boolean"}
			if !strings.HasSuffix(store, "-struct") {
				o.KeyTypes = []string{"string", "int32", "string", "int32", "int8", "int64", "uint16", "uint64", "boolean"}
				o.Types = append(o.Types, "enumeration")
			}
		}
		if strings.HasSuffix(store, "-struct") {
			// plain struct fields: no case detection, and a zero field is what an unset leaf looks like
			o.Choices, o.NestedChoice, o.Defaults, o.Presence = false, false, false, false
		}
		if prop == "C09" {
			o.Choices, o.NestedChoice = true, true
			o.MaxChildren = 4
			o.Augments = false // drawn below, once the fixed choice is in place
		}
		m := dm.GenModule(t, o)
		if prop == "C09" {
			// make sure there is a choice at the top
			g := &dm.Node{Kind: "choice", Name: "chtop", Children: []*dm.Node{
				{Kind: "case", Name: "ca", Children: []*dm.Node{{Kind: "leaf", Name: "ca-leaf", Type: &dm.Type{Base: "string"}}, {Kind: "container", Name: "ca-cont", Children: []*dm.Node{{Kind: "leaf", Name: "x", Type: &dm.Type{Base: "int32"}}}}}},
				{Kind: "case", Name: "cb", Children: []*dm.Node{{Kind: "list", Name: "cb-list", Keys: []string{"k"}, Children: []*dm.Node{{Kind: "leaf", Name: "k", Type: &dm.Type{Base: "string"}}, {Kind: "leaf", Name: "v", Type: &dm.Type{Base: "int32"}}}}}},
				{Kind: "case", Name: "cc", Children: []*dm.Node{{Kind: "choice", Name: "chin", Children: []*dm.Node{
					{Kind: "case", Name: "cc1", Children: []*dm.Node{{Kind: "leaf", Name: "cc1-leaf", Type: &dm.Type{Base: "int32"}}}},
					{Kind: "case", Name: "cc2", Children: []*dm.Node{{Kind: "leaf", Name: "cc2-leaf", Type: &dm.Type{Base: "boolean"}}}},
					{Kind: "case", Name: "cc3", Children: []*dm.Node{{Kind: "choice", Name: "chdeep", Children: []*dm.Node{
						{Kind: "case", Name: "d1", Children: []*dm.Node{{Kind: "leaf", Name: "d1-leaf", Type: &dm.Type{Base: "string"}}}},
						{Kind: "case", Name: "d2", Children: []*dm.Node{{Kind: "container", Name: "d2-cont", Children: []*dm.Node{{Kind: "leaf", Name: "y", Type: &dm.Type{Base: "int32"}}}}}}}}}}}}}},
			}}
			m.Top = append(m.Top, g)
			m = &dm.Module{Name: m.Name, Identities: m.Identities, Top: m.Top}
			dm.GenLayout(t, m)
		}
		root := m.Root()
		to := dm.TreeOpts{MaxEntries: 3, EasyKeys: true, EasyStrings: true, PresentPct: 70, NoEmptyStr: true}
		u := dm.GenTree(t, root, to)
		model := dm.Subsample(t, root, u, 70, 0, to)
		c := histCase{Module: m, Initial: dm.CloneTree(model), Store: store, SrcKind: rapid.SampledFrom([]string{"rs", "json"}).Draw(t, "src")}
		n := rapid.IntRange(1, 8).Draw(t, "nops")
		// a selection of a list entry taken before the history starts and used for a delete later on, while other
		// steps add to and remove from the same lists through selections of their own
		var heldPath dm.Path
		if prop != "C09" && n >= 3 && rapid.IntRange(0, 2).Draw(t, "hold?") == 0 {
			var entries []dm.Path
			for _, p := range dm.AllPaths(root, model, nil) {
				if p[len(p)-1].Key != nil {
					entries = append(entries, p)
				}
			}
			if len(entries) > 0 {
				heldPath = entries[rapid.IntRange(0, len(entries)-1).Draw(t, "held")]
				c.Ops = append(c.Ops, histOp{Kind: "hold", Path: heldPath})
				// half of the time the steps in between are aimed at the very list: a new entry (the slice may have to
				// grow) and the removal of another one (so that it is as long as before)
				listPath := append(append(dm.Path{}, heldPath[:len(heldPath)-1]...), dm.Seg{Name: heldPath[len(heldPath)-1].Name})
				ln, lv, _ := dm.Resolve(root, model, listPath)
				if rows, _ := lv.([]interface{}); len(rows) >= 2 && rapid.Bool().Draw(t, "same-list") {
					have := map[string]bool{}
					var other dm.Path
					for _, r := range rows {
						var key []string
						for _, k := range ln.Keys {
							key = append(key, r.(dm.Tree)[k].(string))
						}
						have[strings.Join(key, "\x00")] = true
						if other == nil && strings.Join(key, "\x00") != strings.Join(heldPath[len(heldPath)-1].Key, "\x00") {
							other = append(append(dm.Path{}, listPath[:len(listPath)-1]...), dm.Seg{Name: ln.Name, Key: key})
						}
					}
					var fresh dm.Tree
					for _, e := range dm.GenEntries(t, ln, to) {
						var key []string
						for _, k := range ln.Keys {
							key = append(key, e.(dm.Tree)[k].(string))
						}
						if !have[strings.Join(key, "\x00")] {
							fresh = e.(dm.Tree)
							break
						}
					}
					if fresh != nil && other != nil {
						// the fragment that holds just the way to the list and the new entry
						src := dm.Tree{}
						cur, sn := src, root
						for i, seg := range listPath {
							d := sn.Child(seg.Name)
							if i == len(listPath)-1 {
								cur[seg.Name] = []interface{}{fresh}
								break
							}
							if d.Kind == "list" {
								e := dm.Tree{}
								for j, k := range d.Keys {
									e[k] = seg.Key[j]
								}
								cur[seg.Name] = []interface{}{e}
								cur = e
							} else {
								sub := dm.Tree{}
								cur[seg.Name] = sub
								cur = sub
							}
							sn = d
						}
						for _, op := range []histOp{{Kind: "upsert", Src: src}, {Kind: "delete", Path: other}, {Kind: "delete-held", Path: heldPath}} {
							if applyModel(root, model, op) {
								c.Ops = append(c.Ops, op)
							}
						}
						heldPath = nil
					}
				}
			}
		}
		if prop == "C03" {
			// a selection of a whole list is kept while, through other selections, the list gets a new entry (its slice
			// may have to move) and loses another (so that it is as long as before); then entries are upserted through
			// the kept selection: ones that are there, the new one, the removed one and one never seen
			var lists []dm.Path
			for _, p := range dm.AllPaths(root, model, nil) {
				if p[len(p)-1].Key == nil {
					if ln, lv, ok := dm.Resolve(root, model, p); ok && ln.Kind == "list" && len(ln.Keys) > 0 {
						if rows, _ := lv.([]interface{}); len(rows) >= 1 {
							lists = append(lists, p)
						}
					}
				}
			}
			if len(lists) > 0 {
				listPath := lists[rapid.IntRange(0, len(lists)-1).Draw(t, "held-list")]
				ln, lv, _ := dm.Resolve(root, model, listPath)
				rows, _ := lv.([]interface{})
				keyOf := func(e dm.Tree) []string {
					var key []string
					for _, k := range ln.Keys {
						key = append(key, e[k].(string))
					}
					return key
				}
				have := map[string]bool{}
				for _, r := range rows {
					have[strings.Join(keyOf(r.(dm.Tree)), "\x00")] = true
				}
				var fresh []dm.Tree
				for _, e := range append(dm.GenEntries(t, ln, to), dm.GenEntries(t, ln, to)...) {
					if k := strings.Join(keyOf(e.(dm.Tree)), "\x00"); !have[k] {
						have[k] = true
						fresh = append(fresh, e.(dm.Tree))
					}
				}
				fragment := func(entries []interface{}) dm.Tree {
					src := dm.Tree{}
					cur, sn := src, root
					for i, seg := range listPath {
						d := sn.Child(seg.Name)
						if i == len(listPath)-1 {
							cur[seg.Name] = entries
							break
						}
						if d.Kind == "list" {
							e := dm.Tree{}
							for j, k := range d.Keys {
								e[k] = seg.Key[j]
							}
							cur[seg.Name] = []interface{}{e}
							cur = e
						} else {
							sub := dm.Tree{}
							cur[seg.Name] = sub
							cur = sub
						}
						sn = d
					}
					return src
				}
				ops := []histOp{{Kind: "hold", Path: listPath}}
				if rapid.Bool().Draw(t, "read-first") {
					// (the kept selection reads the list once before it changes)
					ops = append(ops, histOp{Kind: "read-held", Path: listPath})
				}
				var through []interface{}
				nAdd := rapid.IntRange(0, 2).Draw(t, "added-meanwhile")
				for i := 0; i < nAdd && i < len(fresh); i++ {
					ops = append(ops, histOp{Kind: "upsert", Src: fragment([]interface{}{dm.Clone(fresh[i])})})
					if rapid.Bool().Draw(t, "again-through-held") {
						through = append(through, dm.Clone(fresh[i]))
					}
				}
				for i := 0; i < rapid.IntRange(0, 2).Draw(t, "removed-meanwhile") && i < len(rows); i++ {
					gone := rows[rapid.IntRange(0, len(rows)-1).Draw(t, "gone")].(dm.Tree)
					ops = append(ops, histOp{Kind: "delete", Path: append(append(dm.Path{}, listPath[:len(listPath)-1]...), dm.Seg{Name: ln.Name, Key: keyOf(gone)})})
					if rapid.Bool().Draw(t, "back-through-held") {
						through = append(through, dm.Clone(gone))
					}
				}
				for _, r := range rows {
					if rapid.IntRange(0, 2).Draw(t, "existing-through-held") == 0 {
						through = append(through, dm.Clone(r))
					}
				}
				if len(fresh) > nAdd && rapid.Bool().Draw(t, "new-through-held") {
					through = append(through, dm.Clone(fresh[len(fresh)-1]))
				}
				if len(ops) > 1 && rapid.Bool().Draw(t, "read-again") {
					ops = append(ops, histOp{Kind: "read-held", Path: listPath})
				}
				if len(through) > 0 {
					ops = append(ops, histOp{Kind: "upsert-held", Path: listPath, Src: dm.Tree{ln.Name: through}})
					for _, op := range ops {
						if applyModel(root, model, op) {
							c.Ops = append(c.Ops, op)
						}
					}
				}
			}
		}
		for i := 0; i < n; i++ {
			if heldPath != nil && i >= 2 && (i == n-1 || rapid.IntRange(0, 2).Draw(t, "use-held") == 0) {
				op := histOp{Kind: "delete-held", Path: heldPath}
				heldPath = nil
				if applyModel(root, model, op) {
					c.Ops = append(c.Ops, op)
				}
				continue
			}
			kinds := []string{"upsert", "upsert"}
			paths := dm.AllPaths(root, model, nil)
			if prop == "C09" {
				kinds = append(kinds, "set")
			}
			if len(paths) > 0 && prop != "C09" {
				kinds = append(kinds, "delete", "delete", "replace")
			}
			var op histOp
			op.Kind = rapid.SampledFrom(kinds).Draw(t, "opkind")
			switch op.Kind {
			case "set":
				// a leaf of a case, in the module or in a container / list entry that is there, set on its own
				holders := []dm.Path{nil}
				for _, p := range paths {
					if n, _, _ := dm.Resolve(root, model, p); n != nil && !(n.Kind == "list" && p[len(p)-1].Key == nil) {
						holders = append(holders, p)
					}
				}
				op.Path = holders[rapid.IntRange(0, len(holders)-1).Draw(t, "set-holder")]
				hn, _, _ := dm.Resolve(root, model, op.Path)
				var leaves []*dm.Node
				var collect func(n *dm.Node, inCase bool)
				collect = func(n *dm.Node, inCase bool) {
					for _, ch := range n.Children {
						switch {
						case ch.Kind == "choice" || ch.Kind == "case":
							collect(ch, true)
						case ch.Kind == "leaf" && inCase && ch.Type.Eff().Base != "empty":
							leaves = append(leaves, ch)
						}
					}
				}
				collect(hn, false)
				if len(leaves) == 0 {
					continue
				}
				lf := leaves[rapid.IntRange(0, len(leaves)-1).Draw(t, "set-leaf")]
				op.Leaf, op.Value = lf.Name, dm.GenValue(t, lf.Type, "set-value", true)
				// the same write as a fragment from the root
				src := dm.Tree{}
				cur, sn := src, root
				for _, seg := range op.Path {
					d := sn.Child(seg.Name)
					if d.Kind == "list" {
						e := dm.Tree{}
						for j, k := range d.Keys {
							e[k] = seg.Key[j]
						}
						cur[seg.Name] = []interface{}{e}
						cur = e
					} else {
						sub := dm.Tree{}
						cur[seg.Name] = sub
						cur = sub
					}
					sn = d
				}
				cur[op.Leaf] = op.Value
				op.Src = src
			case "upsert":
				if prop == "C09" {
					// fresh content: selects cases independently of the current state
					op.Src = dm.Subsample(t, root, dm.GenTree(t, root, to), 60, 0, to)
				} else {
					op.Src = dm.Subsample(t, root, u, 50, 50, to)
					if rapid.IntRange(0, 3).Draw(t, "repeat-key") == 0 {
						// the same key twice in one payload: the second occurrence merges into the first
						repeatAnEntry(t, root, op.Src)
					}
				}
			case "delete":
				op.Path = paths[rapid.IntRange(0, len(paths)-1).Draw(t, "path")]
				if last := op.Path[len(op.Path)-1]; last.Key != nil && rapid.IntRange(0, 2).Draw(t, "two-held") == 0 {
					// another entry of the same list, selected before the first delete happens
					var others []dm.Path
					for _, p := range paths {
						if len(p) == len(op.Path) && p[len(p)-1].Key != nil && findPath(p[:len(p)-1]) == findPath(op.Path[:len(op.Path)-1]) && p[len(p)-1].Name == last.Name && findPath(p) != findPath(op.Path) {
							others = append(others, p)
						}
					}
					if len(others) > 0 {
						op.Kind = "delete2"
						op.Path2 = others[rapid.IntRange(0, len(others)-1).Draw(t, "other")]
					}
				}
			case "replace":
				op.Path = paths[rapid.IntRange(0, len(paths)-1).Draw(t, "path")]
				last := op.Path[len(op.Path)-1]
				sn, _, _ := dm.Resolve(root, model, op.Path)
				if sn.Kind == "list" && last.Key == nil {
					op.Kind = "delete" // whole-list replace is not an API shape the repository shows
					break
				}
				op.Src = dm.GenTree(t, sn, to)
				if last.Key != nil {
					for j, k := range sn.Keys {
						op.Src[k] = last.Key[j]
					}
				}
			}
			if applyModel(root, model, op) {
				c.Ops = append(c.Ops, op)
				if heldPath != nil {
					if _, _, still := dm.Resolve(root, model, heldPath); !still || unseats(op, heldPath) {
						heldPath = nil
					}
				}
			}
		}
		return c
	}
}

// repeatAnEntry appends, to some list of the fragment, a second entry with the key of one it already holds and
// different content.
func repeatAnEntry(t *rapid.T, n *dm.Node, tr dm.Tree) bool {
	for _, d := range n.DataChildren() {
		v, ok := tr[d.Name]
		if !ok {
			continue
		}
		switch d.Kind {
		case "container":
			if c, isT := v.(dm.Tree); isT && repeatAnEntry(t, d, c) {
				return true
			}
		case "list":
			l, _ := v.([]interface{})
			if len(l) == 0 || len(d.Keys) == 0 {
				continue
			}
			if rapid.Bool().Draw(t, "here") {
				src := l[rapid.IntRange(0, len(l)-1).Draw(t, "which")].(dm.Tree)
				dup := dm.Tree{}
				for _, k := range d.Keys {
					dup[k] = src[k]
				}
				for _, ch := range d.Children { // direct children only: leaves inside a choice exclude each other
					if ch.Kind == "leaf" && ch.Type.Eff().Base == "string" && dup[ch.Name] == nil {
						dup[ch.Name] = "again"
					}
				}
				tr[d.Name] = append(l, dup)
				return true
			}
			for _, e := range l {
				if repeatAnEntry(t, d, e.(dm.Tree)) {
					return true
				}
			}
		}
	}
	return false
}

var c18Hist = hx.Register(&hx.Check[histCase]{
	Name: "c18-delete-replace-history",
	Rule: "histories of 1-8 operations {upsert fragment (one in four names some list key twice), delete container / whole list / list entry (first, middle, last, only; also two entries of one list that were both selected before either is deleted), replace container / entry} on reference, map-backed Reflect and Node (map and slice lists) and struct-backed Reflect and Node stores; after every step the store's backing data must equal the model, a deleted entry must not be found, and at the end every entry is found under its key; non-trivial = a delete followed by a further edit, or a delete below the top level",
	Gen:  histGen("C18", []string{"rs", "reflect-map", "reflect-slice", "node-map", "node-slice", "reflect-struct", "node-struct"}),
	Run:  histRun("C18"),
})

func TestC18(t *testing.T) {
	s := hx.Begin(t, "C18")
	defer s.End()
	hx.Run(s, c18Hist, s.N(2500, 25000))
	hx.Run(s, c18Acc, s.N(1000, 10000))
}
