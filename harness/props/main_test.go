package props

import (
	"bufio"
	"encoding/json"
	"fmt"
	"os"
	"runtime/debug"
	"time"
	"testing"

	"verif/harness/hx"
)

// TestReplay re-executes saved cases (witnesses of known findings, replay
// files of new violations) by calling the check's Run directly; rapid is not
// involved. VERIF_REPLAY_LIST names a file with one path per line; one JSON
// line per path is printed on stdout.
func TestReplay(t *testing.T) {
	debug.SetMaxStack(48 << 20)
	list := os.Getenv("VERIF_REPLAY_LIST")
	if list == "" {
		t.Skip("no VERIF_REPLAY_LIST")
	}
	f, err := os.Open(list)
	if err != nil {
		t.Fatal(err)
	}
	defer f.Close()
	sc := bufio.NewScanner(f)
	for sc.Scan() {
		p := sc.Text()
		if p == "" {
			continue
		}
		fmt.Printf("REPLAY-BEGIN %s\n", p)
		wd := time.AfterFunc(hx.HangAfter, func() {
			fmt.Printf("HANG replay=%s\n", p)
			os.Exit(97)
		})
		check, fails, err := hx.ReplayFile(p)
		wd.Stop()
		rec := map[string]interface{}{"path": p, "check": check, "fails": fails}
		if err != nil {
			rec["error"] = err.Error()
		}
		b, _ := json.Marshal(rec)
		fmt.Printf("REPLAY-RESULT %s\n", b)
	}
}
