package props

import (
	"errors"
	"fmt"
	"strings"
	"testing"

	"github.com/freeconf/yang/fc"
	"github.com/freeconf/yang/meta"
	"github.com/freeconf/yang/node"
	"github.com/freeconf/yang/nodeutil"
	"pgregory.net/rapid"

	"verif/harness/dm"
	"verif/harness/hx"
)

// ---- C08: Find reaches exactly the addressed node ---------------------------------------

type c08Case struct {
	Module    *dm.Module `json:"module"`
	Data      dm.Tree    `json:"data"`
	Target    dm.Path    `json:"target"`
	Leaf      string     `json:"leaf,omitempty"`
	StartLen  int        `json:"startLen"`  // the path is taken from the ancestor Target[:StartLen]
	DotDot    dm.Path    `json:"dotdot"`    // when set: start at this node and climb with ../ to the common ancestor
	Qualify   bool       `json:"qualify"`   // module-qualified segments
	Trailing  bool       `json:"trailing"`  // trailing slash
	EncodeAll bool       `json:"encodeAll"` // percent-encode every byte of key values
	LaxKeys   bool       `json:"laxKeys,omitempty"` // leave ':' '@' '!' '$' '*' and the apostrophe of key values as they are (legal in a path segment)
	Query     string     `json:"query,omitempty"`
	Mode      string     `json:"mode"` // present | absent-key | absent-container | unknown-name
	Store     string     `json:"store"`
}

// laxKeys: key characters that RFC 3986 lets stand in a path segment as they are (pchar) are left alone as well,
// ':' and '@' among them (set per case by c08Run)
var laxKeys bool

func encodeKey(k string, all bool) string {
	var b strings.Builder
	for i := 0; i < len(k); i++ {
		c := k[i]
		unreserved := (c >= 'a' && c <= 'z') || (c >= 'A' && c <= 'Z') || (c >= '0' && c <= '9') || c == '-' || c == '.' || c == '_' || c == '~'
		if laxKeys && (c == ':' || c == '@' || c == '!' || c == '$' || c == '*' || c == '\'') {
			unreserved = true
		}
		if unreserved && !all {
			b.WriteByte(c)
		} else {
			fmt.Fprintf(&b, "%%%02X", c)
		}
	}
	return b.String()
}

func renderPath(mod string, p dm.Path, leaf string, qualify, all bool) string {
	var parts []string
	for _, s := range p {
		name := s.Name
		if qualify {
			name = mod + ":" + name
		}
		if s.Key != nil {
			ks := make([]string, len(s.Key))
			for i, k := range s.Key {
				ks[i] = encodeKey(k, all)
			}
			name += "=" + strings.Join(ks, ",")
		}
		parts = append(parts, name)
	}
	if leaf != "" {
		if qualify {
			leaf = mod + ":" + leaf
		}
		parts = append(parts, leaf)
	}
	return strings.Join(parts, "/")
}

func keyNeedsEscape(p dm.Path) bool {
	for _, s := range p {
		for _, k := range s.Key {
			if encodeKey(k, false) != k {
				return true
			}
		}
	}
	return false
}

// selPath extracts (name, canonical keys) of every segment of a selection path below the module.
func selPath(root *dm.Node, sel *node.Selection) (dm.Path, error) {
	segs := sel.Path.Segments()
	var out dm.Path
	n := root
	for _, s := range segs[1:] {
		d := n.Child(s.Meta.Ident())
		if d == nil {
			return nil, fmt.Errorf("segment %s is not a schema child of %s", s.Meta.Ident(), n.Name)
		}
		seg := dm.Seg{Name: d.Name}
		if len(s.Key) > 0 {
			for i, k := range s.Key {
				if i >= len(d.Keys) {
					return nil, fmt.Errorf("segment %s carries %d keys for %d key leaves", d.Name, len(s.Key), len(d.Keys))
				}
				c, err := dm.CanonOf(d.Child(d.Keys[i]).Type, k)
				if err != nil {
					return nil, err
				}
				seg.Key = append(seg.Key, c)
			}
		}
		out = append(out, seg)
		n = d
	}
	return out, nil
}

func samePath(a, b dm.Path) bool {
	if len(a) != len(b) {
		return false
	}
	for i := range a {
		if a[i].Name != b[i].Name || len(a[i].Key) != len(b[i].Key) {
			return false
		}
		for j := range a[i].Key {
			if a[i].Key[j] != b[i].Key[j] {
				return false
			}
		}
	}
	return true
}

func metaAt(mm *meta.Module, p dm.Path, leaf string) meta.Definition {
	var cur meta.HasDataDefinitions = mm
	var d meta.Definition
	names := []string{}
	for _, s := range p {
		names = append(names, s.Name)
	}
	if leaf != "" {
		names = append(names, leaf)
	}
	for _, n := range names {
		d = findDef(cur, n)
		if d == nil {
			return nil
		}
		if hd, ok := d.(meta.HasDataDefinitions); ok {
			cur = hd
		}
	}
	return d
}

func c08Run(c c08Case, o *hx.Obs) {
	laxKeys = c.LaxKeys
	defer func() { laxKeys = false }()
	if c.LaxKeys {
		o.Class("key characters a path segment may hold are left as they are")
	}
	root := c.Module.Root()
	schemaClasses(o, c.Module)
	mm, err := loadDM(c.Module)
	if err != nil {
		o.Failf("harness|schema-rejected", "generated schema does not load: %v\n%s", err, c.Module.Yang())
		return
	}
	if c.StartLen > len(c.Target) {
		return
	}
	store, err := dm.NewStore(c.Store, root, c.Data)
	if err != nil {
		o.Failf("harness|store", "%v", err)
		return
	}
	o.Class("mode=%s", c.Mode)
	o.Class("store=%s", c.Store)
	disc := []string{}
	if len(c.DotDot) > 0 {
		disc = append(disc, "dotdot")
	}
	if c.Qualify {
		disc = append(disc, "qualified")
	}
	compound := false
	for _, s := range c.Target {
		if len(s.Key) > 1 {
			compound = true
		}
	}
	if compound {
		disc = append(disc, "compound")
	}
	if keyNeedsEscape(c.Target) {
		disc = append(disc, "escape")
	}
	if c.Leaf != "" {
		disc = append(disc, "leaf")
	}
	if c.Query != "" {
		disc = append(disc, "query")
	}
	if (len(c.Target) >= 2 && keyNeedsEscape(c.Target)) || compound || len(c.DotDot) > 0 {
		o.NonTrivial()
	}
	sig := func(clause string) string { return "find|" + clause + "|" + strings.Join(disc, "+") + "|" + c.Store }

	b := node.NewBrowser(mm, store.Node())
	rootSel := b.Root()
	// start selection
	start := rootSel
	startPath := c.Target[:c.StartLen]
	rel := c.Target[c.StartLen:]
	prefix := ""
	if len(c.DotDot) > 0 {
		// start somewhere else and climb to the root with ../ steps
		startPath = c.DotDot
		rel = c.Target
		prefix = strings.Repeat("../", len(c.DotDot))
	}
	if len(startPath) > 0 {
		var serr error
		if o.Guard("Find(start)", func() { start, serr = rootSel.Find(renderPath(c.Module.Name, startPath, "", false, true)) }) {
			return
		}
		if serr != nil || start == nil {
			o.Excluded("start selection not reachable (reported by a case that targets it)")
			return
		}
	}
	path := prefix + renderPath(c.Module.Name, rel, c.Leaf, c.Qualify, c.EncodeAll)
	if c.Trailing && path != "" {
		path += "/"
	}
	if c.Query != "" {
		path += "?" + c.Query
	}
	var sel *node.Selection
	var ferr error
	if o.Guard("Find", func() { sel, ferr = start.Find(path) }) {
		return
	}
	// navigation must not modify data
	after, serr := store.Snapshot()
	if serr != nil {
		o.Failf(sig("modified"), "backing data not conforming after Find(%q): %v", path, serr)
		return
	}
	if d := dm.Diff(root, c.Data, after, dm.DiffOpts{ListsAsSets: !store.KeepsOrder(), IgnoreEmptyList: true}, ""); len(d) > 0 {
		o.Failf(sig("modified"), "Find(%q) modified the data:\n%s", path, joinMax(d, 4))
		return
	}
	switch c.Mode {
	case "unknown-name":
		if ferr == nil || !errors.Is(ferr, fc.NotFoundError) {
			o.Failf(sig("err-class"), "Find(%q) with a name that is not in the schema: sel=%v err=%v (want a not-found error)", path, sel != nil, ferr)
		}
		return
	case "absent-key", "absent-container":
		if ferr != nil || sel != nil {
			o.Failf(sig("absent"), "Find(%q) for data that is not present: sel=%v err=%v (want nil, nil)", path, sel != nil, ferr)
		}
		return
	}
	if ferr != nil {
		o.Failf(sig("error"), "Find(%q) from %q failed: %v", path, renderPath("", startPath, "", false, false), ferr)
		return
	}
	if sel == nil {
		o.Failf(sig("nil"), "Find(%q) from %q returned no selection for a node that is present", path, renderPath("", startPath, "", false, false))
		return
	}
	// same schema node
	var wantMeta meta.Definition = mm
	if len(c.Target) > 0 || c.Leaf != "" {
		wantMeta = metaAt(mm, c.Target, c.Leaf)
	}
	if sel.Meta() != wantMeta {
		o.Failf(sig("wrong-node"), "Find(%q) selected schema node %s, want %s", path, meta.SchemaPath(sel.Meta()), meta.SchemaPath(wantMeta))
		return
	}
	// same key values along the path
	gotPath, perr := selPath(root, sel)
	wantPath := c.Target
	if c.Leaf != "" {
		wantPath = append(append(dm.Path{}, c.Target...), dm.Seg{Name: c.Leaf})
	}
	if perr != nil {
		o.Failf(sig("wrong-key"), "path of the selection returned by Find(%q): %v", path, perr)
		return
	}
	if !samePath(gotPath, wantPath) {
		o.Failf(sig("wrong-key"), "Find(%q): selection path is %s, want %s", path, gotPath, wantPath)
		return
	}
	// same content
	sn, sv, _ := dm.Resolve(root, c.Data, c.Target)
	if c.Leaf != "" {
		var got interface{ String() string }
		var gerr error
		lf := sn.Child(c.Leaf)
		var canon interface{}
		if o.Guard("Get", func() {
			v, e := sel.Get()
			gerr = e
			if e == nil && v != nil {
				if lf.Kind == "leaf-list" {
					cs, ce := dm.CanonListOf(lf.Type, v)
					l := make([]interface{}, len(cs))
					for i, x := range cs {
						l[i] = x
					}
					canon, gerr = l, ce
				} else {
					canon, gerr = dm.CanonOf(lf.Type, v)
				}
			}
			_ = got
		}) {
			return
		}
		want := sv.(dm.Tree)[c.Leaf]
		if gerr != nil || jsonOf(canon) != jsonOf(want) {
			o.Failf(sig("wrong-content"), "Find(%q).Get() = %s err=%v, want %s", path, jsonOf(canon), gerr, jsonOf(want))
		}
		return
	}
	if c.Query == "" {
		var text string
		var werr error
		if o.Guard("WriteJSON", func() { text, werr = nodeutil.WriteJSON(sel) }) {
			return
		}
		if werr == nil {
			if dec, derr := dm.DecodeOne(text); derr == nil {
				var wantNode *dm.Node = sn
				var want dm.Tree
				if st, isT := sv.(dm.Tree); isT {
					want = st
				} else {
					pn, _, _ := dm.ParentOf(root, c.Data, c.Target)
					wantNode, want = pn, dm.Tree{sn.Name: sv}
				}
				got, probs := dm.NormJSON(wantNode, dec, dm.NormOpts{}, "")
				if len(probs) == 0 {
					if d := dm.Diff(wantNode, want, got, dm.DiffOpts{IgnoreEmptyList: true, AllowDefaults: true, ListsAsSets: !store.KeepsOrder()}, ""); len(d) > 0 {
						o.Failf(sig("wrong-content"), "content read at Find(%q) differs from the addressed node:\n%s", path, joinMax(d, 4))
						return
					}
				}
			}
		}
	}
	// the rendered path of the selection identifies the same location (keys that need no escaping)
	if !keyNeedsEscape(c.Target) {
		rendered := sel.Path.StringNoModule()
		var again *node.Selection
		var aerr error
		if o.Guard("Find(rendered)", func() { again, aerr = b.Root().Find(rendered) }) {
			return
		}
		if aerr != nil || again == nil {
			o.Failf(sig("rendered-path"), "Path %q rendered by the selection cannot be found again: sel=%v err=%v", rendered, again != nil, aerr)
			return
		}
		ap, _ := selPath(root, again)
		if again.Meta() != wantMeta || !samePath(ap, wantPath) {
			o.Failf(sig("rendered-path"), "Path %q rendered by the selection leads to %s, want %s", rendered, ap, wantPath)
		}
	}
}

var c08Queries = []string{"", "", "", "depth=1", "content=config", "content=nonconfig", "fields=nothere", "with-defaults=trim", "fc.xfields=x", "fc.max-node-count=1"}

// plantEmptyKey gives the first entry of every list with a single string key the empty string as its key (when no
// other entry has it).
func plantEmptyKey(n *dm.Node, tr dm.Tree) {
	for _, d := range n.DataChildren() {
		switch v := tr[d.Name].(type) {
		case dm.Tree:
			if d.Kind == "container" {
				plantEmptyKey(d, v)
			}
		case []interface{}:
			if d.Kind != "list" {
				continue
			}
			if len(d.Keys) == 1 && d.Child(d.Keys[0]).Type.Eff().Base == "string" && len(v) > 0 {
				taken := false
				for _, e := range v {
					taken = taken || e.(dm.Tree)[d.Keys[0]] == ""
				}
				if !taken {
					v[0].(dm.Tree)[d.Keys[0]] = ""
				}
			}
			for _, e := range v {
				plantEmptyKey(d, e.(dm.Tree))
			}
		}
	}
}

func dropEmptyLists(t dm.Tree) {
	for k, v := range t {
		switch x := v.(type) {
		case []interface{}:
			if len(x) == 0 {
				delete(t, k)
			}
			for _, e := range x {
				if et, ok := e.(dm.Tree); ok {
					dropEmptyLists(et)
				}
			}
		case dm.Tree:
			dropEmptyLists(x)
		}
	}
}

func c08Gen(t *rapid.T) c08Case {
	o := dm.DefaultGen()
	store := rapid.SampledFrom([]string{"rs", "rs", "reflect-map", "json-reader", "xml-reader"}).Draw(t, "store")
	o.Types = []string{"int8", "int32", "int64", "uint16", "decimal64", "string", "boolean", "enumeration"}
	o.KeyTypes = []string{"string", "string", "int32", "int64", "uint8", "boolean", "enumeration"}
	o.ConfigFalse, o.Unions = true, false
	if store == "reflect-map" {
		o.CompoundKeys = false
		o.KeyTypes = []string{"string", "string", "int32"}
		o.Types = []string{"int8", "int32", "int64", "uint16", "decimal64", "string", "boolean"}
		o.ConfigFalse = false
	}
	m := dm.GenModule(t, o)
	root := m.Root()
	data := dm.GenTree(t, root, dm.TreeOpts{MaxEntries: 3, PresentPct: 80, NoEmptyStr: true})
	if store == "xml-reader" {
		dropEmptyLists(data) // XML has no way to say that a list is there and empty
		replaced := 0
		if xmlRepresentable(data, &replaced); replaced > 0 {
			store = "rs" // nor a way to carry every character
		}
	}
	if rapid.IntRange(0, 3).Draw(t, "empty-key") == 0 {
		plantEmptyKey(root, data) // RFC 8040 3.5.3: "list=" addresses the entry whose key is the empty string
	}
	c := c08Case{Module: m, Data: data, Store: store, Mode: "present",
		Qualify: rapid.IntRange(0, 3).Draw(t, "qualify") == 0, Trailing: rapid.IntRange(0, 3).Draw(t, "trailing") == 0,
		EncodeAll: rapid.IntRange(0, 3).Draw(t, "encodeAll") == 0, LaxKeys: rapid.IntRange(0, 2).Draw(t, "laxKeys") == 0, Query: rapid.SampledFrom(c08Queries).Draw(t, "query")}
	paths := dm.AllPaths(root, data, nil)
	if len(paths) > 0 {
		c.Target = paths[rapid.IntRange(0, len(paths)-1).Draw(t, "target")]
	}
	sn, sv, _ := dm.Resolve(root, data, c.Target)
	if st, isT := sv.(dm.Tree); isT && rapid.IntRange(0, 3).Draw(t, "leaf?") == 0 {
		var leaves []string
		for _, d := range sn.DataChildren() {
			if _, has := st[d.Name]; has && d.IsLeafy() {
				leaves = append(leaves, d.Name)
			}
		}
		if len(leaves) > 0 {
			c.Leaf = rapid.SampledFrom(leaves).Draw(t, "leaf")
			c.Query = ""
		}
	}
	// start: root, an ancestor, or elsewhere with ../
	switch rapid.IntRange(0, 5).Draw(t, "startkind") {
	case 0, 1:
		if len(c.Target) > 0 {
			k := rapid.IntRange(0, len(c.Target)).Draw(t, "startLen")
			// an ancestor must be a container or an entry (not a bare list)
			for k > 0 {
				an, _, _ := dm.Resolve(root, data, c.Target[:k])
				if an.Kind == "list" && c.Target[k-1].Key == nil {
					k--
					continue
				}
				break
			}
			c.StartLen = k
		}
	case 2:
		if len(paths) > 0 {
			p := paths[rapid.IntRange(0, len(paths)-1).Draw(t, "dotdot")]
			// start on a container reached through containers only: one ../ per segment
			// (the parent selection of a list entry is the list, not the container holding it)
			plain := true
			for i := range p {
				an, _, _ := dm.Resolve(root, data, p[:i+1])
				if an.Kind != "container" {
					plain = false
				}
			}
			if plain && len(p) <= 3 && len(c.Target) > 0 {
				c.DotDot = p
				c.Query = ""
			}
		}
	}
	// negative modes
	switch rapid.IntRange(0, 9).Draw(t, "mode") {
	case 0:
		// an absent key of a keyed list on the path
		for i := len(c.Target) - 1; i >= 0; i-- {
			if c.Target[i].Key != nil {
				ln, _, _ := dm.Resolve(root, data, c.Target[:i+1])
				nk := make([]string, len(c.Target[i].Key))
				for j, kn := range ln.Keys {
					nk[j] = dm.GenValue(t, ln.Child(kn).Type, "absentkey", false)
					if nk[j] == "" {
						nk[j] = "zz"
					}
				}
				pn, pt, _ := dm.ParentOf(root, data, c.Target[:i+1])
				_ = pn
				if dm.FindEntry(ln, dm.Entries(pt, ln.Name), nk) < 0 {
					t2 := append(dm.Path{}, c.Target[:i+1]...)
					t2[i] = dm.Seg{Name: c.Target[i].Name, Key: nk}
					c.Target, c.Leaf, c.Mode, c.StartLen, c.DotDot = t2, "", "absent-key", 0, nil
				}
				break
			}
		}
	case 1:
		// a container of the schema that is not present in the data
		sn, sv, _ := dm.Resolve(root, data, c.Target)
		if st, isT := sv.(dm.Tree); isT {
			for _, d := range sn.DataChildren() {
				if _, has := st[d.Name]; !has && d.Kind == "container" {
					c.Target = append(append(dm.Path{}, c.Target...), dm.Seg{Name: d.Name})
					c.Leaf, c.Mode, c.StartLen, c.DotDot = "", "absent-container", 0, nil
					break
				}
			}
		}
	case 2:
		sn, _, _ := dm.Resolve(root, data, c.Target)
		if !(sn.Kind == "list" && len(c.Target) > 0 && c.Target[len(c.Target)-1].Key == nil) {
			names := []string{"nothere", "zz9", "x:y", "gm:nothere"}
			// names that exist in the schema but are no data nodes here: choices and cases, a child under the name of
			// another module, a child's name with an encoded slash in it
			for _, ch := range sn.Choices() {
				names = append(names, ch.Name)
				for _, cs := range ch.Children {
					if cs.Kind == "case" && sn.Child(cs.Name) == nil {
						names = append(names, cs.Name)
					}
				}
			}
			for _, d := range sn.DataChildren() {
				names = append(names, "zz:"+d.Name, d.Name+"%2F"+d.Name)
			}
			c.Leaf, c.Mode, c.StartLen, c.DotDot = rapid.SampledFrom(names).Draw(t, "unknown"), "unknown-name", 0, nil
			c.Qualify = false
		}
	}
	return c
}

var c08Find = hx.Register(&hx.Check[c08Case]{
	Name: "c08-find",
	Rule: "generated schema + data (lists in lists, compound keys, key types string/int/bool/enum, key strings with / , = % + space and non-ASCII); target = a node present in the tree (container, list, entry, leaf) or an absent key / absent container / unknown name; start = root, an ancestor, or another node with ../ steps; rendering: qualified segments, trailing slash, percent-encode everything or only what is required, optional read-filter query; oracle: same schema node, same keys, same content, data unchanged, rendered path re-finds; non-trivial = >= 2 segments with a key needing escapes, a compound key, or ../ steps",
	Gen:  c08Gen,
	Run:  c08Run,
})

func TestC08(t *testing.T) {
	s := hx.Begin(t, "C08")
	defer s.End()
	hx.Run(s, c08Find, s.N(3000, 30000))
	hx.Each(s, c08Any, true, c08AnyCases)
}
