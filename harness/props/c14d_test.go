package props

// C14, groupings that use each other: the library supports recursive groupings as long as a data node lies between
// a grouping and its use of itself, and has to say no to the others. Every graph of uses between two to four
// groupings, whatever lies on its edges, must load or be refused - promptly, and the module it gives must be walkable.

import (
	"fmt"
	"strings"

	"verif/harness/hx"

	"pgregory.net/rapid"
)

type c14GroupEdge struct {
	To   int    `json:"to"`
	Wrap string `json:"wrap"` // "" = the uses stands directly in the grouping | container | list | choice | case | notif | action
	When bool   `json:"when,omitempty"`
	Feat bool   `json:"feat,omitempty"` // the uses has an if-feature that is off
	Aug  bool   `json:"aug,omitempty"`  // the uses carries an augment of a container of the used grouping
}

type c14GroupCase struct {
	// Uses[i] = what grouping i uses, in order, between its own leaves
	Uses [][]c14GroupEdge `json:"uses"`
	// Top: how the module uses grouping 0: container | list | direct | choice
	Top string `json:"top"`
	// Ref: a leafref beside the top-level uses: "" none | hit (a leaf that is there) | miss (a path nothing answers to) | deep
	Ref string `json:"ref,omitempty"`
	// FeatureOff: the guarded uses are written with an expression that is false (all features are on)
	FeatureOff bool `json:"featureOff,omitempty"`
}

func (c c14GroupCase) text() string {
	var b strings.Builder
	b.WriteString("module gg { namespace \"urn:gg\"; prefix gg; revision 2020-01-01; feature f;\n")
	for i, es := range c.Uses {
		fmt.Fprintf(&b, " grouping g%d {\n  leaf x%d { type string; }\n  container k%d { leaf y { type string; } }\n", i, i, i)
		for j, e := range es {
			body := ""
			if e.When {
				body += fmt.Sprintf(" when \"x%d = 'a'\";", i)
			}
			if e.Feat && c.FeatureOff {
				body += " if-feature \"not f\";" // every feature is on: this uses is left out
			} else if e.Feat {
				body += " if-feature f;"
			}
			if e.Aug {
				body += fmt.Sprintf(" augment \"k%d\" { leaf added%d%d { type string; } }", e.To, i, j)
			}
			u := fmt.Sprintf("uses g%d;", e.To)
			if body != "" {
				u = fmt.Sprintf("uses g%d {%s }", e.To, body)
			}
			n := fmt.Sprintf("%d%d", i, j)
			switch e.Wrap {
			case "container":
				u = "container c" + n + " { " + u + " }"
			case "list":
				u = "list l" + n + " { key id" + n + "; leaf id" + n + " { type string; } " + u + " }"
			case "choice":
				u = "choice ch" + n + " { case cs" + n + " { " + u + " leaf z" + n + " { type string; } } }"
			case "case":
				u = "choice ch" + n + " { case cs" + n + " { container cc" + n + " { " + u + " } } case other" + n + " { leaf o" + n + " { type string; } } }"
			case "notif":
				u = "notification n" + n + " { " + u + " }"
			case "action":
				u = "container ac" + n + " { action a" + n + " { input { " + u + " } } }"
			}
			b.WriteString("  " + u + "\n")
		}
		b.WriteString(" }\n")
	}
	switch c.Top {
	case "direct":
		b.WriteString(" uses g0;\n")
	case "list":
		b.WriteString(" list top { key id; leaf id { type string; } uses g0; }\n")
	case "choice":
		b.WriteString(" container top { choice tch { case tcs { uses g0; } } }\n")
	default:
		b.WriteString(" container top { uses g0; }\n")
	}
	switch c.Ref {
	case "hit":
		b.WriteString(" container refs { leaf t { type string; } leaf r { type leafref { path \"../t\"; } } }\n")
	case "miss":
		b.WriteString(" container refs { uses g0; leaf r { type leafref { path \"../nope\"; } } }\n")
	case "deep":
		b.WriteString(" container refs { uses g0; leaf r { type leafref { path \"../k0/y\"; } } }\n")
	}
	b.WriteString("}\n")
	return b.String()
}

var c14Groups = hx.Register(&hx.Check[c14GroupCase]{
	Name:    "c14-grouping-graphs",
	Journal: true,
	Rule:    "two to four groupings, each using zero to three of them (itself included) directly or inside a container, list, choice/case, notification or action input, the uses plain or with a when, an if-feature that is on or off, or an augment; the module uses the first one in a container, list, case or directly, optionally beside a leafref whose path hits, misses or leads into the grouping; loading returns a module or an error (never a panic, a stack overflow or a hang) and a returned module can be walked; non-trivial = the graph has a cycle",
	Gen: func(t *rapid.T) c14GroupCase {
		n := rapid.IntRange(2, 4).Draw(t, "groupings")
		c := c14GroupCase{Top: rapid.SampledFrom([]string{"container", "container", "list", "direct", "choice"}).Draw(t, "top"),
			Ref:        rapid.SampledFrom([]string{"", "", "hit", "miss", "deep"}).Draw(t, "ref"),
			FeatureOff: rapid.Bool().Draw(t, "feature-off")}
		for i := 0; i < n; i++ {
			var es []c14GroupEdge
			for j := 0; j < rapid.IntRange(0, 3).Draw(t, "nuses"); j++ {
				es = append(es, c14GroupEdge{
					To:   rapid.IntRange(0, n-1).Draw(t, "to"),
					Wrap: rapid.SampledFrom([]string{"", "", "container", "container", "list", "choice", "case", "notif", "action"}).Draw(t, "wrap"),
					When: rapid.IntRange(0, 4).Draw(t, "when") == 0,
					Feat: rapid.IntRange(0, 4).Draw(t, "feat") == 0,
					Aug:  rapid.IntRange(0, 5).Draw(t, "aug") == 0,
				})
			}
			c.Uses = append(c.Uses, es)
		}
		return c
	},
	Run: func(c c14GroupCase, o *hx.Obs) {
		// is there a cycle, and one with no data node on it?
		n := len(c.Uses)
		reach := make([][]bool, n)
		direct := make([][]bool, n)
		for i := range reach {
			reach[i], direct[i] = make([]bool, n), make([]bool, n)
			for _, e := range c.Uses[i] {
				if e.To < n {
					reach[i][e.To] = true
					if e.Wrap == "" {
						direct[i][e.To] = true
					}
				}
			}
		}
		for k := 0; k < n; k++ {
			for i := 0; i < n; i++ {
				for j := 0; j < n; j++ {
					reach[i][j] = reach[i][j] || (reach[i][k] && reach[k][j])
					direct[i][j] = direct[i][j] || (direct[i][k] && direct[k][j])
				}
			}
		}
		cyc, dcyc := false, false
		for i := 0; i < n; i++ {
			cyc = cyc || reach[i][i]
			dcyc = dcyc || direct[i][i]
		}
		switch {
		case dcyc:
			o.Class("graph=cycle with no data node on it")
		case cyc:
			o.Class("graph=cycle through data nodes")
		default:
			o.Class("graph=acyclic")
		}
		if cyc {
			o.NonTrivial()
		}
		o.Class("top=%s", c.Top)
		if c.Ref != "" {
			o.Class("leafref=%s", c.Ref)
		}
		runLoad(c14Case{Kind: "grouping-graph", Text: c.text()}, o)
	},
})
