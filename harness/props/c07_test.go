package props

import (
	"fmt"
	"net/url"
	"sort"
	"strings"
	"testing"

	"github.com/freeconf/yang/node"
	"github.com/freeconf/yang/nodeutil"
	"pgregory.net/rapid"

	"verif/harness/dm"
	"verif/harness/hx"
)

// ---- C07: query parameters return exactly the defined projection ---------------------------

type c07Param struct {
	Name  string `json:"name"`
	Value string `json:"value"`
}

type c07Case struct {
	Module   *dm.Module `json:"module"`
	Data     dm.Tree    `json:"data"`
	Target   dm.Path    `json:"target"`
	Params   []c07Param `json:"params"`
	Constrain bool      `json:"constrain"` // use Selection.Constrain instead of Find("path?query")
	Invalid  bool       `json:"invalid"`   // a parameter value is invalid: an error is expected
	Via      dm.Path    `json:"via,omitempty"` // Find(path?query) is issued from this container with leading ../ steps
	Chain    bool       `json:"chain,omitempty"` // (with Constrain) one parameter at a time: each step constrains the selection the step before returned
	Raw      bool       `json:"raw,omitempty"` // parameter values are written as RFC 8040 shows them: ; / ( ) ! as they are
	Store    string     `json:"store,omitempty"` // "" = the reference store; json-reader | xml-reader: a document read by the library serves the data
}

type leafRec struct {
	id     string   // unique path with keys
	names  []string // names below the target (no keys)
	isKey  bool
	cfg    bool // leaf config and every container above it (below the target) config
	leafCfg bool
	level  int
	value  string
	isDef  bool
	listAt map[string]int // list path (names) -> row index of the entry this leaf sits in
}

func flatten(n *dm.Node, t dm.Tree, cfg bool, chainCfg bool, names []string, id string, level int, rows map[string]int, out *[]leafRec) {
	for _, d := range n.DataChildren() {
		v, ok := t[d.Name]
		if !ok {
			continue
		}
		dcfg := cfg
		if d.Config != nil {
			dcfg = *d.Config
		}
		nn := append(append([]string{}, names...), d.Name)
		switch d.Kind {
		case "leaf", "leaf-list":
			rec := leafRec{id: id + "/" + d.Name, names: nn, cfg: chainCfg && dcfg, leafCfg: dcfg, level: level, value: jsonOf(v), listAt: rows}
			for _, k := range n.Keys {
				if n.Kind == "list" && k == d.Name {
					rec.isKey = true
				}
			}
			if d.Kind == "leaf" && d.Default != nil {
				if s, _ := v.(string); s == *d.Default {
					rec.isDef = true
				}
			}
			if d.Kind == "leaf-list" && len(d.Defaults) > 0 && jsonOf(v) == jsonOf(d.Defaults) {
				rec.isDef = true
			}
			*out = append(*out, rec)
		case "container":
			flatten(d, v.(dm.Tree), dcfg, chainCfg && dcfg, nn, id+"/"+d.Name, level+1, rows, out)
		case "list":
			for i, e := range v.([]interface{}) {
				r2 := map[string]int{}
				for k, x := range rows {
					r2[k] = x
				}
				r2[strings.Join(nn, "/")] = i
				et := e.(dm.Tree)
				// entries are identified by position: a constrained read may omit key leaves
				flatten(d, et, dcfg, chainCfg && dcfg, nn, fmt.Sprintf("%s/%s[#%d]", id, d.Name, i), level+1, r2, out)
			}
		}
	}
}

// parseFields expands a fields expression into selector paths: a;b  a/b  a(b;c)
func parseFields(expr string) [][]string {
	var paths [][]string
	var parse func(s string, prefix []string)
	split := func(s string) []string { // split on top-level ';'
		var out []string
		depth, start := 0, 0
		for i, r := range s {
			switch r {
			case '(':
				depth++
			case ')':
				depth--
			case ';':
				if depth == 0 {
					out = append(out, s[start:i])
					start = i + 1
				}
			}
		}
		return append(out, s[start:])
	}
	parse = func(s string, prefix []string) {
		for _, alt := range split(s) {
			if i := strings.IndexByte(alt, '('); i >= 0 && strings.HasSuffix(alt, ")") {
				head := strings.Split(strings.Trim(alt[:i], "/"), "/")
				parse(alt[i+1:len(alt)-1], append(append([]string{}, prefix...), head...))
				continue
			}
			p := append([]string{}, prefix...)
			for _, seg := range strings.Split(alt, "/") {
				if seg != "" {
					p = append(p, seg)
				}
			}
			paths = append(paths, p)
		}
	}
	parse(expr, nil)
	return paths
}

func isPrefix(sel, path []string) bool {
	if len(sel) > len(path) {
		return false
	}
	for i := range sel {
		if sel[i] != path[i] {
			return false
		}
	}
	return true
}

// keep decides whether the projection defined by one parameter keeps the leaf.
func c07Keep(p c07Param, r leafRec) bool {
	switch p.Name {
	case "content":
		switch p.Value {
		case "config":
			return r.cfg
		case "nonconfig":
			return !r.leafCfg
		}
		return true
	case "depth":
		var n int
		fmt.Sscanf(p.Value, "%d", &n)
		return r.level <= n
	case "fields":
		for _, sel := range parseFields(p.Value) {
			if isPrefix(sel, r.names) {
				return true
			}
		}
		return false
	case "fc.xfields":
		for _, sel := range parseFields(p.Value) {
			if isPrefix(sel, r.names) {
				return false
			}
		}
		return true
	case "with-defaults":
		if p.Value == "trim" {
			return !r.isDef
		}
		return true
	}
	return true
}

func c07Query(params []c07Param) string { return c07QueryAs(params, false) }

// c07QueryAs writes the query; raw leaves the characters RFC 3986 allows in a query as they are (; / ( ) ! : ,), the way
// RFC 8040 writes its examples, and percent-encodes only the rest.
func c07QueryAs(params []c07Param, raw bool) string {
	var parts []string
	for _, p := range params {
		v := url.QueryEscape(p.Value)
		if raw {
			for _, ch := range []string{";", "/", "(", ")", "!", ":", ","} {
				v = strings.ReplaceAll(v, url.QueryEscape(ch), ch)
			}
		}
		parts = append(parts, p.Name+"="+v)
	}
	return strings.Join(parts, "&")
}

func c07Run(c c07Case, o *hx.Obs) {
	root := c.Module.Root()
	schemaClasses(o, c.Module)
	mm, err := loadDM(c.Module)
	if err != nil {
		o.Failf("harness|schema-rejected", "generated schema does not load: %v\n%s", err, c.Module.Yang())
		return
	}
	tn, tv, ok := dm.Resolve(root, c.Data, c.Target)
	if !ok {
		return
	}
	tt, isTree := tv.(dm.Tree)
	if !isTree {
		return
	}
	var names []string
	for _, p := range c.Params {
		names = append(names, p.Name)
	}
	sort.Strings(names)
	pname := strings.Join(names, "+")
	o.Class("params=%s", pname)
	disc := ""
	for _, p := range c.Params {
		if p.Name == "fields" || p.Name == "fc.xfields" {
			if strings.Contains(p.Value, "/") || strings.Contains(p.Value, "(") {
				disc = "multiseg"
			} else if strings.Contains(p.Value, ";") && disc == "" {
				disc = "alt"
			}
		}
	}
	sig := func(clause string) string {
		s := "query|" + pname + "|" + clause
		if disc != "" {
			s += "|" + disc
		}
		return s
	}
	kind := c.Store
	if kind == "" {
		kind = "rs"
	}
	o.Class("store=%s", kind)
	store, serr := dm.NewStore(kind, root, c.Data)
	if serr != nil {
		o.Failf("harness|store", "%v", serr)
		return
	}
	b := node.NewBrowser(mm, store.Node())
	path := findPath(c.Target)
	read := func(query string) (dm.Tree, string, error, bool) {
		var text string
		var rerr error
		if o.Guard("constrained read", func() {
			var sel *node.Selection
			if c.Constrain || query == "" {
				sel = b.Root()
				if path != "" {
					if sel, rerr = sel.Find(path); rerr != nil || sel == nil {
						if rerr == nil {
							rerr = fmt.Errorf("harness: target not found")
						}
						return
					}
				}
				if query != "" {
					qs := []string{query}
					if c.Chain && len(c.Params) > 1 {
						// the parameters one after the other, alternating between Constrain and Find("?...")
						qs = nil
						for _, p := range c.Params {
							qs = append(qs, c07QueryAs([]c07Param{p}, c.Raw))
						}
					}
					for i, q := range qs {
						if i%2 == 0 {
							sel, rerr = sel.Constrain(q)
						} else {
							sel, rerr = sel.Find("?" + q)
						}
						if rerr != nil || sel == nil {
							return
						}
					}
				}
			} else {
				from, rel := b.Root(), path
				if len(c.Via) > 0 {
					if from, rerr = from.Find(findPath(c.Via)); rerr != nil || from == nil {
						rerr = fmt.Errorf("harness: via not found: %v", rerr)
						return
					}
					rel = strings.Repeat("../", len(c.Via)) + path
				}
				if sel, rerr = from.Find(rel + "?" + query); rerr != nil {
					return
				}
				if sel == nil {
					rerr = fmt.Errorf("harness: target not found")
					return
				}
			}
			text, rerr = nodeutil.WriteJSON(sel)
		}) {
			return nil, "", nil, true
		}
		if rerr != nil {
			return nil, text, rerr, false
		}
		dec, derr := dm.DecodeOne(text)
		if derr != nil {
			return nil, text, derr, false
		}
		t, probs := dm.NormJSON(tn, dec, dm.NormOpts{}, "")
		if len(probs) > 0 {
			return nil, text, fmt.Errorf("%s", probs[0]), false
		}
		return t, text, nil, false
	}
	full, _, ferr, panicked := read("")
	if panicked {
		return
	}
	if ferr != nil {
		o.Excluded("unconstrained read fails (C04/C15 territory)")
		return
	}
	query := c07QueryAs(c.Params, c.Raw)
	if c.Raw {
		o.Class("query written raw")
	}
	if c.Chain {
		o.Class("parameters applied one selection after the other")
	}
	got, text, gerr, panicked := read(query)
	if panicked {
		return
	}
	// the data is not modified by a read
	after, _ := store.Snapshot()
	if d := dm.Diff(root, c.Data, after, dm.DiffOpts{IgnoreEmptyList: true}, ""); len(d) > 0 {
		o.Failf(sig("modified-store"), "a constrained read modified the data:\n%s", joinMax(d, 3))
		return
	}
	if c.Invalid {
		o.NonTrivial()
		if gerr == nil {
			o.Failf(sig("no-error"), "invalid parameter value in %q gave an answer instead of an error: %s", query, text)
		}
		return
	}
	if gerr != nil {
		o.Failf(sig("error"), "read with %q failed: %v", query, gerr)
		return
	}
	tcfg := true // effective config of the target
	{
		n := root
		cfg := true
		for _, s := range c.Target {
			n = n.Child(s.Name)
			if n.Config != nil {
				cfg = *n.Config
			}
		}
		tcfg = cfg
	}
	var fullRecs, gotRecs []leafRec
	flatten(tn, full, tcfg, true, nil, "", 1, map[string]int{}, &fullRecs)
	flatten(tn, got, tcfg, true, nil, "", 1, map[string]int{}, &gotRecs)
	_ = tt
	gotByID := map[string]leafRec{}
	for _, r := range gotRecs {
		gotByID[r.id] = r
	}
	fullByID := map[string]leafRec{}
	removed, keptN := 0, 0
	for _, r := range fullRecs {
		fullByID[r.id] = r
		keep := true
		for _, p := range c.Params {
			keep = keep && c07Keep(p, r)
		}
		g, present := gotByID[r.id]
		if keep {
			keptN++
		} else {
			removed++
		}
		if r.isKey {
			continue // presence of key leaves in emptied regions is not asserted (DESIGN 4.2)
		}
		switch {
		case keep && !present:
			o.Failf(sig("dropped"), "%q drops %s (level %d, config %v, default %v) which the parameter keeps\nfull: %s\ngot:  %s", query, r.id, r.level, r.leafCfg, r.isDef, jsonOf(full), text)
			return
		case !keep && present:
			o.Failf(sig("kept-extra"), "%q keeps %s (level %d, config %v, default %v) which the parameter excludes\nfull: %s\ngot:  %s", query, r.id, r.level, r.leafCfg, r.isDef, jsonOf(full), text)
			return
		case keep && present && g.value != r.value:
			o.Failf(sig("value"), "%q changes the value of %s: %s -> %s", query, r.id, r.value, g.value)
			return
		}
	}
	for _, g := range gotRecs {
		f, present := fullByID[g.id]
		if !present || f.value != g.value {
			o.Failf(sig("kept-extra"), "%q reports %s=%s which the unconstrained read does not contain", query, g.id, g.value)
			return
		}
	}
	if removed > 0 && keptN > 0 {
		o.NonTrivial()
	}
}

func genFieldsExpr(t *rapid.T, n *dm.Node, data dm.Tree) string {
	// candidate paths from the schema below the target (names)
	var paths [][]string
	var walk func(n *dm.Node, prefix []string, depth int)
	walk = func(n *dm.Node, prefix []string, depth int) {
		for _, d := range n.DataChildren() {
			p := append(append([]string{}, prefix...), d.Name)
			paths = append(paths, p)
			if (d.Kind == "container" || d.Kind == "list") && depth < 3 {
				walk(d, p, depth+1)
			}
		}
	}
	walk(n, nil, 0)
	if len(paths) == 0 {
		return "nothere"
	}
	k := rapid.IntRange(1, 3).Draw(t, "nalts")
	var alts []string
	for i := 0; i < k; i++ {
		p := paths[rapid.IntRange(0, len(paths)-1).Draw(t, "fieldpath")]
		if len(p) >= 2 && rapid.IntRange(0, 3).Draw(t, "group?") == 0 {
			// a(b;c) form with a sibling of the last segment
			alts = append(alts, strings.Join(p[:len(p)-1], "/")+"("+p[len(p)-1]+";nothere)")
		} else {
			alts = append(alts, strings.Join(p, "/"))
		}
	}
	return strings.Join(alts, ";")
}

func c07Gen(t *rapid.T) c07Case {
	o := dm.DefaultGen()
	o.Types = []string{"int8", "int32", "int64", "uint16", "decimal64", "string", "boolean", "enumeration"}
	o.KeyTypes = []string{"string", "int32"}
	o.Unions, o.Choices, o.LeafLists = false, true, true
	o.NestedChoice = false
	o.ConfigFalse, o.Defaults = true, true
	m := dm.GenModule(t, o)
	root := m.Root()
	data := dm.GenTree(t, root, dm.TreeOpts{MaxEntries: 3, PresentPct: 85, EasyKeys: true, EasyStrings: true, NoEmptyStr: true})
	// plant defaults: set some leaves to their default value so with-defaults=trim has work
	var plant func(n *dm.Node, tr dm.Tree)
	plant = func(n *dm.Node, tr dm.Tree) {
		for _, d := range n.DataChildren() {
			switch d.Kind {
			case "leaf":
				if d.Default != nil && rapid.IntRange(0, 2).Draw(t, "plant") == 0 {
					if _, has := tr[d.Name]; has {
						tr[d.Name] = *d.Default
					}
				}
			case "container":
				if c, ok := tr[d.Name].(dm.Tree); ok {
					plant(d, c)
				}
			case "list":
				if l, ok := tr[d.Name].([]interface{}); ok {
					for _, e := range l {
						plant(d, e.(dm.Tree))
					}
				}
			}
		}
	}
	plant(root, data)
	// (leaves only: the library reads the when of a container from inside that container, where a sibling of the
	// container is not to be found)
	// some leaves at the top level get a when that reads an earlier sibling leaf which has a default and holds it (or
	// is not set): the condition is true, and has to stay true when the request trims that leaf from the answer
	if rapid.IntRange(0, 2).Draw(t, "whens") == 0 {
		var operand *dm.Node
		for _, d := range m.Top {
			if operand != nil && d.When == "" && d.Kind == "leaf" && rapid.Bool().Draw(t, "when-here") {
				d.When = operand.Name + " = '" + *operand.Default + "'"
				if _, has := data[operand.Name]; has {
					data[operand.Name] = *operand.Default
				}
			}
			if d.Kind == "leaf" && d.Default != nil && d.When == "" && d.Type.Eff().Base != "empty" && !strings.ContainsAny(*d.Default, "'\"\\ ") {
				switch d.Type.Eff().Base {
				case "string", "int8", "int32", "int64", "uint16", "boolean", "enumeration":
					operand = d
				}
			}
		}
	}
	c := c07Case{Module: m, Data: data, Constrain: rapid.Bool().Draw(t, "constrain")}
	c.Store = rapid.SampledFrom([]string{"", "", "", "json-reader", "xml-reader"}).Draw(t, "store")
	if c.Store == "xml-reader" {
		dropEmptyLists(c.Data) // XML has no way to say that a list is there and empty
	}
	var targets []dm.Path
	for _, p := range dm.AllPaths(root, data, nil) {
		n, _, _ := dm.Resolve(root, data, p)
		if n.Kind == "container" || p[len(p)-1].Key != nil {
			targets = append(targets, p)
		}
	}
	if len(targets) > 0 && rapid.IntRange(0, 2).Draw(t, "nonroot") == 0 {
		c.Target = targets[rapid.IntRange(0, len(targets)-1).Draw(t, "target")]
	}
	if !c.Constrain && rapid.IntRange(0, 2).Draw(t, "via") == 0 {
		// a container reached through containers only (the parent selection of a list entry is the list)
		var vias []dm.Path
		for _, p := range dm.AllPaths(root, data, nil) {
			ok := true
			for _, seg := range p {
				if seg.Key != nil {
					ok = false
				}
			}
			if n, _, _ := dm.Resolve(root, data, p); ok && n.Kind == "container" {
				vias = append(vias, p)
			}
		}
		if len(vias) > 0 {
			c.Via = vias[rapid.IntRange(0, len(vias)-1).Draw(t, "via-path")]
		}
	}
	tn, _, _ := dm.Resolve(root, data, c.Target)
	np := rapid.SampledFrom([]int{1, 1, 1, 2, 2, 3}).Draw(t, "nparams")
	used := map[string]bool{}
	for i := 0; i < np; i++ {
		name := rapid.SampledFrom([]string{"content", "depth", "fields", "fc.xfields", "with-defaults"}).Draw(t, "param")
		if used[name] || (name == "fields" && used["fc.xfields"]) || (name == "fc.xfields" && used["fields"]) {
			continue
		}
		used[name] = true
		var v string
		switch name {
		case "content":
			v = rapid.SampledFrom([]string{"config", "nonconfig", "all"}).Draw(t, "content")
		case "depth":
			v = fmt.Sprint(rapid.IntRange(1, 6).Draw(t, "depth"))
		case "fields", "fc.xfields":
			v = genFieldsExpr(t, tn, data)
		case "with-defaults":
			v = rapid.SampledFrom([]string{"trim", "report-all"}).Draw(t, "wd")
		}
		c.Params = append(c.Params, c07Param{name, v})
	}
	if len(c.Params) == 0 {
		c.Params = []c07Param{{"depth", "2"}}
	}
	if rapid.IntRange(0, 9).Draw(t, "invalid?") == 0 {
		c.Invalid = true
		bad := rapid.SampledFrom([]c07Param{{"depth", "0"}, {"depth", "x"}, {"depth", "-1"}, {"depth", "1.5"}, {"content", "bogus"}, {"content", ""}, {"with-defaults", "bogus"},
			{"fc.range", "nobang"}, {"fc.range", "a!x-y"}, {"fc.range", "a!"}, {"fc.range", "a!1-2-3"}, {"fc.range", "a!-1"}, {"fc.range", "a!1--2"}, {"depth", "%zz"}, {"fc.max-node-count", "x"}, {"fc.max-node-count", "-1"}}).Draw(t, "bad")
		c.Params = []c07Param{bad}
	}
	c.Raw = rapid.Bool().Draw(t, "raw")
	if c.Constrain && !c.Invalid && len(c.Params) > 1 {
		names := map[string]bool{}
		for _, p := range c.Params {
			names[p.Name] = true
		}
		c.Chain = len(names) == len(c.Params) && rapid.Bool().Draw(t, "chain")
	}
	return c
}

var c07Proj = hx.Register(&hx.Check[c07Case]{
	Name: "c07-projection",
	Rule: "generated schema (config and non-config nodes, defaults, nested lists, choices) + data with leaves planted at their default; target = root, container or list entry; 1-3 of {content, depth 1..6, fields / fc.xfields with multi-segment, alternative and grouped paths, with-defaults}; Find(path?query) from the root or from another container with leading ../ steps, and Constrain(query); oracle: the set of (path, value) of non-key leaves equals the intersection of the per-parameter projections of the unconstrained read taken through the same writer; invalid values must be errors; non-trivial = the projection removes something but not everything, or an error is expected",
	Gen:  c07Gen,
	Run:  c07Run,
})

func TestC07(t *testing.T) {
	s := hx.Begin(t, "C07")
	defer s.End()
	hx.Run(s, c07Proj, s.N(3000, 30000))
	hx.Run(s, c07Range, s.N(2000, 20000))
	hx.Run(s, c07ListTarget, s.N(2000, 20000))
	hx.Run(s, c07Sibling, s.N(2000, 20000))
	hx.Run(s, c07Rec, s.N(800, 8000))
}

// ---- fc.range and fc.max-node-count -----------------------------------------------------

type c07RangeCase struct {
	Module *dm.Module `json:"module"`
	Data   dm.Tree    `json:"data"`
	List   []string   `json:"list"` // selector path (names) from the root to the list
	Also   [][]string `json:"also,omitempty"` // further alternatives of the selector: lists nested in that list
	Start  int        `json:"start"`
	End    int        `json:"end"` // -1 = open
	MaxNode int       `json:"maxNode"` // >= 0: test fc.max-node-count instead
	Raw     bool      `json:"raw,omitempty"`
}

func countNodes(n *dm.Node, t dm.Tree) (containers, all int) {
	for _, d := range n.DataChildren() {
		v, ok := t[d.Name]
		if !ok {
			continue
		}
		switch d.Kind {
		case "container":
			c, a := countNodes(d, v.(dm.Tree))
			containers += 1 + c
			all += 1 + a
		case "list":
			all++
			for _, e := range v.([]interface{}) {
				c, a := countNodes(d, e.(dm.Tree))
				containers += c
				all += 1 + a
			}
		}
	}
	return
}

func c07RangeRun(c c07RangeCase, o *hx.Obs) {
	root := c.Module.Root()
	schemaClasses(o, c.Module)
	mm, err := loadDM(c.Module)
	if err != nil {
		o.Failf("harness|schema-rejected", "generated schema does not load: %v\n%s", err, c.Module.Yang())
		return
	}
	b := node.NewBrowser(mm, dm.NewRS(root, dm.CloneTree(c.Data)))
	read := func(query string) (dm.Tree, string, error, bool) {
		var text string
		var rerr error
		if o.Guard("constrained read", func() {
			sel, e := b.Root().Find("?" + query)
			if e != nil {
				rerr = e
				return
			}
			text, rerr = nodeutil.WriteJSON(sel)
		}) {
			return nil, "", nil, true
		}
		if rerr != nil {
			return nil, text, rerr, false
		}
		dec, derr := dm.DecodeOne(text)
		if derr != nil {
			return nil, text, derr, false
		}
		t, probs := dm.NormJSON(root, dec, dm.NormOpts{}, "")
		if len(probs) > 0 {
			return nil, text, fmt.Errorf("%s", probs[0]), false
		}
		return t, text, nil, false
	}
	full, _, ferr, panicked := read("depth=64")
	if panicked || ferr != nil {
		return
	}
	if c.MaxNode >= 0 {
		o.Class("param=fc.max-node-count")
		containers, all := countNodes(root, full)
		top := 0
		for _, d := range root.DataChildren() {
			if _, ok := full[d.Name]; ok && d.Kind == "container" {
				top++
			}
		}
		got, text, gerr, panicked := read(fmt.Sprintf("fc.max-node-count=%d", c.MaxNode))
		if panicked {
			return
		}
		o.Class("containers=%d", min(containers, 9))
		if c.MaxNode < all {
			o.NonTrivial()
		}
		if gerr == nil {
			if d := dm.Diff(root, full, got, dm.DiffOpts{IgnoreEmptyList: true, IgnoreEmptyCont: false}, ""); len(d) > 0 {
				o.Failf("query|fc.max-node-count|partial-without-error", "fc.max-node-count=%d returned a partial answer without an error:\n%s\n%s", c.MaxNode, joinMax(d, 3), text)
				return
			}
			if c.MaxNode < top {
				o.Failf("query|fc.max-node-count|no-error", "fc.max-node-count=%d but the answer holds %d top-level containers (%d containers, %d nodes in all) and no error was returned", c.MaxNode, top, containers, all)
			}
			return
		}
		if c.MaxNode >= all {
			o.Failf("query|fc.max-node-count|spurious-error", "fc.max-node-count=%d with only %d nodes in the answer failed: %v", c.MaxNode, all, gerr)
		}
		return
	}
	o.Class("param=fc.range")
	endStr := ""
	if c.End >= 0 {
		endStr = fmt.Sprint(c.End)
	}
	sel := strings.Join(c.List, "/")
	named := [][]string{c.List}
	for _, a := range c.Also {
		sel += ";" + strings.Join(a, "/")
		named = append(named, a)
	}
	isNamed := func(p []string) bool {
		for _, n := range named {
			if strings.Join(n, "/") == strings.Join(p, "/") {
				return true
			}
		}
		return false
	}
	leadsToNamed := func(p []string) bool {
		for _, n := range named {
			if len(n) > len(p) && strings.Join(n[:len(p)], "/") == strings.Join(p, "/") {
				return true
			}
		}
		return false
	}
	query := c07QueryAs([]c07Param{{"fc.range", fmt.Sprintf("%s!%d-%s", sel, c.Start, endStr)}}, c.Raw)
	if c.End >= 0 && c.End < c.Start {
		o.Class("inverted window")
	}
	got, text, gerr, panicked := read(query)
	if panicked {
		return
	}
	nested := len(c.List) > 1
	sig := func(clause string) string {
		s := "query|fc.range|" + clause
		if nested {
			s += "|nested-list"
		}
		if len(c.Also) > 0 {
			s += "|several-lists"
		}
		return s
	}
	if gerr != nil {
		o.Failf(sig("error"), "read with %q failed: %v", query, gerr)
		return
	}
	// walk both trees: every list the selector names is windowed, everything else must be identical
	var cmp func(n *dm.Node, f, g dm.Tree, path []string, where string) bool
	cmp = func(n *dm.Node, f, g dm.Tree, path []string, where string) bool {
		for _, d := range n.DataChildren() {
			fv, fok := f[d.Name]
			gv, gok := g[d.Name]
			cp := append(append([]string{}, path...), d.Name)
			if d.Kind == "list" && isNamed(cp) {
				fl, _ := fv.([]interface{})
				gl, _ := gv.([]interface{})
				rows := len(fl)
				s := c.Start
				maxLen := rows - s
				if c.End >= 0 && c.End-s+1 < maxLen {
					maxLen = c.End - s + 1
				}
				minLen := rows - s
				if c.End >= 0 && c.End-s < minLen {
					minLen = c.End - s
				}
				if maxLen < 0 {
					maxLen = 0
				}
				if minLen < 0 {
					minLen = 0
				}
				if rows >= 3 && s > 0 && s < rows {
					o.NonTrivial()
				}
				if len(gl) > maxLen || len(gl) < minLen {
					o.Failf(sig("window-size"), "%s: %q over %d rows returned %d rows (allowed %d..%d)\n%s", where+"/"+d.Name, query, rows, len(gl), minLen, maxLen, text)
					return false
				}
				for i, ge := range gl {
					if leadsToNamed(cp) {
						// a list nested in this row is windowed as well: compare the row piecewise
						if !cmp(d, fl[s+i].(dm.Tree), ge.(dm.Tree), cp, fmt.Sprintf("%s/%s[%d]", where, d.Name, s+i)) {
							return false
						}
						continue
					}
					want := dm.Tree{d.Name: []interface{}{fl[s+i]}}
					have := dm.Tree{d.Name: []interface{}{ge}}
					if df := dm.Diff(n, want, have, dm.DiffOpts{IgnoreEmptyList: true}, where); len(df) > 0 {
						o.Failf(sig("window-rows"), "%q: row %d of the answer is not row %d of the full read:\n%s", query, i, s+i, joinMax(df, 3))
						return false
					}
				}
				continue
			}
			if fok != gok {
				if l, isL := fv.([]interface{}); isL && len(l) == 0 {
					continue
				}
				if l, isL := gv.([]interface{}); isL && len(l) == 0 {
					continue
				}
				o.Failf(sig("other-data"), "%q changed the presence of %s/%s, which is not the selected list\n%s", query, where, d.Name, text)
				return false
			}
			if !fok {
				continue
			}
			switch d.Kind {
			case "container":
				if !cmp(d, fv.(dm.Tree), gv.(dm.Tree), cp, where+"/"+d.Name) {
					return false
				}
			case "list":
				fl, gl := fv.([]interface{}), gv.([]interface{})
				if len(fl) != len(gl) {
					o.Failf(sig("other-list"), "%q also changed list %s/%s (%d rows -> %d), which the selector does not name\n%s", query, where, d.Name, len(fl), len(gl), text)
					return false
				}
				for i := range fl {
					if !cmp(d, fl[i].(dm.Tree), gl[i].(dm.Tree), cp, fmt.Sprintf("%s/%s[%d]", where, d.Name, i)) {
						return false
					}
				}
			default:
				if jsonOf(fv) != jsonOf(gv) {
					o.Failf(sig("other-data"), "%q changed %s/%s", query, where, d.Name)
					return false
				}
			}
		}
		return true
	}
	cmp(root, full, got, nil, "")
}

func min(a, b int) int {
	if a < b {
		return a
	}
	return b
}

var c07Range = hx.Register(&hx.Check[c07RangeCase]{
	Name: "c07-range-maxnode",
	Rule: "schemas with lists (also lists nested in lists and containers), 0-6 rows; fc.range=<path>[;<path of a list nested in it>...]!s-e with empty, open-ended, single-row and out-of-range windows: every named list must hold a contiguous run of the full read starting at row s whose length is within the two readings of the end bound, every other node unchanged; fc.max-node-count=N: no partial answer without an error, an error when N is below the number of top-level containers, no error when N covers every node; non-trivial = window strictly inside a list of >= 3 rows, or N below the node count",
	Gen: func(t *rapid.T) c07RangeCase {
		o := dm.DefaultGen()
		o.Types = []string{"int32", "string", "boolean"}
		o.KeyTypes = []string{"string", "int32"}
		o.Unions, o.Choices, o.ConfigFalse, o.Defaults, o.LeafLists = false, false, false, false, false
		m := dm.GenModule(t, o)
		root := m.Root()
		data := dm.GenTree(t, root, dm.TreeOpts{MaxEntries: 6, PresentPct: 90, EasyKeys: true, EasyStrings: true, NoEmptyStr: true})
		c := c07RangeCase{Module: m, Data: data, MaxNode: -1, End: -1}
		if rapid.IntRange(0, 3).Draw(t, "maxnode?") == 0 {
			c.MaxNode = rapid.IntRange(0, 30).Draw(t, "maxnode")
			return c
		}
		// selector: path of names to some list in the schema
		var lists [][]string
		var walk func(n *dm.Node, prefix []string)
		walk = func(n *dm.Node, prefix []string) {
			for _, d := range n.DataChildren() {
				p := append(append([]string{}, prefix...), d.Name)
				if d.Kind == "list" {
					lists = append(lists, p)
				}
				if d.Kind == "list" || d.Kind == "container" {
					walk(d, p)
				}
			}
		}
		walk(root, nil)
		if len(lists) == 0 {
			c.MaxNode = rapid.IntRange(0, 30).Draw(t, "maxnode")
			return c
		}
		c.List = lists[rapid.IntRange(0, len(lists)-1).Draw(t, "list")]
		// further alternatives: lists nested in the items of that list get the same window
		for _, l := range lists {
			if len(l) > len(c.List) && strings.Join(l[:len(c.List)], "/") == strings.Join(c.List, "/") && rapid.Bool().Draw(t, "also-nested") {
				c.Also = append(c.Also, l)
			}
		}
		c.Start = rapid.IntRange(0, 7).Draw(t, "start")
		if rapid.IntRange(0, 3).Draw(t, "open?") > 0 {
			c.End = c.Start + rapid.IntRange(0, 4).Draw(t, "len")
			if c.Start > 0 && rapid.IntRange(0, 5).Draw(t, "inverted?") == 0 {
				c.End = rapid.IntRange(0, c.Start-1).Draw(t, "end-before-start") // holds no row under either reading of the end bound
			}
		}
		c.Raw = rapid.Bool().Draw(t, "raw")
		return c
	},
	Run: c07RangeRun,
})
