package props

import (
	"fmt"
	"strings"

	"verif/harness/hx"
)

// C14: well-formed statements in places where they do not apply (the grammar accepts them, the resolver and the
// compiler have to reject them cleanly): every deviate kind x every property x every kind of target, augments into
// every kind of target, refines of every property on every kind of node, includes that form cycles.

const c14TargetsYang = `
 container co { leaf in { type string; } }
 list li { key k; leaf k { type string; } }
 leaf le { type string; }
 leaf-list ll { type string; }
 choice ch { case ca { leaf cl { type string; } } }
 anydata ad;
 anyxml ax;
 rpc rp { input { leaf i { type string; } } output { leaf o { type string; } } }
 notification no { leaf n { type string; } }
 leaf em { type empty; }
 leaf un { type union { type int8; type string; } }
`

var c14Targets = []string{"/co", "/li", "/le", "/ll", "/ch", "/ch/ca", "/ch/ca/cl", "/ad", "/ax", "/rp", "/rp/input", "/rp/output", "/rp/input/i", "/no", "/no/n", "/em", "/un", "/co/in", "/li/k", "/nothere", "/le/deeper", "co", ""}

var c14DevProps = []string{
	`config false;`, `config true;`, `mandatory true;`, `mandatory false;`, `max-elements 3;`, `min-elements 1;`, `max-elements unbounded;`,
	`must "a = 1";`, `units "u";`, `default "d";`, `default "d"; default "e";`, `unique "k";`, `unique "k in";`, `type int32;`, `type enumeration { enum a; }`,
	`units "u"; units "v";`, `config false; mandatory true; min-elements 1; must "x"; units "u"; default "d"; unique "k";`,
}

func c14MisplacedCases(yield func(c14Case) bool) {
	emit := func(kind, body string) bool {
		text := "module mp { namespace \"urn:mp\"; prefix mp;\n" + c14TargetsYang + body + "\n}\n"
		return yield(c14Case{Kind: kind, Text: text})
	}
	for _, tg := range c14Targets {
		for _, dk := range []string{"add", "replace", "delete"} {
			for _, p := range c14DevProps {
				if !emit("deviate-"+dk, fmt.Sprintf(" deviation %q { deviate %s { %s } }", tg, dk, p)) {
					return
				}
			}
			// two deviates of the same and of different kinds in one deviation
			if !emit("deviate-twice", fmt.Sprintf(" deviation %q { deviate %s { units \"u\"; } deviate %s { units \"v\"; } deviate delete { units \"v\"; } }", tg, dk, dk)) {
				return
			}
		}
		if !emit("deviate-not-supported", fmt.Sprintf(" deviation %q { deviate not-supported; }", tg)) {
			return
		}
		if !emit("deviate-not-supported-twice", fmt.Sprintf(" deviation %q { deviate not-supported; } deviation %q { deviate not-supported; }", tg, tg)) {
			return
		}
		for _, content := range []string{`leaf x { type string; }`, `container y { leaf x { type string; } }`, `case z { leaf x { type string; } }`, `action a { description "d"; }`,
			`notification n9 { leaf x { type string; } }`, `uses g;`, `leaf le { type string; }`, `leaf k { type string; }`, `choice c2 { leaf x { type string; } }`, `anydata q;`} {
			if !emit("augment", fmt.Sprintf(" grouping g { leaf gx { type string; } } augment %q { %s }", tg, content)) {
				return
			}
		}
	}
	// refine of every property on every kind of node reached through a uses
	nodes := []string{"co", "li", "le", "ll", "ch", "ch/ca", "ch/ca/cl", "ad", "co/in", "li/k", "nothere", "le/deeper", ""}
	for _, n := range nodes {
		for _, p := range []string{`config false;`, `mandatory true;`, `max-elements 3;`, `min-elements 1;`, `must "a";`, `default "d";`, `default "d"; default "e";`, `description "x";`, `reference "r";`,
			`if-feature nofeature;`, `config false; mandatory true; max-elements 2; min-elements 1; must "m"; default "d";`} {
			body := fmt.Sprintf(` grouping g2 { container co { leaf in { type string; } } list li { key k; leaf k { type string; } } leaf le { type string; } leaf-list ll { type string; }
  choice ch { case ca { leaf cl { type string; } } } anydata ad; }
 container holder { uses g2 { refine %q { %s } } }`, n, p)
			text := "module mr { namespace \"urn:mr\"; prefix mr;\n" + body + "\n}\n"
			if !yield(c14Case{Kind: "refine", Text: text}) {
				return
			}
		}
	}
	// submodules of the corpus loaded on their own, as they are and announced as modules
	loadCorpus()
	for _, f := range corpusFiles {
		if !strings.Contains(f.Text, "belongs-to") {
			continue
		}
		if !yield(c14Case{Kind: "submodule-alone", Dir: f.Dir, Text: f.Text, Base: f.Dir + "/" + f.Name}) {
			return
		}
		if !yield(c14Case{Kind: "submodule-as-module", Dir: f.Dir, Text: strings.Replace(f.Text, "submodule", "module", 1), Base: f.Dir + "/" + f.Name}) {
			return
		}
	}
	// include / import shapes
	sub := func(name, body string) string {
		return "submodule " + name + " { belongs-to mi { prefix mi; } " + body + " }"
	}
	for _, c := range []c14Case{
		{Kind: "include-self", Text: `module mi { namespace "urn:mi"; prefix mi; include s1; }`, Files: map[string]string{"s1.yang": sub("s1", "include s1; leaf x { type string; }")}},
		{Kind: "include-cycle", Text: `module mi { namespace "urn:mi"; prefix mi; include s1; }`, Files: map[string]string{"s1.yang": sub("s1", "include s2; leaf x { type string; }"), "s2.yang": sub("s2", "include s1; leaf y { type string; }")}},
		{Kind: "include-nested", Text: `module mi { namespace "urn:mi"; prefix mi; include s1; }`, Files: map[string]string{"s1.yang": sub("s1", "include s2; leaf x { type string; }"), "s2.yang": sub("s2", "leaf y { type string; }")}},
		{Kind: "include-diamond", Text: `module mi { namespace "urn:mi"; prefix mi; include s1; include s2; }`, Files: map[string]string{"s1.yang": sub("s1", "include s3; leaf x { type string; }"), "s2.yang": sub("s2", "include s3; leaf y { type string; }"), "s3.yang": sub("s3", "leaf z { type string; }")}},
		{Kind: "include-twice", Text: `module mi { namespace "urn:mi"; prefix mi; include s1; include s1; }`, Files: map[string]string{"s1.yang": sub("s1", "leaf x { type string; }")}},
		{Kind: "include-module", Text: `module mi { namespace "urn:mi"; prefix mi; include mi; }`, Files: map[string]string{"mi.yang": `module mi { namespace "urn:mi"; prefix mi; include mi; }`}},
		{Kind: "import-self", Text: `module mi { namespace "urn:mi"; prefix mi; import mi { prefix me; } leaf x { type me:t; } }`, Files: map[string]string{"mi.yang": `module mi { namespace "urn:mi"; prefix mi; import mi { prefix me; } }`}},
		{Kind: "belongs-to-other", Text: `module mi { namespace "urn:mi"; prefix mi; include s1; }`, Files: map[string]string{"s1.yang": "submodule s1 { belongs-to other { prefix o; } leaf x { type string; } }"}},
	} {
		if !yield(c) {
			return
		}
	}
}

var c14Misplaced = hx.Register(&hx.Check[c14Case]{
	Name:    "c14-misplaced",
	Journal: true,
	Rule:    "statements the grammar accepts in places where they do not apply: every deviate kind (add / replace / delete, also several in one deviation, not-supported once and twice) x 17 property sets x 23 targets (container, list, leaf, leaf-list, choice, case, anydata, anyxml, rpc, input, output, notification, leaves inside them, unknown and malformed paths); 10 kinds of augment content into each of those targets; refine of 11 property sets on 13 kinds of node; corpus submodules loaded on their own and announced as modules; includes that name themselves, form cycles, nest, form a diamond, repeat, name a module; a self import; enumerated completely; every case is non-trivial",
	Run: func(c c14Case, o *hx.Obs) {
		o.Class("kind=%s", c.Kind)
		o.NonTrivial()
		runLoad(c, o)
	},
})
