package props

// C05, "a rejected write returns an error and stores nothing", where the rejected value is not alone: the leaf lies in a
// case of a choice whose other case holds data, or it is the key of a list entry the write would create.

import (
	"fmt"
	"strings"

	"github.com/freeconf/yang/node"
	"github.com/freeconf/yang/nodeutil"
	"pgregory.net/rapid"

	"verif/harness/dm"
	"verif/harness/hx"
)

func c05RejModule() *dm.Module {
	i32 := &dm.Type{Base: "int32", Range: "1..10"}
	s3 := &dm.Type{Base: "string", Length: "1..3"}
	str := &dm.Type{Base: "string"}
	return &dm.Module{Name: "gm", Top: []*dm.Node{{Kind: "container", Name: "c", Children: []*dm.Node{
		{Kind: "choice", Name: "ch", Children: []*dm.Node{
			{Kind: "case", Name: "a", Children: []*dm.Node{{Kind: "leaf", Name: "x", Type: i32}, {Kind: "leaf", Name: "xs", Type: s3}}},
			{Kind: "case", Name: "b", Children: []*dm.Node{{Kind: "leaf", Name: "y", Type: str}, {Kind: "container", Name: "yc", Children: []*dm.Node{{Kind: "leaf", Name: "v", Type: str}}}}},
		}},
		{Kind: "list", Name: "l", Keys: []string{"k"}, Children: []*dm.Node{{Kind: "leaf", Name: "k", Type: i32}, {Kind: "leaf", Name: "v", Type: str}}},
		{Kind: "list", Name: "l2", Keys: []string{"k1", "k2"}, Children: []*dm.Node{{Kind: "leaf", Name: "k1", Type: s3}, {Kind: "leaf", Name: "k2", Type: &dm.Type{Base: "int8", Range: "0..5"}}, {Kind: "leaf", Name: "v", Type: str}}},
		{Kind: "leaf", Name: "other", Type: str},
	}}}}
}

type c05RejCase struct {
	// What: case-leaf-x | case-leaf-xs | key-l | key-l2-first | key-l2-second
	What  string `json:"what"`
	Value string `json:"value"`
	Valid bool   `json:"valid"`
	Path  string `json:"path"` // upsert-json | upsert-rs | upsert-xml | insert-json | setvalue (case leaves only)
	Store string `json:"store"`
}

var c05Rejected = hx.Register(&hx.Check[c05RejCase]{
	Name: "c05-rejected-write-leaves-no-trace",
	Rule: "a container whose choice holds data of case b (a leaf and a container) and whose lists hold two entries each; one write of a value inside or outside its restriction to a leaf of case a (int32 range 1..10, string length 1..3), or of a new list entry whose key (single int32 key; either component of a string,int8 key) is inside or outside its restriction; through upsert / insert from JSON, the reference node or XML, or SetValue; on reference, map-backed Reflect and Node stores; an outside value is an error and the store is exactly what it was (the other case keeps its data, no entry appears), an inside value is stored; non-trivial = the value is outside",
	Gen: func(t *rapid.T) c05RejCase {
		c := c05RejCase{What: rapid.SampledFrom([]string{"case-leaf-x", "case-leaf-xs", "key-l", "key-l2-first", "key-l2-second"}).Draw(t, "what"),
			Valid: rapid.IntRange(0, 2).Draw(t, "valid") == 0, Store: rapid.SampledFrom([]string{"rs", "reflect-map", "node-map", "reflect-slice", "node-slice"}).Draw(t, "store")}
		paths := []string{"upsert-json", "upsert-rs", "upsert-xml"}
		if strings.HasPrefix(c.What, "case-leaf") {
			paths = append(paths, "setvalue", "insert-json") // (an insert beside a list that is there is a conflict whatever the key)
		}
		c.Path = rapid.SampledFrom(paths).Draw(t, "path")
		switch c.What {
		case "case-leaf-x", "key-l":
			if c.Valid {
				c.Value = rapid.SampledFrom([]string{"1", "5", "10"}).Draw(t, "value")
			} else {
				c.Value = rapid.SampledFrom([]string{"0", "11", "-1", "2147483647"}).Draw(t, "value")
			}
		case "case-leaf-xs", "key-l2-first":
			if c.Valid {
				c.Value = rapid.SampledFrom([]string{"a", "abc"}).Draw(t, "value")
			} else {
				c.Value = rapid.SampledFrom([]string{"abcd", "toolong"}).Draw(t, "value")
			}
		default:
			if c.Valid {
				c.Value = rapid.SampledFrom([]string{"0", "5"}).Draw(t, "value")
			} else {
				c.Value = rapid.SampledFrom([]string{"6", "-1", "127"}).Draw(t, "value")
			}
		}
		return c
	},
	Run: func(c c05RejCase, o *hx.Obs) {
		m := c05RejModule()
		root := m.Root()
		mm, err := loadDM(m)
		if err != nil {
			o.Failf("harness|schema-rejected", "%v\n%s", err, m.Yang())
			return
		}
		o.Class("what=%s", c.What)
		o.Class("path=%s", c.Path)
		o.Class("store=%s", c.Store)
		o.Class("valid=%v", c.Valid)
		if !c.Valid {
			o.NonTrivial()
		}
		if c.Path == "insert-json" && !strings.HasPrefix(c.What, "case-leaf") {
			return
		}
		initial := dm.Tree{"c": dm.Tree{"y": "yv", "yc": dm.Tree{"v": "deep"}, "other": "keep",
			"l":  []interface{}{dm.Tree{"k": "2", "v": "two"}, dm.Tree{"k": "3", "v": "three"}},
			"l2": []interface{}{dm.Tree{"k1": "aa", "k2": "1", "v": "one"}, dm.Tree{"k1": "bb", "k2": "2", "v": "two"}}}}
		store, serr := dm.NewStore(c.Store, root, initial)
		if serr != nil {
			o.Failf("harness|store", "%v", serr)
			return
		}
		var content dm.Tree
		switch c.What {
		case "case-leaf-x":
			content = dm.Tree{"x": c.Value}
		case "case-leaf-xs":
			content = dm.Tree{"xs": c.Value}
		case "key-l":
			content = dm.Tree{"l": []interface{}{dm.Tree{"k": c.Value, "v": "new"}}}
		case "key-l2-first":
			content = dm.Tree{"l2": []interface{}{dm.Tree{"k1": c.Value, "k2": "3", "v": "new"}}}
		default:
			content = dm.Tree{"l2": []interface{}{dm.Tree{"k1": "cc", "k2": c.Value, "v": "new"}}}
		}
		payload := dm.Tree{"c": content}
		want := dm.CloneTree(initial)
		if c.Valid {
			if merr := dm.MergeContent(root, want, payload, dm.Upsert, false, ""); merr != nil {
				o.Failf("harness|model", "%v", merr)
				return
			}
		}
		b := node.NewBrowser(mm, store.Node())
		var werr error
		if o.Guard("write", func() {
			switch c.Path {
			case "setvalue":
				leaf := "x"
				if c.What == "case-leaf-xs" {
					leaf = "xs"
				}
				sel, ferr := b.Root().Find("c/" + leaf)
				if ferr != nil || sel == nil {
					werr = fmt.Errorf("harness: Find(c/%s): %v", leaf, ferr)
					return
				}
				if leaf == "x" {
					var n int64
					fmt.Sscan(c.Value, &n)
					werr = sel.SetValue(n)
				} else {
					werr = sel.SetValue(c.Value)
				}
			case "upsert-json", "insert-json":
				src, e := nodeutil.ReadJSON(dm.ToJSON("", root, payload, dm.JSONStyle{}))
				if e != nil {
					werr = fmt.Errorf("harness: %v", e)
					return
				}
				if c.Path == "insert-json" {
					// insert at the level of the new node: the container is there
					cs, ferr := b.Root().Find("c")
					if ferr != nil || cs == nil {
						werr = fmt.Errorf("harness: Find(c): %v", ferr)
						return
					}
					in, e2 := nodeutil.ReadJSON(dm.ToJSON("", root.Child("c"), content, dm.JSONStyle{}))
					if e2 != nil {
						werr = fmt.Errorf("harness: %v", e2)
						return
					}
					werr = cs.InsertFrom(in)
				} else {
					werr = b.Root().UpsertFrom(src)
				}
			case "upsert-rs":
				werr = b.Root().UpsertFrom(dm.NewRS(root, dm.CloneTree(payload)))
			case "upsert-xml":
				src, e := nodeutil.ReadXMLDoc(strings.NewReader(renderX(&dm.XNode{Name: "gm", Children: dm.TreeToXML(root, payload)})))
				if e != nil {
					werr = fmt.Errorf("harness: %v", e)
					return
				}
				werr = b.Root().UpsertFrom(src)
			}
		}) {
			return
		}
		if werr != nil && strings.HasPrefix(werr.Error(), "harness:") {
			o.Failf("harness|write", "%v", werr)
			return
		}
		sig := func(clause string) string { return "rejected-write|" + c.What + "|" + clause + "|" + c.Path }
		got, snapErr := store.Snapshot()
		if snapErr != nil {
			o.Failf(sig("snapshot"), "backing data not conforming after the write: %v", snapErr)
			return
		}
		desc := fmt.Sprintf("%s of %s=%q (%s store)", c.Path, c.What, c.Value, c.Store)
		if c.Valid && werr != nil {
			if c.Path == "insert-json" && strings.HasPrefix(c.What, "case-leaf") {
				return // (whether an insert may select another case is not what is looked at here)
			}
			o.Failf(sig("rejected-inside"), "%s: a value inside the restriction was rejected: %v", desc, werr)
			return
		}
		if !c.Valid && werr == nil {
			o.Failf(sig("accepted-outside"), "%s: a value outside the restriction was accepted: %s", desc, jsonOf(got))
			return
		}
		if c.Valid && c.Path == "insert-json" && strings.HasPrefix(c.What, "case-leaf") {
			return
		}
		opts := dm.DiffOpts{ListsAsSets: !store.KeepsOrder(), IgnoreEmptyList: true}
		if d := dm.Diff(root, want, got, opts, ""); len(d) > 0 {
			clause := "stored-on-reject"
			if c.Valid {
				clause = "not-stored"
			}
			o.Failf(sig(clause), "%s (error: %v): the store differs from what it has to hold:\n%s\n%s", desc, werr, joinMax(d, 4), jsonOf(got))
		}
	},
})
