package props

import (
	"encoding/json"
	"fmt"
	"hash/fnv"
	"os"
	"path/filepath"
	"runtime/debug"
	"testing"

	"verif/harness/dm"
	"verif/harness/hx"
)

// Native fuzz targets (thorough tier). Each target decodes the fuzzer's bytes into the case type of a
// registered check and runs that check, so the semantic oracle is inside the target and a crasher can
// be replayed through ./check <ID> --replay after the driver has converted it into a case file.

// fuzzFail turns unlisted failures into a fuzz crash and saves the case as a replay file, so the
// finding can be re-run with ./check <ID> --replay without the fuzzing engine.
func fuzzFail(t *testing.T, prop, check string, cs interface{}, fails []hx.Failure) {
	u := hx.Unlisted(prop, fails)
	if len(u) == 0 {
		return
	}
	raw, _ := json.Marshal(cs)
	rec, _ := json.Marshal(map[string]interface{}{"property": prop, "check": check, "fails": u, "case": json.RawMessage(raw)})
	dir := filepath.Join(hx.Root(), "replays", prop)
	os.MkdirAll(dir, 0o755)
	h := fnv.New64a()
	h.Write(raw)
	os.WriteFile(filepath.Join(dir, fmt.Sprintf("fuzz-%016x.json", h.Sum64())), rec, 0o644)
	t.Fatalf("%s: %s", u[0].Sig, u[0].Msg)
}

func FuzzC14Load(f *testing.F) {
	debug.SetMaxStack(48 << 20)
	loadCorpus()
	for _, cf := range corpusFiles {
		if len(cf.Text) < 3000 {
			f.Add(cf.Text)
		}
	}
	for _, sh := range c14Shapes {
		f.Add(c14Build(c14StructCase{sh, 3, 1}).Text)
	}
	f.Fuzz(func(t *testing.T, text string) {
		c := c14Case{Kind: "fuzz", Dir: "yang", Text: text}
		fuzzFail(t, "C14", c14Mutate.Name, c, hx.RunOnce(c14Mutate, c))
	})
}

// a fixed, rich schema for the request fuzzers
func fuzzModule() *dm.Module {
	leaf := func(n, b string) *dm.Node { return &dm.Node{Kind: "leaf", Name: n, Type: &dm.Type{Base: b}} }
	en := &dm.Type{Base: "enumeration", Enums: []dm.EnumDef{{"red", 1}, {"green", 3}}}
	return &dm.Module{Name: "gm", Identities: []dm.Identity{{"idbase", ""}, {"id-a", "idbase"}},
		Top: []*dm.Node{
			{Kind: "container", Name: "c", Children: []*dm.Node{leaf("s", "string"), leaf("i", "int32"), leaf("u", "uint64"), leaf("d", "decimal64"), leaf("b", "boolean"), {Kind: "leaf", Name: "e", Type: en},
				{Kind: "leaf", Name: "bits", Type: &dm.Type{Base: "bits", Bits: []dm.BitDef{{"x", 0}, {"y", 2}}}}, {Kind: "leaf", Name: "id", Type: &dm.Type{Base: "identityref", IdBase: "idbase", Idents: []string{"id-a"}}},
				leaf("bin", "binary"), leaf("em", "empty"), {Kind: "leaf-list", Name: "ll", Type: &dm.Type{Base: "int8"}},
				{Kind: "choice", Name: "ch", Children: []*dm.Node{{Kind: "case", Name: "a", Children: []*dm.Node{leaf("ca", "string")}}, {Kind: "case", Name: "b", Children: []*dm.Node{{Kind: "container", Name: "cb", Children: []*dm.Node{leaf("x", "string")}}}}}},
			}},
			{Kind: "list", Name: "l", Keys: []string{"k"}, Children: []*dm.Node{leaf("k", "string"), leaf("v", "int32"),
				{Kind: "list", Name: "in", Keys: []string{"a", "b"}, Children: []*dm.Node{leaf("a", "int32"), leaf("b", "string"), leaf("w", "string")}}}},
			{Kind: "list", Name: "nk", Children: []*dm.Node{leaf("v", "string")}},
		}}
}

func fuzzData() dm.Tree {
	return dm.Tree{"c": dm.Tree{"s": "str", "i": "5", "ll": []interface{}{"1", "2"}, "ca": "x"},
		"l": []interface{}{dm.Tree{"k": "a", "v": "1", "in": []interface{}{dm.Tree{"a": "1", "b": "x", "w": "w"}}}, dm.Tree{"k": "b"}}}
}

func FuzzC13JSON(f *testing.F) {
	debug.SetMaxStack(48 << 20)
	m, data := fuzzModule(), fuzzData()
	for _, s := range []string{`{}`, `{"c":{"s":"a","i":1,"ll":[1,2],"em":[null]}}`, `{"l":[{"k":"a","v":2,"in":[{"a":1,"b":"x"}]}]}`, `{"c":{"cb":{"x":"y"}}}`,
		`{"l":"scalar"}`, `{"c":[1]}`, `{"l":[1]}`, `{"l":[{"v":1}]}`, `{"c":{"ll":"x"}}`, `{"c":{"i":1e400}}`, `{"nk":[{"v":"a"},{"v":"b"}]}`, `{"gm:c":{"gm:s":"q"}}`, `null`, `[]`, `{"c":null}`} {
		f.Add(s, uint8(0))
	}
	f.Fuzz(func(t *testing.T, text string, sel uint8) {
		c := c13Case{Module: m, Data: data, Kind: "json", Text: text, Op: []string{"upsert", "insert", "update"}[int(sel)%3], Store: []string{"rs", "reflect-map", "node-map"}[int(sel/3)%3]}
		fuzzFail(t, "C13", c13Docs.Name, c, hx.RunOnce(c13Docs, c))
	})
}

func FuzzC13XML(f *testing.F) {
	debug.SetMaxStack(48 << 20)
	m, data := fuzzModule(), fuzzData()
	for _, s := range []string{`<gm xmlns="urn:gm"/>`, `<gm xmlns="urn:gm"><c><s>a</s><i>1</i><ll>1</ll><ll>2</ll><em/></c></gm>`, `<gm><l><k>a</k><v>2</v><in><a>1</a><b>x</b></in></l></gm>`,
		`<gm><c>text</c></gm>`, `<gm><l>scalar</l></gm>`, `<gm><c><s><x/></s></c></gm>`, `<gm><l><v>1</v></l></gm>`, `<a><b></a>`, `<?xml version="1.0"?><gm/>`, `<gm xmlns="urn:other"><c/></gm>`} {
		f.Add(s, uint8(0))
	}
	f.Fuzz(func(t *testing.T, text string, sel uint8) {
		c := c13Case{Module: m, Data: data, Kind: "xml", Text: text, Op: []string{"upsert", "insert", "update"}[int(sel)%3], Store: []string{"rs", "reflect-map", "node-map"}[int(sel/3)%3]}
		fuzzFail(t, "C13", c13Docs.Name, c, hx.RunOnce(c13Docs, c))
	})
}

func FuzzC13Find(f *testing.F) {
	debug.SetMaxStack(48 << 20)
	m, data := fuzzModule(), fuzzData()
	for _, s := range []string{"", "c", "c/s", "l=a", "l=a/in=1,x", "l=a/in=1,x/w", "l", "nk", "c=1", "c/s/x", "l=a/in=1", "l=a/in=1,x,y", "l=%zz", "../c", "gm:c/gm:s", "c?depth=1", "l?fc.range=l!0-1",
		"l?where=v%3D1", "c?fields=s;i", "c?fc.xfields=a/b(c;d)", "?content=config", "?depth=x", "l=a?with-defaults=trim", "?filter=a%3D1", "c/", "//", "=", "l=", "l=,", "c/cb/x", "c/ca"} {
		f.Add(s, uint8(0))
	}
	f.Fuzz(func(t *testing.T, path string, sel uint8) {
		c := c13Case{Module: m, Data: data, Kind: "find", Text: path, Store: []string{"rs", "reflect-map", "node-map"}[int(sel)%3]}
		fuzzFail(t, "C13", c13Reqs.Name, c, hx.RunOnce(c13Reqs, c))
	})
}

func FuzzC13Where(f *testing.F) {
	debug.SetMaxStack(48 << 20)
	m, data := fuzzModule(), fuzzData()
	for _, s := range []string{"v=1", "v>1", "k='a'", "v!=1", "v<=2", "in/a=1", "k", "v=", "=1", "v='", "v=1.5", "a/b/c=1", "v = 1", "gm:v=1", "v>99999999999999999999", "k<'b'", "nothere=1"} {
		f.Add(s)
	}
	f.Fuzz(func(t *testing.T, expr string) {
		c := c13Case{Module: m, Data: data, Kind: "xpath", Text: expr, Leaf: "l", Store: "rs"}
		fuzzFail(t, "C13", c13Reqs.Name, c, hx.RunOnce(c13Reqs, c))
	})
}
