package props

import (
	"encoding/json"
	"fmt"
	"net/url"
	"runtime/debug"
	"strings"
	"testing"

	"github.com/freeconf/yang/meta"
	"github.com/freeconf/yang/node"
	"github.com/freeconf/yang/nodeutil"
	"pgregory.net/rapid"

	"verif/harness/dm"
	"verif/harness/hx"
)

// ---- C13: no request content can crash the library ------------------------------------------

type c13Case struct {
	Module  *dm.Module `json:"module"`
	Data    dm.Tree    `json:"data"` // stored before the request
	Kind    string     `json:"kind"` // json | xml | find | query | xpath | setvalue
	Text    string     `json:"text"` // the request content
	Entry   dm.Path    `json:"entry,omitempty"`
	Op      string     `json:"op,omitempty"`      // upsert | insert | update (documents)
	Expect  string     `json:"expect,omitempty"`  // "error": the mutation is one of the shape mismatches that must be reported
	Mutation string    `json:"mutation,omitempty"`
	Store   string     `json:"store"`
	Value   string     `json:"value,omitempty"` // setvalue: description of the Go value
	Leaf    string     `json:"leaf,omitempty"`
	// Via (documents): query parameters the target selection was narrowed with before the edit is made through it
	Via string `json:"via,omitempty"`
}

func c13GoValue(desc string) interface{} {
	switch desc {
	case "nil":
		return nil
	case "int":
		return 42
	case "negint":
		return -42
	case "bigint":
		return int64(1) << 62
	case "uint64max":
		return ^uint64(0)
	case "float":
		return 3.75
	case "nan":
		var z float64
		return z / z
	case "string":
		return "hello"
	case "empty-string":
		return ""
	case "numeric-string":
		return "12"
	case "bool":
		return true
	case "bytes":
		return []byte{0, 1, 2}
	case "strings":
		return []string{"a", "b"}
	case "empty-slice":
		return []interface{}{}
	case "mixed-slice":
		return []interface{}{1, "a", nil, 2.5, true}
	case "nested-slice":
		return []interface{}{[]interface{}{1}}
	case "map":
		return map[string]interface{}{"a": 1}
	case "struct":
		return struct{ A int }{1}
	case "ptr":
		x := 5
		return &x
	case "nilptr":
		var p *int
		return p
	case "chan":
		return make(chan int)
	case "func":
		return func() {}
	case "json-number":
		return json.Number("12")
	case "bad-json-number":
		return json.Number("12abc")
	case "ints":
		return []int{1, 2, 3}
	case "floats":
		return []float64{1.5, 2}
	case "error":
		return fmt.Errorf("an error value")
	}
	return desc
}

var c13GoValues = []string{"nil", "int", "negint", "bigint", "uint64max", "float", "nan", "string", "empty-string", "numeric-string", "bool", "bytes", "strings", "empty-slice", "mixed-slice", "nested-slice", "map", "struct", "ptr", "nilptr", "chan", "func", "json-number", "bad-json-number", "ints", "floats", "error", "delete-the-leaf"}

func c13Run(c c13Case, o *hx.Obs) {
	root := c.Module.Root()
	schemaClasses(o, c.Module)
	mm, err := loadDM(c.Module)
	if err != nil {
		o.Failf("harness|schema-rejected", "%v", err)
		return
	}
	store, serr := dm.NewStore(c.Store, root, c.Data)
	if serr != nil {
		o.Failf("harness|store", "%v", serr)
		return
	}
	o.Class("kind=%s", c.Kind)
	if c.Kind == "json" || c.Kind == "xml" {
		en, _, _ := dm.Resolve(root, c.Data, c.Entry)
		switch {
		case len(c.Entry) == 0:
			o.Class("document at the root")
		case en != nil && en.Kind == "list" && c.Entry[len(c.Entry)-1].Key == nil:
			o.Class("document at a list")
		case en != nil:
			o.Class("document at a %s", map[bool]string{true: "list entry", false: "container"}[en.Kind == "list"])
		}
	}
	if c.Mutation != "" {
		o.Class("mutation=%s", c.Mutation)
	}
	if c.Via != "" {
		o.Class("edit through a selection narrowed by %s", strings.SplitN(c.Via, "=", 2)[0])
	}
	o.NonTrivial()
	b := node.NewBrowser(mm, store.Node())
	var rerr error
	var gotSel bool
	panicked := o.Guard(c.Kind+" request", func() {
		sel := b.Root()
		if len(c.Entry) > 0 {
			var ferr error
			sel, ferr = sel.Find(findPath(c.Entry))
			if ferr != nil || sel == nil {
				rerr = fmt.Errorf("harness: entry: %v", ferr)
				return
			}
		}
		switch c.Kind {
		case "json", "xml":
			var src node.Node
			if c.Kind == "json" {
				src, rerr = nodeutil.ReadJSON(c.Text)
			} else {
				var x *nodeutil.XmlNode
				x, rerr = nodeutil.ReadXMLDoc(strings.NewReader(c.Text))
				if x != nil {
					src = x
				}
			}
			if rerr != nil || src == nil {
				return
			}
			if c.Via != "" {
				if sel, rerr = sel.Constrain(c.Via); rerr != nil || sel == nil {
					return
				}
			}
			switch c.Op {
			case "insert":
				rerr = sel.InsertFrom(src)
			case "update":
				rerr = sel.UpdateFrom(src)
			default:
				rerr = sel.UpsertFrom(src)
			}
		case "find":
			var s2 *node.Selection
			s2, rerr = sel.Find(c.Text)
			gotSel = s2 != nil
			if s2 != nil && rerr == nil && (meta.IsAction(s2.Meta()) || meta.IsNotification(s2.Meta())) {
				o.Class("found=operation")
				if meta.IsAction(s2.Meta()) {
					// the request body of an operation is request content as well
					var in node.Node
					if c.Value != "" {
						if in, rerr = nodeutil.ReadJSON(c.Value); rerr != nil {
							return
						}
					}
					_, rerr = s2.Action(in)
				}
			} else if s2 != nil && rerr == nil {
				// whatever was found must be usable
				if _, isLeaf := interface{}(s2.Meta()).(interface{ Type() interface{} }); !isLeaf {
					_, rerr = nodeutil.WriteJSON(s2)
				}
			}
		case "query":
			var s2 *node.Selection
			s2, rerr = sel.Find("?" + c.Text)
			if s2 != nil && rerr == nil {
				_, rerr = nodeutil.WriteJSON(s2)
			}
			if rerr == nil {
				var s3 *node.Selection
				if s3, rerr = sel.Constrain(c.Text); rerr == nil && s3 != nil {
					_, rerr = nodeutil.WriteJSON(s3)
				}
			}
		case "xpath":
			var s2 *node.Selection
			s2, rerr = sel.Find(c.Leaf + "?where=" + url.QueryEscape(c.Text))
			if s2 != nil && rerr == nil {
				_, rerr = nodeutil.WriteJSON(s2)
			}
			if s3, e3 := sel.Find("?filter=" + url.QueryEscape(c.Text)); e3 == nil && s3 != nil {
				nodeutil.WriteJSON(s3)
			}
		case "getvalue":
			var v interface{}
			v, rerr = sel.GetValue(c.Text)
			_ = v
		case "setvalue":
			s2, ferr := sel.Find(c.Leaf)
			if ferr != nil || s2 == nil {
				rerr = fmt.Errorf("harness: leaf: %v", ferr)
				return
			}
			if c.Value == "delete-the-leaf" {
				rerr = s2.Delete() // a selection on a leaf can be asked to delete as any other
			} else {
				rerr = s2.SetValue(c13GoValue(c.Value))
			}
		}
	})
	if panicked {
		return
	}
	if rerr != nil && strings.HasPrefix(rerr.Error(), "harness:") {
		return
	}
	if rerr != nil {
		o.Class("result=error")
	} else {
		o.Class("result=ok")
	}
	if c.Expect == "error" && rerr == nil {
		o.Failf("accepted-mismatch|"+c.Mutation, "%s request with a %s was accepted without an error (selection=%v)\n%s", c.Kind, c.Mutation, gotSel, c.Text)
		return
	}
	// data stored before the request remains readable
	var text string
	var werr error
	if o.Guard("read after the request", func() { text, werr = nodeutil.WriteJSON(node.NewBrowser(mm, store.Node()).Root()) }) {
		return
	}
	if werr != nil && rerr != nil {
		// the rejected request must not have made the stored data unreadable
		o.Failf("corrupted|unreadable|"+c.Kind, "after the rejected %s request (%v) the data cannot be read any more: %v", c.Kind, rerr, werr)
		return
	}
	_ = text
	if rerr != nil && (c.Kind == "find" || c.Kind == "query" || c.Kind == "xpath" || c.Kind == "getvalue") {
		after, e := store.Snapshot()
		if e != nil {
			o.Failf("corrupted|snapshot|"+c.Kind, "%v", e)
			return
		}
		if d := dm.Diff(root, c.Data, after, dm.DiffOpts{ListsAsSets: !store.KeepsOrder(), IgnoreEmptyList: true}, ""); len(d) > 0 {
			o.Failf("corrupted|modified|"+c.Kind, "a %s request modified the data:\n%s", c.Kind, joinMax(d, 3))
		}
	}
}

// ---- JSON mutations -----------------------------------------------------------------------

type jsonPos struct {
	parent interface{} // map[string]interface{} or []interface{}
	key    string
	idx    int
	schema *dm.Node // schema node of the value at this position (nil for list entries: schema is the list)
	entry  bool
}

func collectJSON(n *dm.Node, v map[string]interface{}, out *[]jsonPos) {
	for _, d := range n.DataChildren() {
		cv, ok := v[d.Name]
		if !ok {
			continue
		}
		*out = append(*out, jsonPos{parent: v, key: d.Name, schema: d})
		switch d.Kind {
		case "container":
			if m, ok := cv.(map[string]interface{}); ok {
				collectJSON(d, m, out)
			}
		case "list":
			if l, ok := cv.([]interface{}); ok {
				for i, e := range l {
					*out = append(*out, jsonPos{parent: l, idx: i, schema: d, entry: true})
					if m, ok := e.(map[string]interface{}); ok {
						collectJSON(d, m, out)
					}
				}
			}
		}
	}
}

func (p jsonPos) set(v interface{}) {
	switch x := p.parent.(type) {
	case map[string]interface{}:
		x[p.key] = v
	case []interface{}:
		x[p.idx] = v
	}
}

func (p jsonPos) get() interface{} {
	switch x := p.parent.(type) {
	case map[string]interface{}:
		return x[p.key]
	case []interface{}:
		return x[p.idx]
	}
	return nil
}

// treeToGeneric renders a tree as the generic JSON value the library's reader would decode.
func treeToGeneric(mod *dm.Module, n *dm.Node, t dm.Tree) map[string]interface{} {
	var v map[string]interface{}
	json.Unmarshal([]byte(dm.ToJSON("", n, t, dm.JSONStyle{Num64AsString: true})), &v)
	if v == nil {
		v = map[string]interface{}{}
	}
	return v
}

func c13GenDoc0(t *rapid.T) c13Case {
	o := dm.DefaultGen()
	o.Types = []string{"int8", "int32", "uint64", "decimal64", "string", "boolean", "enumeration", "bits", "identityref", "empty"}
	o.KeyTypes = []string{"string", "int32"}
	o.ConfigFalse = false
	store := rapid.SampledFrom([]string{"rs", "rs", "reflect-map", "node-map"}).Draw(t, "store")
	if store != "rs" {
		o.CompoundKeys, o.Unions = false, false
		o.Types = []string{"int8", "int32", "uint64", "decimal64", "string", "boolean"}
	}
	m := dm.GenModule(t, o)
	root := m.Root()
	to := dm.TreeOpts{MaxEntries: 3, EasyKeys: true, EasyStrings: true, PresentPct: 75, NoEmptyStr: true}
	u := dm.GenTree(t, root, to)
	c := c13Case{Module: m, Data: dm.Subsample(t, root, u, 70, 0, to), Store: store, Op: rapid.SampledFrom([]string{"upsert", "upsert", "insert", "update"}).Draw(t, "op")}
	req := dm.Subsample(t, root, u, 70, 40, to)
	if rapid.Bool().Draw(t, "xml") {
		c.Kind = "xml"
		doc := &dm.XNode{Name: m.Name, Children: dm.TreeToXML(root, req)}
		// collect elements
		var all []*dm.XNode
		var walk func(x *dm.XNode)
		walk = func(x *dm.XNode) {
			for _, ch := range x.Children {
				all = append(all, ch)
				walk(ch)
			}
		}
		walk(doc)
		// the elements that stand for containers and list entries, with their schema nodes
		type holderEl struct {
			x *dm.XNode
			d *dm.Node
		}
		var holders []holderEl
		var pair func(x *dm.XNode, n *dm.Node)
		pair = func(x *dm.XNode, n *dm.Node) {
			for _, ch := range x.Children {
				if d := n.Child(ch.Name); d != nil && (d.Kind == "container" || d.Kind == "list") {
					holders = append(holders, holderEl{ch, d})
					pair(ch, d)
				}
			}
		}
		pair(doc, root)
		nm := rapid.IntRange(1, 2).Draw(t, "nmut")
		for i := 0; i < nm && len(all) > 0; i++ {
			x := all[rapid.IntRange(0, len(all)-1).Draw(t, "pos")]
			mut := rapid.SampledFrom([]string{"text-in-container", "child-in-leaf", "rename", "duplicate", "drop-children", "garbage-text", "nest-self", "scalar-for-holder", "entry-without-key", "foreign-namespace"}).Draw(t, "mut")
			c.Mutation = "xml-" + mut
			if i > 0 {
				c.Expect = "" // combined mutations: only totality is asserted
			}
			switch mut {
			case "foreign-namespace":
				// an element (and what it holds) in a namespace that is not the module's
				x.NS = rapid.SampledFrom([]string{"urn:other", "urn:gm2", "gm", " "}).Draw(t, "ns")
			case "scalar-for-holder":
				// a scalar where a container or a list is declared
				if len(holders) == 0 {
					c.Mutation = "xml-none"
					continue
				}
				h := holders[rapid.IntRange(0, len(holders)-1).Draw(t, "holder")]
				h.x.Children, h.x.Text = nil, "5"
				if i == 0 {
					c.Expect = "error"
				}
			case "entry-without-key":
				var entries []holderEl
				for _, h := range holders {
					if h.d.Kind == "list" && len(h.d.Keys) > 0 {
						entries = append(entries, h)
					}
				}
				if len(entries) == 0 {
					c.Mutation = "xml-none"
					continue
				}
				h := entries[rapid.IntRange(0, len(entries)-1).Draw(t, "entry")]
				kn := h.d.Keys[rapid.IntRange(0, len(h.d.Keys)-1).Draw(t, "key")]
				var kept []*dm.XNode
				for _, ch := range h.x.Children {
					if ch.Name != kn {
						kept = append(kept, ch)
					}
				}
				h.x.Children = kept
				if i == 0 {
					c.Expect = "error"
				}
			case "text-in-container":
				x.Text = "stray text"
			case "child-in-leaf":
				x.Children = append(x.Children, &dm.XNode{Name: "bogus", Text: "1"})
			case "rename":
				x.Name = rapid.SampledFrom([]string{"nothere", "x", m.Name, "c1", "l1", "f1"}).Draw(t, "newname")
			case "duplicate":
				x.Children = append(x.Children, x.Children...)
			case "drop-children":
				x.Children = nil
			case "garbage-text":
				x.Text = rapid.SampledFrom([]string{"", " ", "notanumber", "99999999999999999999999", "-", "true false", "\x00"}).Draw(t, "garbage")
			case "nest-self":
				cp := *x
				x.Children = append(x.Children, &cp)
			}
		}
		c.Text = renderX(doc)
		if rapid.IntRange(0, 4).Draw(t, "truncate") == 0 {
			c.Text = c.Text[:rapid.IntRange(0, len(c.Text)).Draw(t, "cut")]
			c.Mutation, c.Expect = "xml-truncate", ""
		}
		return c
	}
	c.Kind = "json"
	v := treeToGeneric(m, root, req)
	var pos []jsonPos
	collectJSON(root, v, &pos)
	// half of the documents are aimed at a container, a list or a list entry instead of the root
	if paths := dm.AllPaths(root, c.Data, nil); len(paths) > 0 && rapid.Bool().Draw(t, "at-entry") {
		c.Entry = paths[rapid.IntRange(0, len(paths)-1).Draw(t, "entry")]
		en, _, _ := dm.Resolve(root, c.Data, c.Entry)
		_, sv, ok := dm.Resolve(root, req, c.Entry)
		pos = nil
		if en.Kind == "list" && c.Entry[len(c.Entry)-1].Key == nil {
			l, _ := sv.([]interface{})
			if !ok || l == nil {
				l = dm.GenEntries(t, en, to)
			}
			pn, _, _ := dm.ParentOf(root, c.Data, c.Entry)
			v = treeToGeneric(m, pn, dm.Tree{en.Name: l})
			if len(v) == 0 {
				v[en.Name] = []interface{}{}
			}
			pos = append(pos, jsonPos{parent: v, key: en.Name, schema: en})
			if l2, isL := v[en.Name].([]interface{}); isL {
				for i, e := range l2 {
					pos = append(pos, jsonPos{parent: l2, idx: i, schema: en, entry: true})
					if mm, isM := e.(map[string]interface{}); isM {
						collectJSON(en, mm, &pos)
					}
				}
			}
		} else {
			st, isT := sv.(dm.Tree)
			if !ok || !isT {
				st = dm.GenTree(t, en, to)
				if en.Kind == "list" {
					for i, k := range en.Keys {
						st[k] = c.Entry[len(c.Entry)-1].Key[i]
					}
				}
			}
			v = treeToGeneric(m, en, st)
			collectJSON(en, v, &pos)
		}
	}
	nm := rapid.IntRange(1, 2).Draw(t, "nmut")
	for i := 0; i < nm && len(pos) > 0; i++ {
		p := pos[rapid.IntRange(0, len(pos)-1).Draw(t, "pos")]
		cur := p.get()
		kindHere := "leaf"
		switch {
		case p.entry:
			kindHere = "entry"
		case p.schema.Kind == "container":
			kindHere = "container"
		case p.schema.Kind == "list":
			kindHere = "list"
		case p.schema.Kind == "leaf-list":
			kindHere = "leaf-list"
		}
		mut := rapid.SampledFrom([]string{"object", "array", "scalar", "null", "number", "bool", "drop-key", "drop-key", "nested-array", "string", "null-element"}).Draw(t, "mut")
		c.Mutation = kindHere + "->" + mut
		c.Expect = ""
		switch mut {
		case "object":
			p.set(map[string]interface{}{"bogus": 1})
			if kindHere == "list" {
				c.Expect = "error" // an object where a list is declared
			}
		case "array":
			p.set([]interface{}{1, "a"})
			if kindHere == "container" || kindHere == "entry" {
				c.Expect = "error"
			}
		case "nested-array":
			p.set([]interface{}{[]interface{}{cur}})
		case "scalar", "string":
			p.set("scalar")
			if kindHere == "container" || kindHere == "list" || kindHere == "entry" {
				c.Expect = "error" // a scalar where a container / list is declared
			}
		case "number":
			p.set(json.Number("12345678901234567890123"))
			if kindHere == "container" || kindHere == "list" || kindHere == "entry" {
				c.Expect = "error"
			}
		case "bool":
			p.set(true)
			if kindHere == "container" || kindHere == "list" || kindHere == "entry" {
				c.Expect = "error"
			}
		case "null":
			p.set(nil)
		case "null-element":
			if l, ok := cur.([]interface{}); ok && len(l) > 0 {
				l[rapid.IntRange(0, len(l)-1).Draw(t, "element")] = nil
			} else {
				p.set([]interface{}{nil})
			}
		case "drop-key":
			if p.entry && len(p.schema.Keys) > 0 {
				if mm, ok := cur.(map[string]interface{}); ok {
					delete(mm, p.schema.Keys[rapid.IntRange(0, len(p.schema.Keys)-1).Draw(t, "which-key")])
					c.Mutation = "entry->drop-key"
					c.Expect = "error" // a list entry without its key
				}
			}
		}
		if nm > 1 {
			c.Expect = "" // combined mutations: only totality is asserted
		}
	}
	bs, _ := json.Marshal(v)
	c.Text = string(bs)
	switch rapid.IntRange(0, 9).Draw(t, "textmut") {
	case 0:
		c.Text = c.Text[:rapid.IntRange(0, len(c.Text)).Draw(t, "cut")]
		c.Mutation, c.Expect = "json-truncate", ""
	case 1:
		i := rapid.IntRange(0, len(c.Text)).Draw(t, "at")
		c.Text = c.Text[:i] + rapid.SampledFrom([]string{"{", "}", "[", "]", ",", ":", "\"", "null", "\\", "\x00"}).Draw(t, "ins") + c.Text[i:]
		c.Mutation, c.Expect = "json-token-insert", ""
	}
	return c
}

func c13GenDoc(t *rapid.T) c13Case {
	c := c13GenDoc0(t)
	if rapid.IntRange(0, 4).Draw(t, "via-constrained") == 0 {
		// the selection the edit goes through was taken for a read with parameters: whatever they let through, the edit
		// ends in a result or an error
		c.Via = rapid.SampledFrom([]string{"depth=1", "depth=2", "fields=nothere", "fc.xfields=nothere", "content=config", "content=nonconfig", "with-defaults=trim", "fc.max-node-count=1", "fc.range=l1!0-1"}).Draw(t, "via")
		if en, _, ok := dm.Resolve(c.Module.Root(), c.Data, c.Entry); ok && en != nil && len(en.DataChildren()) > 0 && rapid.Bool().Draw(t, "via-a-child") {
			c.Via = rapid.SampledFrom([]string{"fields=", "fc.xfields="}).Draw(t, "via-kind") + en.DataChildren()[rapid.IntRange(0, len(en.DataChildren())-1).Draw(t, "via-child")].Name
		}
		c.Expect = "" // what the parameters keep the edit from reaching is not looked at: only totality is asserted
	}
	return c
}

var c13Docs = hx.Register(&hx.Check[c13Case]{
	Name:    "c13-documents",
	Journal: true,
	Rule:    "a valid JSON or XML edit document for a generated schema with 1-2 mutations at random schema positions (object<->array<->scalar<->null, number/bool where a node is declared, list entry without one of its keys, null elements in arrays, nested arrays, renamed / duplicated / nested elements, text in containers, children in leaves), truncation at a random byte or a stray token, applied with upsert / insert / update at the root, a container, a list or a list entry of reference, map-backed Reflect and map-backed Node targets holding data; no panic or hang, the named shape mismatches must be errors, stored data stays readable; every case is non-trivial",
	Gen:     c13GenDoc,
	Run:     c13Run,
})

// ---- paths, queries, xpath, SetValue -----------------------------------------------------------

func c13GenReq(t *rapid.T) c13Case {
	o := dm.DefaultGen()
	o.Types = []string{"int8", "int32", "uint64", "decimal64", "string", "boolean", "enumeration", "bits", "identityref", "binary", "empty"}
	o.KeyTypes = []string{"string", "int32", "boolean", "enumeration"}
	store := rapid.SampledFrom([]string{"rs", "rs", "reflect-map", "node-map", "reflect-slice", "node-slice", "json-reader", "xml-reader"}).Draw(t, "store")
	if store != "rs" && !strings.HasSuffix(store, "-reader") {
		// what the Go-data stores can hold (as in C03 / C18)
		o.Unions, o.ConfigFalse, o.CompoundKeys = false, false, true
		o.Types = []string{"int8", "int32", "int64", "uint16", "uint64", "decimal64", "string", "boolean", "enumeration"}
		o.KeyTypes = []string{"string", "int32", "string", "int32", "int8", "int64", "uint16", "uint64", "boolean"}
	}
	m := dm.GenModule(t, o)
	// operations: an rpc at the top, an action and a notification in every container and list of the first two levels
	const opBody = ` input { leaf delay { type int32; } container opts { leaf o { type string; } } list il { key k; leaf k { type string; } } } output { leaf r { type string; } }`
	m.Extra = "rpc op-reset {" + opBody + " } notification note-top { leaf x { type string; } }"
	for _, n := range m.Top {
		if n.Kind == "container" || n.Kind == "list" {
			n.Extra = "action op-restart {" + opBody + " } notification note-ev { leaf x { type string; } }"
		}
	}
	root := m.Root()
	data := dm.GenTree(t, root, dm.TreeOpts{MaxEntries: 3, EasyKeys: true, EasyStrings: true, PresentPct: 80, NoEmptyStr: true})
	c := c13Case{Module: m, Data: data, Store: store}
	paths := dm.AllPaths(root, data, nil)
	var target dm.Path
	if len(paths) > 0 {
		target = paths[rapid.IntRange(0, len(paths)-1).Draw(t, "target")]
	}
	valid := renderPath(m.Name, target, "", false, false)
	sn, sv, _ := dm.Resolve(root, data, target)
	junk := []string{"=", "/", ",", "%", "%zz", "%2", "?", "&", "..", "../", ":", "::", "=,", ",,", "=%2C", "//", " ", "\x00", "%00", "é", "*", "[", "]", "(", ")", ";", "'", "\"", "+"}
	switch rapid.IntRange(0, 4).Draw(t, "reqkind") {
	case 0: // Find path mutations
		c.Kind = "find"
		switch rapid.IntRange(0, 8).Draw(t, "pathmut") {
		case 8: // operations: the rpc / action / notification itself, steps below it, request bodies of every shape
			base := ""
			for i := len(target); i >= 1; i-- {
				if n, _, _ := dm.Resolve(root, data, target[:i]); i == 1 && (n.Kind == "container" || n.Kind == "list" && target[0].Key != nil) {
					base = renderPath(m.Name, target[:1], "", false, false) + "/"
				}
			}
			opn := "op-reset"
			if base != "" && rapid.Bool().Draw(t, "action") {
				opn = base + "op-restart"
			} else if rapid.IntRange(0, 3).Draw(t, "notification") == 0 {
				opn = base + rapid.SampledFrom([]string{"note-ev", "note-top"}).Draw(t, "note")
			}
			c.Text = opn + rapid.SampledFrom([]string{"", "", "", "/input", "/output", "/delay", "/input/delay", "/opts", "/opts/o", "/il", "/il=a", "/r", "/x", "/x/y", "=1", "/", "/..", "/../" + opn}).Draw(t, "below")
			c.Value = rapid.SampledFrom([]string{"", `{}`, `{"delay":5}`, `{"delay":"x"}`, `{"delay":[1]}`, `{"delay":{}}`, `{"opts":{"o":"v"}}`, `{"opts":"scalar"}`, `{"opts":[1]}`, `{"opts":null}`,
				`{"il":[{"k":"a"}]}`, `{"il":{"k":"a"}}`, `{"il":"x"}`, `{"il":[{}]}`, `{"il":[1]}`, `{"il":null}`, `{"bogus":1}`, `[]`, `[{"delay":1}]`, `null`, `5`, `"s"`, `{"input":{"delay":5}}`, `{"r":"x"}`}).Draw(t, "body")
			c.Mutation = "operation"
		case 0: // key on a non-list
			for i := len(target) - 1; i >= 0; i-- {
				n, _, _ := dm.Resolve(root, data, target[:i+1])
				if n.Kind == "container" {
					p2 := append(dm.Path{}, target[:i+1]...)
					p2[i] = dm.Seg{Name: target[i].Name, Key: []string{"k"}}
					c.Text, c.Mutation, c.Expect = renderPath(m.Name, p2, "", false, false), "key-on-container", "error"
					break
				}
			}
		case 1: // step below a leaf
			if st, isT := sv.(dm.Tree); isT {
				for _, d := range sn.DataChildren() {
					if _, has := st[d.Name]; has && d.Kind == "leaf" {
						c.Text, c.Mutation, c.Expect = strings.TrimPrefix(valid+"/"+d.Name+"/below", "/"), "step-below-leaf", "error"
						break
					}
				}
			}
		case 2: // wrong number of compound keys
			for i := len(target) - 1; i >= 0; i-- {
				if len(target[i].Key) > 0 {
					p2 := append(dm.Path{}, target[:i+1]...)
					nk := append([]string{}, target[i].Key...)
					if rapid.Bool().Draw(t, "more") || len(nk) == 1 {
						nk = append(nk, "extra")
						c.Mutation = "too-many-keys"
					} else {
						nk = nk[:len(nk)-1]
						c.Mutation = "too-few-keys"
					}
					p2[i] = dm.Seg{Name: target[i].Name, Key: nk}
					c.Text = renderPath(m.Name, p2, "", false, false)
					break
				}
			}
		case 3:
			c.Text, c.Mutation = valid+rapid.SampledFrom(junk).Draw(t, "junk"), "junk-suffix"
		case 4:
			i := rapid.IntRange(0, len(valid)).Draw(t, "at")
			c.Text, c.Mutation = valid[:i]+rapid.SampledFrom(junk).Draw(t, "junk")+valid[i:], "junk-insert"
		case 5:
			if len(valid) > 0 {
				i := rapid.IntRange(0, len(valid)-1).Draw(t, "at")
				c.Text, c.Mutation = valid[:i]+valid[i+1:], "char-delete"
			}
		case 6:
			c.Text, c.Mutation = strings.Repeat("../", rapid.IntRange(1, 5).Draw(t, "up"))+valid, "dotdot-past-root"
		case 7:
			var parts []string
			for i := 0; i < rapid.IntRange(1, 6).Draw(t, "nparts"); i++ {
				parts = append(parts, rapid.SampledFrom(append(junk, "c1", "l1", "f1", "l1=a", "gm:c1")).Draw(t, "part"))
			}
			c.Text, c.Mutation = strings.Join(parts, ""), "soup"
		}
		if c.Text == "" && c.Mutation == "" {
			c.Text, c.Mutation = valid+"=", "junk-suffix"
		}
		if c.Mutation != "operation" && rapid.IntRange(0, 4).Draw(t, "getvalue") == 0 {
			// the same path given to GetValue, also continued to a leaf below an item that may not be there
			c.Kind, c.Expect = "getvalue", ""
			if rapid.Bool().Draw(t, "leaf-below") {
				c.Text += "/" + rapid.SampledFrom([]string{"f1", "v", "x", "k"}).Draw(t, "leafname")
			}
		}
	case 1: // query strings
		c.Kind = "query"
		names := []string{"depth", "content", "fields", "fc.xfields", "with-defaults", "fc.range", "fc.max-node-count", "where", "filter", "bogus", ""}
		vals := []string{"", "0", "-1", "1", "99999999999999999999", "x", "config", "all", "a/b", "a(b", "a)b", "((", ";;", "a;b;", "/", "l1!0-1", "l1!", "!", "l1!-1", "l1!1-0", "l1!a-b", "l1/l2!0-", "l1!-1-3", "l1!-1-", "l1!--1", "l1!1--3", "l1!-9223372036854775808-1", "l1!9223372036854775807-", "l1!1-2-3", "trim", "explicit", "report-all-tagged", "a=1", "a='", "a<", "=1", "%", "\x00", "a/b/c/d/e/f/g/h/i/j/k/l/m/n/o/p"}
		// include real names from the schema
		for _, d := range root.DataChildren() {
			vals = append(vals, d.Name, d.Name+"/x", d.Name+"!0-0", d.Name+"=1", d.Name+">1", d.Name+"!-1-3", d.Name+"!-1-", d.Name+"!-9223372036854775808-1", d.Name+"!5-2", d.Name+"!1-2-3")
		}
		var parts []string
		for i := 0; i < rapid.IntRange(1, 3).Draw(t, "nparams"); i++ {
			parts = append(parts, rapid.SampledFrom(names).Draw(t, "pname")+"="+url.QueryEscape(rapid.SampledFrom(vals).Draw(t, "pval")))
		}
		c.Text, c.Mutation = strings.Join(parts, rapid.SampledFrom([]string{"&", "&", ";", "&&"}).Draw(t, "sep")), "query"
		// a quarter of the queries: a row window over a list that is there, with every shape of row expression
		var listPaths []string
		for _, p := range paths {
			if n, _, _ := dm.Resolve(root, data, p); n.Kind == "list" && p[len(p)-1].Key == nil {
				var names []string
				for _, seg := range p {
					names = append(names, seg.Name)
				}
				listPaths = append(listPaths, strings.Join(names, "/"))
			}
		}
		if len(listPaths) > 0 && rapid.IntRange(0, 3).Draw(t, "row-window") == 0 {
			rows := rapid.SampledFrom([]string{"0-1", "1-", "-1", "-1-3", "-1-", "--1", "1--3", "-9223372036854775808-1", "9223372036854775807-", "9223372036854775808-", "1-2-3", "5-2", "0-0", "", "-", "a-b", "1-b", "0x1-2", "1.5-2", " 1-2", "+1-+2"}).Draw(t, "rows")
			v := rapid.SampledFrom(listPaths).Draw(t, "window-list") + "!" + rows
			if rapid.Bool().Draw(t, "window-raw") {
				c.Text = "fc.range=" + v
			} else {
				c.Text = "fc.range=" + url.QueryEscape(v)
			}
			c.Mutation = "row-window"
		}
		if rapid.IntRange(0, 11).Draw(t, "selector-groups") == 0 {
			// a selector of many groups of alternatives in a row: each multiplies the number of paths it stands for
			grp := rapid.SampledFrom([]string{"(a;b)", "(a;b;c)", "(a/b;c)", "(a;(b;c))", "/(a;b)"}).Draw(t, "group")
			sel := "x" + strings.Repeat(grp, rapid.SampledFrom([]int{2, 5, 10, 16, 24, 40, 100}).Draw(t, "ngroups"))
			switch rapid.IntRange(0, 2).Draw(t, "selector-param") {
			case 0:
				c.Text = "fields=" + url.QueryEscape(sel)
			case 1:
				c.Text = "fc.xfields=" + url.QueryEscape(sel)
			default:
				c.Text = "fc.range=" + url.QueryEscape(sel+"!0-1")
			}
			c.Mutation = "selector-groups"
		}
		c.Entry = target
		if n, _, _ := dm.Resolve(root, data, target); n.Kind == "list" && len(target) > 0 && target[len(target)-1].Key == nil {
			c.Entry = nil
		}
	case 2: // xpath text for where / filter
		c.Kind = "xpath"
		toks := []string{"a", "b", "z", "k", "f1", "c1", "/", "//", "=", "!=", "<", "<=", ">", ">=", "1", "1.5", "'x'", "'", "''", "(", ")", "[", "]", " ", "and", "or", ":", "*", ".", "..", "@", "-1", "99999999999999999999", "\x00", "é"}
		for _, d := range root.DataChildren() {
			toks = append(toks, d.Name)
		}
		n := rapid.IntRange(1, 12).Draw(t, "ntoks")
		if rapid.IntRange(0, 9).Draw(t, "long") == 0 {
			n = rapid.IntRange(60, 300).Draw(t, "ntoks-long")
		}
		var b strings.Builder
		for i := 0; i < n; i++ {
			b.WriteString(rapid.SampledFrom(toks).Draw(t, "tok"))
		}
		c.Text, c.Mutation = b.String(), "xpath-soup"
		if rapid.IntRange(0, 14).Draw(t, "deep-path") == 0 {
			// a path of very many steps
			step := rapid.SampledFrom(toks[:6]).Draw(t, "step")
			c.Text = strings.Repeat(step+"/", rapid.SampledFrom([]int{63, 64, 65, 255, 256, 257, 300, 1000}).Draw(t, "nsteps")) + step + "=1"
			c.Mutation = "xpath-deep-path"
		}
		// where needs a list target
		var listNode *dm.Node
		for _, p := range paths {
			if n, _, _ := dm.Resolve(root, data, p); n.Kind == "list" && p[len(p)-1].Key == nil {
				c.Leaf = renderPath(m.Name, p, "", false, false)
				listNode = n
				break
			}
		}
		// half of the time a well-formed comparison over a leaf of that list (set in some rows, unset in others)
		if listNode != nil && rapid.Bool().Draw(t, "well-formed") {
			var leaves []string
			// operands: leaves of the row, and paths into its containers and lists (ending on a leaf or on the container itself)
			var operands func(n *dm.Node, prefix string, depth int)
			operands = func(n *dm.Node, prefix string, depth int) {
				for _, d := range n.DataChildren() {
					switch {
					case d.Kind == "leaf":
						leaves = append(leaves, prefix+d.Name)
					case (d.Kind == "container" || d.Kind == "list") && depth < 3:
						leaves = append(leaves, prefix+d.Name)
						operands(d, prefix+d.Name+"/", depth+1)
					}
				}
			}
			operands(listNode, "", 0)
			if len(leaves) > 0 {
				opnd, op := rapid.SampledFrom(leaves).Draw(t, "operand"), rapid.SampledFrom([]string{"=", "!=", "<", "<=", ">", ">=", " = ", " < ", "", "/"}).Draw(t, "op")
				lit := rapid.SampledFrom([]string{"1", "0", "-1", "1.5", "'x'", "'true'", "true", "99999999999999999999", "''"}).Draw(t, "literal")
				if op == "" || op == "/" {
					lit = "" // an existence test
				}
				c.Text = opnd + op + lit
				c.Mutation = "xpath-comparison"
			}
		}
	default: // SetValue with arbitrary Go values
		c.Kind = "setvalue"
		if st, isT := sv.(dm.Tree); isT {
			var leaves []string
			for _, d := range sn.DataChildren() {
				if d.IsLeafy() {
					leaves = append(leaves, d.Name)
				}
			}
			_ = st
			if len(leaves) > 0 {
				c.Entry = target
				c.Leaf = rapid.SampledFrom(leaves).Draw(t, "leaf")
			}
		}
		if c.Leaf == "" {
			for _, d := range root.DataChildren() {
				if d.IsLeafy() {
					c.Leaf = d.Name
				}
			}
		}
		if c.Leaf == "" {
			c.Kind, c.Text, c.Mutation = "find", "=", "junk-suffix"
			return c
		}
		if n, _, _ := dm.Resolve(root, data, c.Entry); n != nil && n.Kind == "list" && len(c.Entry) > 0 && c.Entry[len(c.Entry)-1].Key == nil {
			c.Entry = nil
			c.Leaf = ""
			c.Kind, c.Text, c.Mutation = "find", "=", "junk-suffix"
			return c
		}
		c.Value = rapid.SampledFrom(c13GoValues).Draw(t, "value")
		c.Mutation = "setvalue-" + c.Value
	}
	return c
}

var c13Reqs = hx.Register(&hx.Check[c13Case]{
	Name:    "c13-requests",
	Journal: true,
	Rule:    "Find paths derived from a valid path by: key on a container, step below a leaf, wrong number of compound keys, junk suffix / insertion / deletion (= / , % %zz ? & .. : NUL ...), ../ past the root, token soup, rpc / action / notification names with steps below them and request bodies of every shape; query strings over every parameter name with empty, negative, huge, malformed and schema-derived values; where=/filter= XPath text as token soup (up to 300 tokens) and as well-formed comparisons with every operator over leaves that are unset in some rows; GetValue with the same paths; a where= path of up to 1000 steps; all of it on reference, map- and slice-backed Reflect and Node stores; SetValue with 27 kinds of Go values (nil, NaN, slices, maps, structs, pointers, channels, functions ...) on every leaf type; no panic or hang, key-on-container and step-below-leaf must be errors, navigation leaves the data unchanged; every case is non-trivial",
	Gen:     c13GenReq,
	Run:     c13Run,
})

func TestC13(t *testing.T) {
	debug.SetMaxStack(48 << 20)
	s := hx.Begin(t, "C13")
	defer s.End()
	hx.Run(s, c13Docs, s.N(4000, 40000))
	hx.Run(s, c13Reqs, s.N(5000, 50000))
	hx.Each(s, c13Odd, true, c13OddCases)
	hx.Run(s, c13Keys, s.N(400, 4000))
}
