package props

import (
	"fmt"
	"math/big"
	"net/url"
	"strings"
	"testing"

	"github.com/freeconf/yang/node"
	"github.com/freeconf/yang/nodeutil"
	"github.com/freeconf/yang/val"
	"pgregory.net/rapid"

	"verif/harness/dm"
	"verif/harness/hx"
)

// ---- C16: when, where and filter hide exactly what their expression excludes ----------------

type c16Case struct {
	Base      string   `json:"base"`
	Op        string   `json:"op"`
	Literal   string   `json:"literal"`
	Quoted    bool     `json:"quoted"`    // write the literal in quotes even when it is a number
	Values    []string `json:"values"`    // operand values, one per row/event ("" with Unset[i] = unset)
	Unset     []bool   `json:"unset"`     // operand has no value in that row
	Placement string   `json:"placement"` // container-when | leaf-when | list-when | uses-when | augment-when | where | filter
	Edit      bool     `json:"edit"`      // when placements: check an upsert instead of a read
	Spaces    bool     `json:"spaces"`    // blanks around the operator
	// Shape: how the expression reaches the operand leaf: "" = by its name; "prefixed" = gm:z; "nested" = h/z and
	// "nested2" = h/g/z with the leaf inside containers; "nested-prefixed" = gm:h/gm:z
	Shape string `json:"shape,omitempty"`
	// Own (uses-when, augment-when): the guarded leaf y2 / y also states a when of its own, "w='on'", and w holds "on"
	// (Own = "holds") or "off" (Own = "fails"): a node is there when both conditions hold
	Own string `json:"own,omitempty"`
	// Mid (uses-when): the grouping is used through a second grouping, 'grouping g0 { uses g { when "w2='on'"; } }
	// uses g0 { when <expr>; }', and w2 holds "on" (Mid = "holds") or "off" (Mid = "fails"): three conditions are chained
	Mid string `json:"mid,omitempty"`
	// Default (operand by its name only): the operand leaf has this schema default, so a row that does not set it is
	// compared by the default
	Default string `json:"default,omitempty"`
	// Hide (reads): the request also carries a fields= ("fields") or fc.xfields= ("xfields") parameter that leaves the
	// operand of the expression out of the answer: what the expression decides stays the same, the answer is its projection
	Hide string `json:"hide,omitempty"`
	// Store (reads): "" = the reference node serves the data; json-reader | xml-reader = a document the library read does
	Store string `json:"store,omitempty"`
}

func c16Type(base string) *dm.Type {
	switch base {
	case "enumeration":
		return &dm.Type{Base: base, Enums: []dm.EnumDef{{"low", 1}, {"mid", 5}, {"high", 9}}}
	case "decimal64":
		return &dm.Type{Base: base, FD: 2}
	}
	return &dm.Type{Base: base}
}

func c16Holds(c c16Case, v string) bool {
	var cmp int
	switch {
	case dm.IsInt(c.Base) || c.Base == "decimal64":
		a, _ := new(big.Rat).SetString(v)
		b, _ := new(big.Rat).SetString(c.Literal)
		cmp = a.Cmp(b)
	case c.Base == "enumeration":
		ty := c16Type(c.Base)
		id := func(n string) int {
			for _, e := range ty.Enums {
				if e.Name == n {
					return e.Value
				}
			}
			return -1
		}
		if c.Op == "=" || c.Op == "!=" {
			cmp = strings.Compare(v, c.Literal)
		} else {
			cmp = id(v) - id(c.Literal)
		}
	case c.Base == "boolean":
		x, y := 0, 0
		if v == "true" {
			x = 1
		}
		if c.Literal == "true" {
			y = 1
		}
		cmp = x - y
	default:
		cmp = strings.Compare(v, c.Literal)
	}
	switch c.Op {
	case "=":
		return cmp == 0
	case "!=":
		return cmp != 0
	case "<":
		return cmp < 0
	case "<=":
		return cmp <= 0
	case ">":
		return cmp > 0
	case ">=":
		return cmp >= 0
	}
	return false
}

func c16Expr(c c16Case) string {
	lit := c.Literal
	numeric := (dm.IsInt(c.Base) || c.Base == "decimal64") && !strings.HasPrefix(lit, "-") && !c.Quoted
	if numeric && dm.IsInt(c.Base) {
		if b, _ := new(big.Int).SetString(lit, 10); b.BitLen() > 63 {
			numeric = false
		}
	}
	if !numeric {
		lit = "'" + lit + "'"
	}
	sp := ""
	if c.Spaces {
		sp = " "
	}
	path := "z"
	switch c.Shape {
	case "prefixed":
		path = "gm:z"
	case "nested":
		path = "h/z"
	case "nested2":
		path = "h/g/z"
	case "nested-prefixed":
		path = "gm:h/gm:z"
	case "through-list":
		path = "m/z"
	}
	return path + sp + c.Op + sp + lit
}

// eventNode serves a notification by sending one event per operand value.
type eventNode struct {
	*dm.RS
	ev     *dm.Node
	events []dm.Tree
}

func (e *eventNode) Notify(r node.NotifyRequest) (node.NotifyCloser, error) {
	for _, t := range e.events {
		r.Send(dm.NewRS(e.ev, t))
	}
	return func() error { return nil }, nil
}

func c16Run(c c16Case, o *hx.Obs) {
	ty := c16Type(c.Base)
	expr := c16Expr(c)
	// the operand leaf, directly or inside the containers the path of the expression steps through
	zLeaf := func() (top *dm.Node) {
		defer func() {
			if c.Hide == "content" {
				// the operand is state data, the request asks for configuration only
				f := false
				top.Config = &f
			}
		}()
		z := &dm.Node{Kind: "leaf", Name: "z", Type: ty}
		if c.Default != "" {
			d := c.Default
			z.Default = &d
		}
		switch c.Shape {
		case "nested", "nested-prefixed":
			return &dm.Node{Kind: "container", Name: "h", Children: []*dm.Node{z}}
		case "nested2":
			return &dm.Node{Kind: "container", Name: "h", Children: []*dm.Node{{Kind: "container", Name: "g", Children: []*dm.Node{z}}}}
		case "through-list":
			// the operand is a leaf of the entries of a list inside the row: the row is kept when some entry satisfies
			return &dm.Node{Kind: "list", Name: "m", Keys: []string{"j"}, Children: []*dm.Node{{Kind: "leaf", Name: "j", Type: &dm.Type{Base: "string"}}, z}}
		}
		return z
	}
	if c.Shape != "" {
		o.Class("path=%s", c.Shape)
	}
	str := func(n string) *dm.Node { return &dm.Node{Kind: "leaf", Name: n, Type: &dm.Type{Base: "string"}} }
	m := &dm.Module{Name: "gm"}
	rows := len(c.Values)
	if c.Placement != "list-when" && c.Placement != "where" && c.Placement != "filter" && c.Placement != "list-when-where" {
		rows = 1
	}
	if rows == 0 {
		return
	}
	present := "set"
	for i := 0; i < rows; i++ {
		if c.Unset[i] {
			present = "unset"
		}
	}
	o.Class("placement=%s", c.Placement)
	o.Class("op=%s", c.Op)
	o.Class("type=%s", c.Base)
	o.Class("presence=%s", present)
	if c.Default != "" && present == "unset" {
		o.Class("an unset operand has a schema default")
	}
	sig := func(clause string) string {
		return "predicate|" + c.Op + "|" + c.Base + "|" + present + "|" + clause + "|" + c.Placement
	}
	holds := make([]bool, rows)
	near := false
	for i := 0; i < rows; i++ {
		if c.Unset[i] {
			near = true
			if c.Default != "" {
				// the leaf reads as its default
				holds[i] = c16Holds(c, c.Default)
			}
			continue
		}
		holds[i] = c16Holds(c, c.Values[i])
		if dm.IsInt(c.Base) || c.Base == "decimal64" {
			a, _ := new(big.Rat).SetString(c.Values[i])
			b, _ := new(big.Rat).SetString(c.Literal)
			d := new(big.Rat).Sub(a, b)
			if d.Abs(d).Cmp(big.NewRat(1, 1)) <= 0 {
				near = true
			}
		} else {
			near = true
		}
	}
	if near {
		o.NonTrivial()
	}
	data, want := dm.Tree{}, dm.Tree{}
	setZ := func(t dm.Tree, i int) {
		if c.Unset[i] {
			return
		}
		switch c.Shape {
		case "nested", "nested-prefixed":
			t["h"] = dm.Tree{"z": c.Values[i]}
		case "nested2":
			t["h"] = dm.Tree{"g": dm.Tree{"z": c.Values[i]}}
		case "through-list":
			// an entry without the operand first, then the one that holds it
			t["m"] = []interface{}{dm.Tree{"j": "0"}, dm.Tree{"j": "1", "z": c.Values[i]}}
		default:
			t["z"] = c.Values[i]
		}
	}
	switch c.Placement {
	case "container-when":
		m.Top = []*dm.Node{{Kind: "container", Name: "y", When: expr, Children: []*dm.Node{zLeaf(), str("other")}}, str("out")}
		y := dm.Tree{"other": "o"}
		setZ(y, 0)
		data["y"], data["out"] = y, "x"
		want["out"] = "x"
		if holds[0] {
			want["y"] = dm.Clone(y)
		}
	case "leaf-when":
		yl := str("y")
		yl.When = expr
		m.Top = []*dm.Node{yl, zLeaf(), str("out")}
		data["y"], data["out"] = "guarded", "x"
		setZ(data, 0)
		want = dm.CloneTree(data)
		if !holds[0] {
			delete(want, "y")
		}
	case "uses-when":
		own := ""
		if c.Own != "" {
			own = " when \"w='on'\";"
		}
		// (the grouping also has a choice: what the uses' when guards includes the nodes of its cases)
		gbody := "leaf y { type string; } leaf y2 {" + own + " type string; } choice gch { case gca { leaf yc { type string; } } leaf ys { type string; } }"
		m.Extra = "grouping g { " + gbody + " } uses g { when " + dm.QuoteYang(expr) + "; }"
		m.Top = []*dm.Node{zLeaf(), str("out"), str("w")}
		if c.Mid != "" {
			m.Extra = "grouping g { " + gbody + " } grouping g0 { uses g { when \"w2='on'\"; } } uses g0 { when " + dm.QuoteYang(expr) + "; }"
			m.Top = append(m.Top, str("w2"))
			data["w2"] = map[string]string{"holds": "on", "fails": "off"}[c.Mid]
			o.Class("the grouping is used through a second uses with a when that %s", c.Mid)
		}
		data["y"], data["y2"], data["out"] = "guarded", "g2", "x"
		data["yc"] = "in-a-case"
		data["w"] = map[string]string{"": "on", "holds": "on", "fails": "off"}[c.Own]
		setZ(data, 0)
		want = dm.CloneTree(data)
		if !holds[0] || c.Mid == "fails" {
			delete(want, "y")
			delete(want, "y2")
			delete(want, "yc")
		}
		if c.Own == "fails" {
			delete(want, "y2")
		}
		if c.Own != "" {
			o.Class("the guarded node has a when of its own that %s", c.Own)
		}
	case "augment-when":
		own := ""
		if c.Own != "" {
			own = " when \"w='on'\";"
			o.Class("the guarded node has a when of its own that %s", c.Own)
		}
		m.Top = []*dm.Node{{Kind: "container", Name: "c", Children: []*dm.Node{zLeaf(), str("out"), str("w")}}}
		m.Extra = "augment \"/c\" { when " + dm.QuoteYang(expr) + "; leaf y {" + own + " type string; } }"
		cc := dm.Tree{"y": "guarded", "out": "x", "w": map[string]string{"": "on", "holds": "on", "fails": "off"}[c.Own]}
		setZ(cc, 0)
		data["c"] = cc
		wc := dm.CloneTree(cc)
		if !holds[0] || c.Own == "fails" {
			delete(wc, "y")
		}
		want["c"] = wc
	case "list-when", "where", "list-when-where":
		l := &dm.Node{Kind: "list", Name: "l", Keys: []string{"k"}, Children: []*dm.Node{{Kind: "leaf", Name: "k", Type: &dm.Type{Base: "int32"}}, zLeaf(), str("other")}}
		if c.Placement == "list-when" || c.Placement == "list-when-where" {
			l.When = expr
		}
		m.Top = []*dm.Node{l, str("out")}
		var all, kept []interface{}
		for i := 0; i < rows; i++ {
			e := dm.Tree{"k": fmt.Sprint(i), "other": "o"}
			setZ(e, i)
			all = append(all, e)
			if holds[i] {
				kept = append(kept, dm.Clone(e))
			}
		}
		data["l"], data["out"] = all, "x"
		if kept == nil {
			kept = []interface{}{}
		}
		want["l"] = kept
		if c.Placement == "list-when" {
			want["out"] = "x"
		}
	case "filter":
		zy := "leaf z { " + typeYang(ty) + " }"
		switch c.Shape {
		case "nested", "nested-prefixed":
			zy = "container h { " + zy + " }"
		case "nested2":
			zy = "container h { container g { " + zy + " } }"
		}
		m.Extra = "notification ev { " + zy + " leaf seq { type int32; } }"
	}
	// the model needs the augmented / used leaves too
	modelRoot := m.Root()
	switch c.Placement {
	case "uses-when":
		gch := &dm.Node{Kind: "choice", Name: "gch", Children: []*dm.Node{{Kind: "case", Name: "gca", Children: []*dm.Node{str("yc")}}, {Kind: "case", Name: "ys", Children: []*dm.Node{str("ys")}}}}
		modelRoot = &dm.Node{Kind: "module", Name: "gm", Children: append([]*dm.Node{str("y"), str("y2"), gch}, m.Top...)}
	case "augment-when":
		modelRoot = &dm.Node{Kind: "module", Name: "gm", Children: []*dm.Node{{Kind: "container", Name: "c", Children: []*dm.Node{zLeaf(), str("out"), str("w"), str("y")}}}}
	}
	mm, err := loadDM(m)
	if err != nil {
		o.Failf("harness|schema-rejected", "schema does not load: %v\n%s", err, m.Yang())
		return
	}
	if c.Placement == "filter" {
		evNode := &dm.Node{Kind: "container", Name: "ev", Children: []*dm.Node{zLeaf(), {Kind: "leaf", Name: "seq", Type: &dm.Type{Base: "int32"}}}}
		en := &eventNode{RS: dm.NewRS(m.Root(), dm.Tree{}), ev: evNode}
		var wantSeq []string
		for i := 0; i < rows; i++ {
			e := dm.Tree{"seq": fmt.Sprint(i)}
			setZ(e, i)
			en.events = append(en.events, e)
			if holds[i] {
				wantSeq = append(wantSeq, fmt.Sprint(i))
			}
		}
		var gotSeq []string
		var ferr error
		if o.Guard("notification filter", func() {
			sel, e := node.NewBrowser(mm, en).Root().Find("ev?filter=" + url.QueryEscape(expr))
			if e != nil || sel == nil {
				ferr = fmt.Errorf("Find: %v", e)
				return
			}
			_, ferr = sel.Notifications(func(n node.Notification) {
				v, e := n.Event.GetValue("seq")
				if e != nil || v == nil {
					gotSeq = append(gotSeq, fmt.Sprintf("error:%v", e))
					return
				}
				gotSeq = append(gotSeq, v.String())
			})
		}) {
			return
		}
		if ferr != nil {
			o.Failf(sig("error"), "subscription with filter %q failed: %v", expr, ferr)
			return
		}
		if strings.Join(gotSeq, ",") != strings.Join(wantSeq, ",") {
			o.Failf(sig("event"), "filter %q over operand values %v (unset %v) delivered events %v, want %v", expr, c.Values[:rows], c.Unset[:rows], gotSeq, wantSeq)
		}
		return
	}
	if c.Edit && c.Placement != "where" && c.Placement != "list-when-where" {
		// target already holds the operand(s); the upsert carries the guarded nodes
		target := dm.Tree{}
		switch c.Placement {
		case "container-when":
			y := dm.Tree{}
			setZ(y, 0)
			target["y"] = y
		case "leaf-when", "uses-when":
			setZ(target, 0)
		case "augment-when":
			cc := dm.Tree{}
			setZ(cc, 0)
			target["c"] = cc
		case "list-when":
			var l []interface{}
			for i := 0; i < rows; i++ {
				e := dm.Tree{"k": fmt.Sprint(i)}
				setZ(e, i)
				l = append(l, e)
			}
			target["l"] = l
		}
		store, _ := dm.NewStore("rs", modelRoot, target)
		var uerr error
		if o.Guard("UpsertFrom", func() {
			uerr = node.NewBrowser(mm, store.Node()).Root().UpsertFrom(dm.NewRS(modelRoot, dm.CloneTree(data)))
		}) {
			return
		}
		got, _ := store.Snapshot()
		if uerr != nil {
			o.Class("edit-error")
		}
		// guarded nodes whose when is false must not have been written
		check := func(where string, have, wantT dm.Tree, guarded []string, ok bool) bool {
			for _, g := range guarded {
				_, has := have[g]
				if !ok && has {
					o.Failf(sig("written-when-false"), "upsert wrote %s/%s although %q is false (operand %v unset=%v): %s", where, g, expr, c.Values, c.Unset, jsonOf(got))
					return false
				}
				if ok && !has && uerr == nil {
					o.Failf(sig("not-written-when-true"), "upsert did not write %s/%s although %q is true (operand %v): %s", where, g, expr, c.Values, jsonOf(got))
					return false
				}
			}
			return true
		}
		switch c.Placement {
		case "container-when":
			if y, ok := got["y"].(dm.Tree); ok {
				check("/y", y, nil, []string{"other"}, holds[0])
			}
			// an edit that is not carried out leaves what the container held as it was
			if d := dm.Diff(modelRoot, dm.Tree{"y": target["y"]}, dm.Tree{"y": got["y"]}, dm.DiffOpts{AllowDefaults: true}, ""); len(d) > 0 && !holds[0] {
				o.Failf(sig("destroyed-when-false"), "upsert into /y whose when %q is false (operand %v unset=%v, error %v) changed what it held: %s\nbefore %s after %s", expr, c.Values, c.Unset, uerr, joinMax(d, 3), jsonOf(target), jsonOf(got))
				return
			}
		case "leaf-when":
			check("", got, nil, []string{"y"}, holds[0])
		case "uses-when":
			check("", got, nil, []string{"y", "y2", "yc"}, holds[0])
		case "augment-when":
			if cc, ok := got["c"].(dm.Tree); ok {
				check("/c", cc, nil, []string{"y"}, holds[0])
			}
		case "list-when":
			l, _ := got["l"].([]interface{})
			for i, e := range l {
				if et, ok := e.(dm.Tree); ok && i < rows {
					if !check(fmt.Sprintf("/l=%d", i), et, nil, []string{"other"}, holds[i]) {
						return
					}
				}
			}
		}
		return
	}
	// read
	// the parameter that leaves the operand (and the operand w of the guarded node's own when) out of the answer, and the
	// same done to the expected answer
	zn := map[string]string{"": "z", "nested": "h", "nested-prefixed": "h", "nested2": "h", "through-list": "m"}[c.Shape]
	hideParam := func(sep string, inList bool) string {
		if c.Hide == "" {
			return ""
		}
		var keep, drop []string
		switch {
		case inList:
			keep, drop = []string{"k", "other"}, []string{zn}
		case c.Placement == "container-when":
			keep, drop = []string{"y/other", "out"}, []string{"y/" + zn}
		case c.Placement == "leaf-when":
			keep, drop = []string{"y", "out"}, []string{zn}
		case c.Placement == "uses-when":
			keep, drop = []string{"y", "y2", "yc", "out"}, []string{zn, "w", "w2"}
		case c.Placement == "augment-when":
			keep, drop = []string{"c/y", "c/out"}, []string{"c/" + zn, "c/w"}
		case c.Placement == "list-when":
			keep, drop = []string{"l/k", "l/other", "out"}, []string{"l/" + zn}
		}
		if c.Hide == "content" {
			return sep + "content=config"
		}
		if c.Hide == "trim" {
			return sep + "with-defaults=trim"
		}
		if c.Hide == "fields" {
			return sep + "fields=" + url.QueryEscape(strings.Join(keep, ";"))
		}
		return sep + "fc.xfields=" + url.QueryEscape(strings.Join(drop, ";"))
	}
	if c.Hide == "trim" {
		// the answer leaves out the operand where it holds its default; what the expression decides stays the same
		o.Class("operand trimmed from the answer where it is its default")
		var trim func(v interface{}) interface{}
		trim = func(v interface{}) interface{} {
			switch x := v.(type) {
			case dm.Tree:
				out := dm.Tree{}
				for k, e := range x {
					if s, isStr := e.(string); k == "z" && isStr && c.Default != "" && s == c.Default {
						continue
					}
					out[k] = trim(e)
				}
				return out
			case []interface{}:
				out := make([]interface{}, len(x))
				for i, e := range x {
					out[i] = trim(e)
				}
				return out
			}
			return v
		}
		want = trim(want).(dm.Tree)
	} else if c.Hide != "" {
		o.Class("operand left out of the answer by %s", c.Hide)
		var strip func(v interface{}) interface{}
		strip = func(v interface{}) interface{} {
			switch x := v.(type) {
			case dm.Tree:
				out := dm.Tree{}
				for k, e := range x {
					if k != zn && ((k != "w" && k != "w2") || c.Hide == "content") {
						out[k] = strip(e)
					}
				}
				return out
			case []interface{}:
				out := make([]interface{}, len(x))
				for i, e := range x {
					out[i] = strip(e)
				}
				return out
			}
			return v
		}
		want = strip(want).(dm.Tree)
	}
	var text string
	var rerr error
	if c.Store != "" {
		o.Class("data served by the %s", c.Store)
	}
	if o.Guard("read", func() {
		var src node.Node = dm.NewRS(modelRoot, dm.CloneTree(data))
		if c.Store != "" {
			st, e := dm.NewStore(c.Store, modelRoot, data)
			if e != nil {
				rerr = fmt.Errorf("harness: %v", e)
				return
			}
			src = st.Node()
		}
		sel := node.NewBrowser(mm, src).Root()
		if c.Placement == "list-when-where" {
			// a where that holds for every row must not bring back rows their when hides
			sel, rerr = sel.Find("l?where=" + url.QueryEscape("k>=0") + hideParam("&", true))
			if rerr != nil || sel == nil {
				rerr = fmt.Errorf("Find: %v", rerr)
				return
			}
		} else if c.Placement == "where" {
			sel, rerr = sel.Find("l?where=" + url.QueryEscape(expr) + hideParam("&", true))
			if rerr != nil || sel == nil {
				rerr = fmt.Errorf("Find: %v", rerr)
				return
			}
		} else if c.Hide != "" {
			sel, rerr = sel.Find(hideParam("?", false))
			if rerr != nil || sel == nil {
				rerr = fmt.Errorf("Find: %v", rerr)
				return
			}
		}
		text, rerr = nodeutil.WriteJSON(sel)
	}) {
		return
	}
	if rerr != nil {
		o.Failf(sig("error"), "read with %q (operand %v unset %v) failed: %v", expr, c.Values[:rows], c.Unset[:rows], rerr)
		return
	}
	if c.Placement == "leaf-when" {
		// the guarded leaf read on its own, through a selection on the leaf and by GetValue
		for _, how := range []string{"Find.Get", "GetValue"} {
			var v val.Value
			var gerr error
			if o.Guard(how, func() {
				sel := node.NewBrowser(mm, dm.NewRS(modelRoot, dm.CloneTree(data))).Root()
				if how == "GetValue" {
					v, gerr = sel.GetValue("y")
				} else if ls, e := sel.Find("y"); e != nil || ls == nil {
					gerr = fmt.Errorf("Find(y): %v", e)
				} else {
					v, gerr = ls.Get()
				}
			}) {
				return
			}
			if gerr != nil {
				o.Failf(sig("error-"+how), "%s of the guarded leaf with %q (operand %v unset %v) failed: %v", how, expr, c.Values[:rows], c.Unset[:rows], gerr)
				return
			}
			if got := v != nil; got != holds[0] {
				o.Failf(sig("leaf-read-"+how), "%s of the guarded leaf with %q (operand %v unset %v) returned a value: %v, the expression is %v", how, expr, c.Values[:rows], c.Unset[:rows], got, holds[0])
				return
			}
		}
	}
	dec, derr := dm.DecodeOne(text)
	if derr != nil {
		o.Failf(sig("malformed"), "%v\n%s", derr, text)
		return
	}
	got, probs := dm.NormJSON(modelRoot, dec, dm.NormOpts{}, "")
	if len(probs) > 0 {
		o.Failf(sig("shape"), "%s\n%s", probs[0], text)
		return
	}
	if d := dm.Diff(modelRoot, want, got, dm.DiffOpts{IgnoreEmptyList: true, AllowDefaults: c.Default != ""}, ""); len(d) > 0 {
		clause := "visible-when-false"
		if strings.Contains(d[0], "missing") {
			clause = "hidden-when-true"
		}
		if c.Placement == "where" {
			clause = "row"
		}
		if c.Placement == "list-when-where" {
			clause = "row-when-where"
		}
		o.Failf(sig(clause), "%q with operand values %v (unset %v): read differs from the expected visibility:\n%s\n%s", expr, c.Values[:rows], c.Unset[:rows], joinMax(d, 4), text)
	}
}

func typeYang(ty *dm.Type) string {
	var b strings.Builder
	writeType(&b, ty)
	return b.String()
}

var c16Bases = []string{"int8", "int16", "int32", "int64", "uint8", "uint16", "uint32", "uint64", "decimal64", "string", "boolean", "enumeration"}

func c16Gen(t *rapid.T) c16Case {
	c := c16Case{Base: rapid.SampledFrom(c16Bases).Draw(t, "base"), Placement: rapid.SampledFrom([]string{"container-when", "leaf-when", "list-when", "list-when-where", "uses-when", "augment-when", "where", "where", "filter"}).Draw(t, "placement"),
		Edit: rapid.IntRange(0, 3).Draw(t, "edit") == 0, Spaces: rapid.Bool().Draw(t, "spaces"), Quoted: rapid.IntRange(0, 3).Draw(t, "quoted") == 0,
		Shape: rapid.SampledFrom([]string{"", "", "", "nested", "nested2"}).Draw(t, "shape")}
	if c.Placement == "where" && rapid.IntRange(0, 3).Draw(t, "through-list") == 0 {
		c.Shape = "through-list"
	}
	if !c.Edit && c.Placement != "filter" {
		c.Store = rapid.SampledFrom([]string{"", "", "json-reader", "xml-reader"}).Draw(t, "store")
	}
	if !c.Edit && c.Placement != "filter" && rapid.IntRange(0, 3).Draw(t, "hide") == 0 {
		c.Hide = rapid.SampledFrom([]string{"fields", "xfields", "content", "trim", "trim"}).Draw(t, "hide-by")
	}
	if c.Placement == "uses-when" && !c.Edit {
		c.Mid = rapid.SampledFrom([]string{"", "", "holds", "holds", "fails"}).Draw(t, "mid-when")
	}
	if (c.Placement == "uses-when" || c.Placement == "augment-when") && !c.Edit {
		c.Own = rapid.SampledFrom([]string{"", "holds", "fails"}).Draw(t, "own-when")
	}
	ops := []string{"=", "!=", "<", "<=", ">", ">="}
	if c.Base == "boolean" || c.Base == "string" {
		ops = []string{"=", "!="}
		if c.Base == "string" {
			ops = []string{"=", "!=", "<", ">", "<=", ">="}
		}
	}
	c.Op = rapid.SampledFrom(ops).Draw(t, "op")
	ty := c16Type(c.Base)
	genV := func(label string) string {
		switch c.Base {
		case "string":
			return rapid.SampledFrom([]string{"a", "b", "c", "aa", "ab", "B", "é", "10", "9", "x y", "a-b"}).Draw(t, label)
		}
		return dm.GenValue(t, ty, label, true)
	}
	c.Literal = genV("literal")
	if c.Hide == "trim" && (c.Shape != "" || c.Placement == "filter") {
		c.Hide = ""
	}
	if c.Shape == "" && !c.Edit && c.Placement != "filter" && (c.Hide == "trim" || rapid.IntRange(0, 3).Draw(t, "operand-default") == 0) {
		c.Default = c.Literal
		if rapid.Bool().Draw(t, "default-other") {
			c.Default = genV("default")
		}
	}
	n := rapid.IntRange(1, 5).Draw(t, "rows")
	for i := 0; i < n; i++ {
		var v string
		switch rapid.IntRange(0, 5).Draw(t, "vk") {
		case 0:
			v = c.Literal
		case 1, 2:
			// a neighbour of the literal
			if dm.IsInt(c.Base) {
				b, _ := new(big.Int).SetString(c.Literal, 10)
				d := int64(rapid.SampledFrom([]int{-1, 1}).Draw(t, "delta"))
				nb := new(big.Int).Add(b, big.NewInt(d))
				if dm.ValidFor(ty, nb.String()) {
					v = nb.String()
				} else {
					v = c.Literal
				}
			} else {
				v = genV(fmt.Sprintf("v%d", i))
			}
		default:
			v = genV(fmt.Sprintf("v%d", i))
		}
		c.Values = append(c.Values, v)
		c.Unset = append(c.Unset, rapid.IntRange(0, 5).Draw(t, "unset") == 0)
	}
	return c
}

var c16Pred = hx.Register(&hx.Check[c16Case]{
	Name: "c16-predicates",
	Rule: "'<path to a leaf> <op> <literal>' (the leaf by name, or one or two containers down; module prefixes are not part of the subset: the node package parses expressions without a prefix table and answers them with an error) over operand leaves of every integer width, decimal64, string, boolean and enumeration; operators = != < <= > >=; operand unset, equal to the literal, a neighbour of it, or random (64-bit and unsigned extremes included); placed as when on a container, leaf, list (also read through a where= that holds for every row), uses and augment (checked on reads and on upserts), as where= on a list and as filter= on a notification stream; oracle = math/big / string / name comparison, false when the operand has no value; non-trivial = operand within 1 of the literal, unset, or non-numeric",
	Gen:  c16Gen,
	Run:  c16Run,
})

func TestC16(t *testing.T) {
	s := hx.Begin(t, "C16")
	defer s.End()
	hx.Run(s, c16Pred, s.N(5000, 50000))
}
