package props

import (
	"bytes"
	"errors"
	"fmt"
	"strings"
	"testing"

	"github.com/freeconf/yang/node"
	"github.com/freeconf/yang/nodeutil"
	"pgregory.net/rapid"

	"verif/harness/dm"
	"verif/harness/hx"
)

// ---- C15: the JSON writer emits well-formed, correctly named and typed JSON ------------

type c15Case struct {
	Module  *dm.Module `json:"module"`
	Data    dm.Tree    `json:"data"`
	Start   dm.Path    `json:"start"`          // nil = root
	Leaf    string     `json:"leaf,omitempty"` // start on this leaf of the Start node
	Pretty  bool       `json:"pretty"`
	EnumIDs bool       `json:"enumAsIds"`
	Qual    bool       `json:"qualify"`
	FailAt  int        `json:"failAt"` // >= 0: the output stream fails once this many bytes were accepted
	// Reused: "" | "after-success" | "after-failure": the document examined is the second one a JSONWtr value writes
	Reused string `json:"reused,omitempty"`
}

type failingWriter struct {
	n, limit int
	calls    int
}

var errStream = errors.New("injected stream failure")

func (w *failingWriter) Write(p []byte) (int, error) {
	w.calls++
	if w.n+len(p) > w.limit {
		k := w.limit - w.n
		if k < 0 {
			k = 0
		}
		w.n += k
		return k, errStream
	}
	w.n += len(p)
	return len(p), nil
}

func needsEscape(t dm.Tree) bool {
	for _, v := range t {
		switch x := v.(type) {
		case string:
			if strings.ContainsAny(x, "\"\\\n\t\r\x00\x01\x1f  <>&") {
				return true
			}
		case dm.Tree:
			if needsEscape(x) {
				return true
			}
		case []interface{}:
			for _, e := range x {
				if s, ok := e.(string); ok && strings.ContainsAny(s, "\"\\\n\t\r\x00\x01\x1f  <>&") {
					return true
				}
				if et, ok := e.(dm.Tree); ok && needsEscape(et) {
					return true
				}
			}
		}
	}
	return false
}

func c15Run(c c15Case, o *hx.Obs) {
	root := c.Module.Root()
	schemaClasses(o, c.Module)
	mm, err := loadDM(c.Module)
	if err != nil {
		o.Failf("harness|schema-rejected", "generated schema does not load: %v\n%s", err, c.Module.Yang())
		return
	}
	sn, sv, ok := dm.Resolve(root, c.Data, c.Start)
	if !ok {
		return
	}
	startKind := "root"
	if len(c.Start) > 0 {
		switch {
		case sn.Kind == "list" && c.Start[len(c.Start)-1].Key == nil:
			startKind = "list"
		case sn.Kind == "list":
			startKind = "entry"
		default:
			startKind = "container"
		}
	}
	path := findPath(c.Start)
	var leafNode *dm.Node
	if c.Leaf != "" && startKind != "list" {
		leafNode = sn.Child(c.Leaf)
		if leafNode == nil || !leafNode.IsLeafy() {
			return
		}
		if _, has := sv.(dm.Tree)[c.Leaf]; !has {
			return
		}
		startKind = "leaf"
		if path != "" {
			path += "/"
		}
		path += c.Leaf
	}
	o.Class("start=%s", startKind)
	o.Class("cfg=pretty:%v,ids:%v,qual:%v", c.Pretty, c.EnumIDs, c.Qual)
	if len(c.Start) > 0 || needsEscape(c.Data) || treeSize(c.Data) >= 6 {
		o.NonTrivial()
	}
	cfg := fmt.Sprintf("p%v-i%v-q%v", b01(c.Pretty), b01(c.EnumIDs), b01(c.Qual))
	sigOf := func(clause, kind string) string { return "jsonw|" + clause + "|" + kind + "|" + startKind + "|" + cfg }

	write := func(pretty bool, out *failingWriter) (string, error) {
		b := node.NewBrowser(mm, dm.NewRS(root, dm.CloneTree(c.Data)))
		sel := b.Root()
		if path != "" {
			var ferr error
			sel, ferr = sel.Find(path)
			if ferr != nil || sel == nil {
				return "", fmt.Errorf("start selection %q not found: %v", path, ferr)
			}
		}
		wtr := &nodeutil.JSONWtr{Pretty: pretty, EnumAsIds: c.EnumIDs, QualifyNamespace: c.Qual}
		if out != nil {
			wtr.Out = out
			return "", sel.InsertInto(wtr.Node())
		}
		if c.Reused != "" {
			// one JSONWtr value serves a second document (after a first one that went well, or one whose stream
			// failed): Node() is asked for again with Out pointed at a new buffer; the second document is examined
			var first, second bytes.Buffer
			wtr.Out = &first
			if c.Reused == "after-failure" {
				wtr.Out = &failingWriter{limit: 3}
			}
			ferr := sel.InsertInto(wtr.Node())
			if ferr != nil && c.Reused != "after-failure" {
				return "", ferr
			}
			wtr.Out = &second
			sel2 := node.NewBrowser(mm, dm.NewRS(root, dm.CloneTree(c.Data))).Root()
			if path != "" {
				if sel2, ferr = sel2.Find(path); ferr != nil || sel2 == nil {
					return "", fmt.Errorf("start selection %q not found: %v", path, ferr)
				}
			}
			err := sel2.InsertInto(wtr.Node())
			return second.String(), err
		}
		return wtr.JSON(sel)
	}
	if c.Reused != "" {
		o.Class("one JSONWtr value reused for a second document (%s)", c.Reused)
	}
	var text string
	var werr error
	if o.Guard("JSONWtr", func() { text, werr = write(c.Pretty, nil) }) {
		return
	}
	if werr != nil {
		if strings.HasPrefix(werr.Error(), "start selection") {
			// reaching the start node is C08's business; here it only bounds the domain
			o.Excluded("start selection not reachable with Find (asserted by C08)")
			return
		}
		o.Failf(sigOf("write-error", sn.Kind), "JSON write failed: %v", werr)
		return
	}
	if c.FailAt >= 0 {
		// a failing output stream must surface as an error
		if c.FailAt < len(text) {
			fw := &failingWriter{limit: c.FailAt}
			var ferr error
			if o.Guard("JSONWtr(failing stream)", func() { _, ferr = write(c.Pretty, fw) }) {
				return
			}
			o.Class("stream-fault")
			if ferr == nil {
				o.Failf(sigOf("error-lost", sn.Kind), "output stream failed after %d of %d bytes but the write returned nil", c.FailAt, len(text))
			}
		}
		return
	}
	dec, derr := dm.DecodeOne(text)
	if derr != nil {
		o.Failf(sigOf("malformed", sn.Kind), "%v\n%s", derr, text)
		return
	}
	// expected content for the start kind
	var wantNode *dm.Node
	var want dm.Tree
	switch startKind {
	case "root", "container", "entry":
		wantNode, want = sn, sv.(dm.Tree)
	case "list":
		pn, _, _ := dm.ParentOf(root, c.Data, c.Start)
		wantNode, want = pn, dm.Tree{sn.Name: sv}
	case "leaf":
		wantNode, want = sn, dm.Tree{c.Leaf: sv.(dm.Tree)[c.Leaf]}
	}
	got, probs := dm.NormJSON(wantNode, dec, dm.NormOpts{Mod: c.Module.Name, EnumAsID: c.EnumIDs, Strict: true}, "")
	if len(probs) > 0 {
		o.Failf(sigOf(probs[0].Clause, probs[0].Kind), "%s\n%s", probs[0], text)
		return
	}
	if d := dm.Diff(wantNode, want, got, dm.DiffOpts{IgnoreEmptyList: true, AllowDefaults: true}, ""); len(d) > 0 {
		kind := "node"
		o.Failf(sigOf(dm.Clause(d[0]), kind), "decoded output differs from the stored data:\n%s\n%s", joinMax(d, 5), text)
		return
	}
	// qualification at the top level of the data tree
	if obj, isObj := dec.(map[string]interface{}); isObj && (startKind == "root" || (startKind == "leaf" && len(c.Start) == 0)) {
		if startKind == "leaf" {
			o.Class("written from a top-level leaf")
		}
		for k := range obj {
			q := strings.Contains(k, ":")
			if q != c.Qual {
				o.Failf(sigOf("name-qualification", "top"), "top-level member %q: QualifyNamespace=%v\n%s", k, c.Qual, text)
				break
			}
		}
	}
	// pretty printing changes whitespace only
	var other string
	if o.Guard("JSONWtr(other)", func() { other, werr = write(!c.Pretty, nil) }) {
		return
	}
	if werr != nil {
		o.Failf(sigOf("write-error", sn.Kind), "second JSON write failed: %v", werr)
		return
	}
	if dm.StripInsignificantWS(text) != dm.StripInsignificantWS(other) {
		o.Failf(sigOf("pretty-diff", sn.Kind), "pretty and compact output differ in more than whitespace:\n%s\n---\n%s", text, other)
	}
}

func b01(b bool) int {
	if b {
		return 1
	}
	return 0
}

func c15Gen(faults bool) func(t *rapid.T) c15Case {
	return func(t *rapid.T) c15Case {
		o := dm.DefaultGen()
		m := dm.GenModule(t, o)
		data := dm.GenTree(t, m.Root(), dm.TreeOpts{MaxEntries: 3, PresentPct: 75, EasyKeys: true})
		c := c15Case{Module: m, Data: data, Pretty: rapid.Bool().Draw(t, "pretty"), EnumIDs: rapid.Bool().Draw(t, "ids"), Qual: rapid.Bool().Draw(t, "qual"), FailAt: -1}
		paths := dm.AllPaths(m.Root(), data, nil)
		if len(paths) > 0 && rapid.Bool().Draw(t, "nonroot") {
			c.Start = paths[rapid.IntRange(0, len(paths)-1).Draw(t, "start")]
		}
		if rapid.IntRange(0, 4).Draw(t, "leaf?") == 0 {
			sn, sv, _ := dm.Resolve(m.Root(), data, c.Start)
			if st, isT := sv.(dm.Tree); isT {
				var leaves []string
				for _, d := range sn.DataChildren() {
					if _, has := st[d.Name]; has && d.IsLeafy() {
						leaves = append(leaves, d.Name)
					}
				}
				if len(leaves) > 0 {
					c.Leaf = rapid.SampledFrom(leaves).Draw(t, "leaf")
				}
			}
		}
		if faults {
			c.FailAt = rapid.IntRange(0, 5000).Draw(t, "failAt")
		} else {
			c.Reused = rapid.SampledFrom([]string{"", "", "", "after-success", "after-failure"}).Draw(t, "reused")
		}
		return c
	}
}

var c15Writer = hx.Register(&hx.Check[c15Case]{
	Name: "c15-json-writer",
	Rule: "generated schema + data (all leaf types, hostile strings, empty containers/lists) x writer configuration (Pretty, EnumAsIds, QualifyNamespace) x start selection (root, container, list, list entry, leaf); the output must decode with encoding/json as exactly one value, have the right shapes/names/types, equal the stored data, and pretty == compact modulo whitespace; non-trivial = non-root start, a string needing escapes, or >= 6 nodes",
	Gen:  c15Gen(false),
	Run:  c15Run,
})

var c15Fault = hx.Register(&hx.Check[c15Case]{
	Name: "c15-stream-fault",
	Rule: "as c15-json-writer with an output stream that fails after k accepted bytes (k drawn in 0..5000, cases with k >= output length are trivial): the write must return a non-nil error",
	Gen:  c15Gen(true),
	Run:  c15Run,
})

// every failing position of small outputs
type c15SweepCase struct {
	Pretty bool `json:"pretty"`
	FailAt int  `json:"failAt"`
	Calls  bool `json:"byCall"`
}

func TestC15(t *testing.T) {
	s := hx.Begin(t, "C15")
	defer s.End()
	hx.Run(s, c15Writer, s.N(3000, 30000))
	hx.Run(s, c15Fault, s.N(1500, 15000))
	hx.Run(s, c15Qualified, s.N(1500, 15000))
	hx.Run(s, c15Deep, s.N(300, 3000))
}
