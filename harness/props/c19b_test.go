package props

import (
	"strings"

	"github.com/freeconf/yang/node"
	"github.com/freeconf/yang/nodeutil"
	"github.com/freeconf/yang/parser"
	"pgregory.net/rapid"

	"verif/harness/dm"
	"verif/harness/hx"
)

// C19 with nodes contributed by another module: every element is in the namespace of the module that defines its
// node, and the document reads back to the same tree - for both writers.

type c19AugCase struct {
	Augments []string `json:"augments"`
	Data     dm.Tree  `json:"data"`
	Writer   string   `json:"writer"` // doc | doc-pretty | stream
}

func c19AugGen(t *rapid.T) c19AugCase {
	c := c19AugCase{Writer: rapid.SampledFrom([]string{"doc", "doc-pretty", "stream", "stream"}).Draw(t, "writer")}
	for _, a := range c15Augs {
		if rapid.IntRange(0, 2).Draw(t, "aug-"+a.Name) > 0 && (a.Needs == "" || containsStr(c.Augments, a.Needs)) {
			c.Augments = append(c.Augments, a.Name)
		}
	}
	c.Data = dm.GenTree(t, c15Model(c.Augments), dm.TreeOpts{MaxEntries: 2, PresentPct: 85, EasyKeys: true, EasyStrings: true, NoEmptyStr: true})
	return c
}

func c19AugRun(c c19AugCase, o *hx.Obs) {
	root := c15Model(c.Augments)
	files := map[string]string{"ma.yang": c15MaYang, "mb.yang": c15MbYang(c.Augments)}
	mm, err := parser.LoadModuleFromString(memOpener(files), files["mb.yang"])
	if err != nil {
		o.Failf("harness|schema-rejected", "%v\n%s", err, files["mb.yang"])
		return
	}
	o.Class("writer=%s", c.Writer)
	sig := func(clause string) string { return "xml|augmenting|" + clause + "|" + c.Writer }
	var text string
	var werr error
	if o.Guard("XML write", func() {
		sel := node.NewBrowser(mm, dm.NewRS(root, dm.CloneTree(c.Data))).Root()
		switch c.Writer {
		case "doc":
			text, werr = nodeutil.WriteXMLDoc(sel, false)
		case "doc-pretty":
			text, werr = nodeutil.WriteXMLDoc(sel, true)
		default:
			text, werr = nodeutil.WriteXML(sel)
		}
	}) {
		return
	}
	if werr != nil {
		o.Failf(sig("write-error"), "%v", werr)
		return
	}
	x, perr := dm.ParseXML(text)
	if perr != nil {
		o.Failf(sig("malformed"), "%v\n%s", perr, text)
		return
	}
	// namespaces, checked with encoding/xml
	nsOf := map[string]string{"ma": "urn:ma", "mb": "urn:mb"}
	foreign := 0
	var walk func(n *dm.Node, e *dm.XNode, where string) bool
	walk = func(n *dm.Node, e *dm.XNode, where string) bool {
		for _, ch := range e.Children {
			d := n.Child(ch.Name)
			if d == nil {
				o.Failf(sig("unknown-element"), "%s has an element <%s> that is no schema child\n%s", where, ch.Name, text)
				return false
			}
			mod := d.Mod
			if mod == "" {
				mod = "mb"
			}
			if mod == "ma" || (n.Mod == "ma" && mod == "mb") {
				foreign++
			}
			if ch.NS != nsOf[mod] {
				o.Failf(sig("namespace"), "%s/%s is in namespace %q, its node is defined by module %s (%s)\n%s", where, ch.Name, ch.NS, mod, nsOf[mod], text)
				return false
			}
			if d.Kind == "container" || d.Kind == "list" {
				if !walk(d, ch, where+"/"+ch.Name) {
					return false
				}
			}
		}
		return true
	}
	if x.NS != "urn:mb" {
		o.Failf(sig("namespace"), "root element <%s> is in namespace %q, want urn:mb\n%s", x.Name, x.NS, text)
		return
	}
	if !walk(root, x, "") {
		return
	}
	if foreign >= 2 {
		o.NonTrivial()
	}
	// and back through the library's reader
	var rn *nodeutil.XmlNode
	var rerr error
	if o.Guard("ReadXMLDoc", func() { rn, rerr = nodeutil.ReadXMLDoc(strings.NewReader(text)) }) {
		return
	}
	if rerr != nil {
		o.Failf(sig("read-error"), "library XML reader rejects the document: %v\n%s", rerr, text)
		return
	}
	back := dm.Tree{}
	if o.Guard("UpsertInto(xml)", func() { rerr = node.NewBrowser(mm, rn).Root().UpsertInto(dm.NewRS(root, back)) }) {
		return
	}
	if rerr != nil {
		o.Failf(sig("export-error"), "export of the re-read XML failed: %v\n%s", rerr, text)
		return
	}
	if d := dm.Diff(root, c.Data, back, dm.DiffOpts{IgnoreEmptyList: true, AllowDefaults: true}, ""); len(d) > 0 {
		o.Failf(sig("roundtrip-"+dm.Clause(d[0])), "reading the document back gives a different tree:\n%s\n%s", joinMax(d, 5), text)
	}
}

var c19Aug = hx.Register(&hx.Check[c19AugCase]{
	Name: "c19-augmenting-modules",
	Rule: "module mb uses a grouping of module ma and applies a random subset of seven augments to it (container, choice as case and in shorthand, case, nested container, list, an augment's own container); generated data written by WriteXMLDoc (compact, pretty) and by the streaming WriteXML: every element is in the namespace of the module defining its node (checked with encoding/xml) and the library's reader reads the document back to the same tree; non-trivial = at least two elements whose module differs from their parent's",
	Gen:  c19AugGen,
	Run:  c19AugRun,
})
