package props

// C09 for cases that hold anydata / anyxml (the generated schemas of c09-histories have none): data of the case that
// goes is removed whatever kind of node holds it.

import (
	"encoding/json"
	"fmt"
	"reflect"
	"sort"
	"strings"

	"github.com/freeconf/yang/node"
	"github.com/freeconf/yang/nodeutil"
	"github.com/freeconf/yang/parser"
	"pgregory.net/rapid"

	"verif/harness/hx"
)

const c09AnyYang = `module gn { namespace "urn:gn"; prefix gn;
 container c {
  leaf before { type string; }
  choice k {
   case a { leaf al { type string; } anydata ab; container ac { leaf v { type string; } } leaf a2 { when "al"; type string; } }
   case b { leaf bl { type string; } anyxml bx; }
   anydata sh;
   case d { leaf dl { type string; } choice inner { case i1 { anydata deep; leaf i1l { type string; } } case i2 { leaf il { type string; } } } }
  }
  leaf after { type string; }
 }
}`

// the nodes of each case, by the path of cases that leads to them
var c09AnyCases = map[string][]string{
	"a":    {"al", "ab", "ac", "a2"},
	"b":    {"bl", "bx"},
	"sh":   {"sh"},
	"d":    {"dl"},
	"d/i1": {"deep", "i1l"},
	"d/i2": {"il"},
}

type c09AnyStep struct {
	Case    string   `json:"case"`  // a | b | sh | d | d/i1 | d/i2
	Nodes   []string `json:"nodes"` // the nodes of that case the upsert writes (one at least)
	How     string   `json:"how"`   // upsert | set (SetValue on a leaf of the case, where it has one)
	dropped bool
}

type c09AnyCase struct {
	Steps []c09AnyStep `json:"steps"`
	Store string       `json:"store"` // reflect-map | node-map | node-hooked (container ac is served by the child hooks of the node)
}

func c09AnyValue(name string, step int) interface{} {
	switch name {
	case "ac":
		return map[string]interface{}{"v": fmt.Sprintf("v%d", step)}
	case "ab", "bx", "sh", "deep":
		return map[string]interface{}{"blob": fmt.Sprintf("%s%d", name, step), "n": []interface{}{"x"}}
	}
	return fmt.Sprintf("%s%d", name, step)
}

var c09Any = hx.Register(&hx.Check[c09AnyCase]{
	Name: "c09-anydata-cases",
	Rule: "a choice whose cases hold leaves (one with a when that reads its sibling), a container, anydata and anyxml nodes (one anydata as a shorthand case, one in a case of a nested choice); 2-6 upserts (or SetValue of a leaf) each writing some nodes of one case into a map-backed Reflect or Node store; after every step the container holds exactly the nodes written since the current case (and nested case) was selected, whatever kind of node held the data of the case that went; non-trivial = a switch away from a case whose anydata / anyxml node held data",
	Gen: func(t *rapid.T) c09AnyCase {
		c := c09AnyCase{Store: rapid.SampledFrom([]string{"reflect-map", "node-map", "node-hooked"}).Draw(t, "store")}
		names := []string{"a", "b", "sh", "d", "d/i1", "d/i2"}
		for i := 0; i < rapid.IntRange(2, 6).Draw(t, "steps"); i++ {
			cs := rapid.SampledFrom(names).Draw(t, "case")
			all := c09AnyCases[cs]
			st := c09AnyStep{Case: cs, How: "upsert"}
			for _, n := range all {
				if rapid.IntRange(0, 2).Draw(t, "write-"+n) > 0 {
					st.Nodes = append(st.Nodes, n)
				}
			}
			if len(st.Nodes) == 0 {
				st.Nodes = []string{all[rapid.IntRange(0, len(all)-1).Draw(t, "one")]}
			}
			if len(st.Nodes) == 1 && strings.HasSuffix(st.Nodes[0], "l") && rapid.IntRange(0, 3).Draw(t, "set") == 0 {
				st.How = "set"
			}
			c.Steps = append(c.Steps, st)
		}
		return c
	},
	Run: func(c c09AnyCase, o *hx.Obs) {
		m, err := parser.LoadModuleFromString(nil, c09AnyYang)
		if err != nil {
			o.Failf("harness|schema-rejected", "%v", err)
			return
		}
		o.Class("store=%s", c.Store)
		store := map[string]interface{}{"c": map[string]interface{}{"before": "b0", "after": "a0"}}
		// node-hooked: the container ac of case a does not live in the map the node reflects on but in a component of
		// its own, served by the node's child hooks
		var hookedAc map[string]interface{}
		mk := func() node.Node {
			switch c.Store {
			case "node-map":
				return &nodeutil.Node{Object: store}
			case "node-hooked":
				cNode := func() node.Node {
					return &nodeutil.Node{
						Object: store["c"],
						OnGetChild: func(n *nodeutil.Node, r node.ChildRequest) (node.Node, error) {
							if r.Meta.Ident() == "ac" {
								if hookedAc == nil {
									return nil, nil
								}
								return &nodeutil.Node{Object: hookedAc}, nil
							}
							return n.DoGetChild(r)
						},
						OnNewChild: func(n *nodeutil.Node, r node.ChildRequest) (node.Node, error) {
							if r.Meta.Ident() == "ac" {
								hookedAc = map[string]interface{}{}
								return &nodeutil.Node{Object: hookedAc}, nil
							}
							return n.DoNewChild(r)
						},
						OnDeleteChild: func(n *nodeutil.Node, r node.ChildRequest) error {
							if r.Meta.Ident() == "ac" {
								hookedAc = nil
								return nil
							}
							return n.DoDeleteChild(r)
						},
					}
				}
				return &nodeutil.Node{Object: store, OnGetChild: func(n *nodeutil.Node, r node.ChildRequest) (node.Node, error) { return cNode(), nil }}
			}
			return nodeutil.ReflectChild(store)
		}
		model := map[string]interface{}{"before": "b0", "after": "a0"}
		top, inner := "", ""
		for i, st := range c.Steps {
			// a2 has a when ("al" has a value): where that is false the write of a2 is not carried out, and a write
			// that is not carried out selects no case either
			if containsStr(st.Nodes, "a2") && !containsStr(st.Nodes, "al") {
				if _, alThere := model["al"]; !alThere || top != "a" {
					var rest []string
					for _, n := range st.Nodes {
						if n != "a2" {
							rest = append(rest, n)
						}
					}
					st.Nodes = rest
					st.dropped = true
				}
			}
			parts := strings.SplitN(st.Case, "/", 2)
			newTop, newInner := parts[0], ""
			if len(parts) > 1 {
				newInner = parts[1]
			}
			hadAny := false
			clear := func(cs string) {
				for _, n := range c09AnyCases[cs] {
					if _, has := model[n]; has && (n == "ab" || n == "bx" || n == "sh" || n == "deep") {
						hadAny = true
					}
					delete(model, n)
				}
			}
			if len(st.Nodes) == 0 {
				newTop, newInner = top, ""
			}
			if top != "" && newTop != top {
				for cs := range c09AnyCases {
					clear(cs)
				}
				inner = ""
			}
			if newTop == "d" && newInner != "" && inner != "" && newInner != inner {
				clear("d/" + inner)
			}
			top = newTop
			if newInner != "" {
				inner = newInner
			}
			if hadAny {
				o.NonTrivial()
				o.Class("a case whose anydata held data goes")
			}
			content := map[string]interface{}{}
			for _, n := range st.Nodes {
				content[n] = c09AnyValue(n, i)
				model[n] = content[n]
			}
			if st.dropped {
				content["a2"] = c09AnyValue("a2", i) // still in the request
			}
			var uerr error
			if o.Guard("edit", func() {
				sel := node.NewBrowser(m, mk()).Root()
				if st.How == "set" {
					ls, e := sel.Find("c/" + st.Nodes[0])
					if e != nil || ls == nil {
						uerr = fmt.Errorf("Find(c/%s): %v", st.Nodes[0], e)
						return
					}
					uerr = ls.SetValue(content[st.Nodes[0]])
					return
				}
				doc, _ := json.Marshal(map[string]interface{}{"c": content})
				src, e := nodeutil.ReadJSON(string(doc))
				if e != nil {
					uerr = e
					return
				}
				uerr = sel.UpsertFrom(src)
			}) {
				return
			}
			if uerr != nil {
				o.Failf("anydata-case|"+c.Store+"|edit-error", "step %d (%s %v of case %s) failed: %v", i, st.How, st.Nodes, st.Case, uerr)
				return
			}
			var text string
			var rerr error
			if o.Guard("read", func() { text, rerr = nodeutil.WriteJSON(node.NewBrowser(m, mk()).Root()) }) {
				return
			}
			if rerr != nil {
				o.Failf("anydata-case|"+c.Store+"|read-error", "read after step %d failed: %v", i, rerr)
				return
			}
			var dec map[string]interface{}
			if e := json.Unmarshal([]byte(text), &dec); e != nil {
				o.Failf("anydata-case|"+c.Store+"|malformed", "%v\n%s", e, text)
				return
			}
			got, _ := dec["c"].(map[string]interface{})
			if !reflect.DeepEqual(got, model) {
				var extra, missing []string
				for k := range got {
					if _, ok := model[k]; !ok {
						extra = append(extra, k)
					}
				}
				for k := range model {
					if _, ok := got[k]; !ok {
						missing = append(missing, k)
					}
				}
				sort.Strings(extra)
				sort.Strings(missing)
				clause := "value"
				if len(extra) > 0 {
					clause = "stale-" + strings.Join(extra, ",")
				} else if len(missing) > 0 {
					clause = "lost-" + strings.Join(missing, ",")
				}
				wb, _ := json.Marshal(model)
				o.Failf("anydata-case|"+c.Store+"|"+clause, "after step %d (%s %v of case %s) the container reads %s, the edits so far leave %s (not there: %v, should not be there: %v); steps %+v", i, st.How, st.Nodes, st.Case, text, wb, missing, extra, c.Steps[:i+1])
				return
			}
		}
	},
})
