package props

import (
	"fmt"

	"pgregory.net/rapid"

	"verif/harness/dm"
	"verif/harness/hx"
)

// C15, "deep nesting": a chain of containers and lists far deeper than any realistic model, written pretty and compact
// from the root and from half way down.

type c15DeepCase struct {
	Kinds  []bool `json:"kinds"` // one per level: true = list (one entry), false = container
	Pretty bool   `json:"pretty"`
	From   int    `json:"from"` // the start selection is this many levels down
}

func c15DeepBuild(c c15DeepCase) c15Case {
	leaf := func(n, b string) *dm.Node { return &dm.Node{Kind: "leaf", Name: n, Type: &dm.Type{Base: b}} }
	var top *dm.Node
	var cur *dm.Node
	data := dm.Tree{}
	curData := data
	var path, start dm.Path
	for i, isList := range c.Kinds {
		name := fmt.Sprintf("n%d", i)
		var n *dm.Node
		next := dm.Tree{"v": fmt.Sprint(i)}
		if isList {
			n = &dm.Node{Kind: "list", Name: name, Keys: []string{"k"}, Children: []*dm.Node{leaf("k", "string"), leaf("v", "int32")}}
			next["k"] = "key"
			curData[name] = []interface{}{next}
			path = append(path, dm.Seg{Name: name, Key: []string{"key"}})
		} else {
			n = &dm.Node{Kind: "container", Name: name, Children: []*dm.Node{leaf("v", "int32")}}
			curData[name] = next
			path = append(path, dm.Seg{Name: name})
		}
		if i+1 == c.From {
			start = append(dm.Path{}, path...)
		}
		if cur == nil {
			top = n
		} else {
			cur.Children = append(cur.Children, n)
		}
		cur, curData = n, next
	}
	return c15Case{Module: &dm.Module{Name: "gm", Top: []*dm.Node{top}}, Data: data, Start: start, Pretty: c.Pretty, FailAt: -1}
}

var c15Deep = hx.Register(&hx.Check[c15DeepCase]{
	Name: "c15-deep-nesting",
	Rule: "a chain of 1-120 nested containers and lists (one entry each), written pretty and compact, from the root and from a level further down, judged like c15-json-writer (well-formed, right names and values, pretty == compact modulo whitespace); non-trivial = 30 levels or more",
	Gen: func(t *rapid.T) c15DeepCase {
		n := rapid.SampledFrom([]int{1, 5, 20, 30, 42, 43, 44, 45, 50, 64, 87, 88, 100, 120}).Draw(t, "levels")
		c := c15DeepCase{Pretty: rapid.Bool().Draw(t, "pretty")}
		lists := rapid.SampledFrom([]int{0, 0, 3, 2}).Draw(t, "every-nth-a-list")
		for i := 0; i < n; i++ {
			c.Kinds = append(c.Kinds, lists > 0 && i%lists == lists-1)
		}
		if rapid.IntRange(0, 3).Draw(t, "from-below") == 0 {
			c.From = rapid.IntRange(1, n).Draw(t, "from")
		}
		return c
	},
	Run: func(c c15DeepCase, o *hx.Obs) {
		o.Class("levels=%d", (len(c.Kinds)/20)*20)
		c15Run(c15DeepBuild(c), o)
		if len(c.Kinds) >= 30 {
			o.NonTrivial()
		}
	},
})
