package props

// C07, depth= on a schema made of a grouping that uses itself (the compiled schema then holds the same definitions at
// every level): "nodes at most N levels below the target".

import (
	"encoding/json"
	"fmt"
	"reflect"
	"strings"

	"github.com/freeconf/yang/node"
	"github.com/freeconf/yang/nodeutil"
	"github.com/freeconf/yang/parser"
	"pgregory.net/rapid"

	"verif/harness/hx"
)

const c07RecYang = `module gr { namespace "urn:gr"; prefix gr;
 grouping tree { leaf name { type string; } container child { uses tree; } list kids { key name; uses tree; } }
 container top { uses tree; } }`

type c07RecCase struct {
	// Shape of the data below top: a word over c (a child container) and k (a kids list with two entries, the walk goes
	// on in the first), e.g. "ckc"
	Shape  string `json:"shape"`
	Target string `json:"target"` // how many steps of Shape the target of the read lies below top
	Steps  int    `json:"steps"`
	Depth  int    `json:"depth"`
}

// build the data for a shape, and the expected projection to depth d (levels below the node the map stands for; a list
// and its entries are one level)
func c07RecData(shape string, level int) map[string]interface{} {
	m := map[string]interface{}{"name": fmt.Sprintf("n%d", level)}
	if shape == "" {
		return m
	}
	sub := c07RecData(shape[1:], level+1)
	if shape[0] == 'c' {
		m["child"] = sub
	} else {
		m["kids"] = []interface{}{sub, map[string]interface{}{"name": fmt.Sprintf("other%d", level+1)}}
	}
	return m
}

func c07RecProject(v map[string]interface{}, depth int) map[string]interface{} {
	out := map[string]interface{}{}
	for k, x := range v {
		switch y := x.(type) {
		case map[string]interface{}:
			if depth > 1 {
				out[k] = c07RecProject(y, depth-1)
			}
		case []interface{}:
			if depth > 1 {
				var l []interface{}
				for _, e := range y {
					l = append(l, c07RecProject(e.(map[string]interface{}), depth-1))
				}
				out[k] = l
			}
		default:
			out[k] = x
		}
	}
	return out
}

var c07Rec = hx.Register(&hx.Check[c07RecCase]{
	Name: "c07-depth-recursive-schema",
	Rule: "a schema whose one grouping uses itself through a container and through a list, data 1-5 levels deep along a random word over {container, list}, read with depth=1..4 from top or from a node 0-3 steps below it: the answer is the data cut off N levels below the target (a list and its entries are one level), the same definitions recurring at every level notwithstanding; non-trivial = data deeper than the cut",
	Gen: func(t *rapid.T) c07RecCase {
		n := rapid.IntRange(1, 5).Draw(t, "levels")
		var b strings.Builder
		for i := 0; i < n; i++ {
			b.WriteString(rapid.SampledFrom([]string{"c", "k"}).Draw(t, "step"))
		}
		return c07RecCase{Shape: b.String(), Steps: rapid.IntRange(0, min(3, n)).Draw(t, "target"), Depth: rapid.IntRange(1, 4).Draw(t, "depth")}
	},
	Run: func(c c07RecCase, o *hx.Obs) {
		m, err := parser.LoadModuleFromString(nil, c07RecYang)
		if err != nil {
			o.Failf("harness|schema-rejected", "%v", err)
			return
		}
		top := c07RecData(c.Shape, 0)
		if c.Steps > len(c.Shape) {
			return
		}
		path, cur := "top", top
		for i := 0; i < c.Steps; i++ {
			if c.Shape[i] == 'c' {
				path += "/child"
				cur = cur["child"].(map[string]interface{})
			} else {
				path += fmt.Sprintf("/kids=n%d", i+1)
				cur = cur["kids"].([]interface{})[0].(map[string]interface{})
			}
		}
		if len(c.Shape)-c.Steps >= c.Depth {
			o.NonTrivial()
		}
		o.Class("depth=%d", c.Depth)
		o.Class("target %d steps below top", c.Steps)
		want := c07RecProject(cur, c.Depth)
		var text string
		var rerr error
		if o.Guard("read", func() {
			sel, e := node.NewBrowser(m, nodeutil.ReflectChild(map[string]interface{}{"top": top})).Root().Find(fmt.Sprintf("%s?depth=%d", path, c.Depth))
			if e != nil || sel == nil {
				rerr = fmt.Errorf("Find: sel=%v err=%v", sel != nil, e)
				return
			}
			text, rerr = nodeutil.WriteJSON(sel)
		}) {
			return
		}
		if rerr != nil {
			o.Failf("depth-recursive|error", "read of %s with depth=%d failed: %v", path, c.Depth, rerr)
			return
		}
		var got map[string]interface{}
		if e := json.Unmarshal([]byte(text), &got); e != nil {
			o.Failf("depth-recursive|malformed", "%v\n%s", e, text)
			return
		}
		// a list or container cut off is left out or shown empty: both readings of "at most N levels" are accepted
		var strip func(v interface{}) interface{}
		strip = func(v interface{}) interface{} {
			switch x := v.(type) {
			case map[string]interface{}:
				out := map[string]interface{}{}
				for k, e := range x {
					s := strip(e)
					if mm, ok := s.(map[string]interface{}); ok && len(mm) == 0 {
						continue
					}
					if l, ok := s.([]interface{}); ok && len(l) == 0 {
						continue
					}
					out[k] = s
				}
				return out
			case []interface{}:
				var out []interface{}
				for _, e := range x {
					if s := strip(e); len(s.(map[string]interface{})) > 0 {
						out = append(out, s)
					}
				}
				if out == nil {
					return []interface{}{}
				}
				return out
			}
			return v
		}
		if g, w := strip(got), strip(want); !reflect.DeepEqual(g, w) {
			wb, _ := json.Marshal(w)
			o.Failf("depth-recursive|differs", "%s?depth=%d over data of shape %q gives %s, the data cut off %d levels below the target is %s", path, c.Depth, c.Shape, text, c.Depth, wb)
		}
	},
})
