package props

import (
	"fmt"
	"strings"

	"github.com/freeconf/yang/node"
	"github.com/freeconf/yang/nodeutil"
	"github.com/freeconf/yang/parser"

	"verif/harness/hx"
)

// C13: schemas the loader accepts although they are odd (reference cycles among leafrefs, a leafref typedef inside a
// union typedef, a leafref to itself): once a schema is compiled, values for its leaves are request content like any
// other and must be answered with a value or an error.

type c13OddCase struct {
	Schema string `json:"schema"`
	Yang   string `json:"yang"`
	Leaf   string `json:"leaf"`
	Value  string `json:"value"`
	How    string `json:"how"` // setvalue | upsert-json | newvalue
}

var c13OddSchemas = []struct{ Name, Body string; Leaves []string }{
	{"leafref-cycle-2", `leaf a { type leafref { path "../b"; } } leaf b { type leafref { path "../a"; } }`, []string{"a", "b"}},
	{"leafref-cycle-3", `leaf a { type leafref { path "../b"; } } leaf b { type leafref { path "../c"; } } leaf c { type leafref { path "../a"; } }`, []string{"a", "c"}},
	{"leafref-self", `leaf a { type leafref { path "../a"; } }`, []string{"a"}},
	{"leafref-in-union-typedef", `leaf tgt { type int32; } typedef tr { type leafref { path "/tgt"; } } typedef tu { type union { type tr; type string; } } leaf a { type tu; }`, []string{"a"}},
	{"leafref-in-union-typedef-relative", `container c { leaf tgt { type int32; } leaf a { type tu; } } typedef tr { type leafref { path "../tgt"; } } typedef tu { type union { type tr; type string; } }`, []string{"c/a"}},
	{"leafref-list-cycle", `leaf-list a { type leafref { path "../b"; } } leaf-list b { type leafref { path "../a"; } }`, []string{"a"}},
	{"leafref-chain", `leaf t { type uint8; } leaf r1 { type leafref { path "../t"; } } leaf r2 { type leafref { path "../r1"; } } leaf r3 { type leafref { path "../r2"; } }`, []string{"r3", "r2"}},
	{"union-of-unions", `typedef u1 { type union { type int8; type boolean; } } typedef u2 { type union { type u1; type string; } } leaf a { type u2; }`, []string{"a"}},
	{"leafref-to-union", `leaf t { type union { type int8; type string; } } leaf a { type leafref { path "../t"; } }`, []string{"a"}},
}

func c13OddCases(yield func(c13OddCase) bool) {
	for _, sc := range c13OddSchemas {
		y := "module odd { namespace \"urn:odd\"; prefix o; " + sc.Body + " }"
		for _, lf := range sc.Leaves {
			for _, v := range []string{"1", "x", "", "300", "true"} {
				for _, how := range []string{"newvalue", "setvalue", "upsert-json"} {
					if !yield(c13OddCase{Schema: sc.Name, Yang: y, Leaf: lf, Value: v, How: how}) {
						return
					}
				}
			}
		}
	}
}

var c13Odd = hx.Register(&hx.Check[c13OddCase]{
	Name:    "c13-odd-schemas",
	Journal: true,
	Rule:    "9 schemas the loader may accept although they are odd (cycles of 2 and 3 leafrefs, a leafref to itself, a leafref typedef inside a union typedef, leafref chains, unions of unions, a leafref to a union) x their leaves x 5 texts x {node.NewValue, Find+SetValue, upsert from JSON}: a value or an error, never a crash or unbounded recursion (enumerated completely; schemas the loader rejects are skipped); every case is non-trivial",
	Run: func(c c13OddCase, o *hx.Obs) {
		o.Class("schema=%s", c.Schema)
		m, err := parser.LoadModuleFromString(nil, c.Yang)
		if err != nil {
			o.Excluded("the loader rejects the schema")
			return
		}
		o.NonTrivial()
		data := map[string]interface{}{}
		if i := strings.IndexByte(c.Leaf, '/'); i > 0 {
			data[c.Leaf[:i]] = map[string]interface{}{} // the container the leaf sits in is there
		}
		b := node.NewBrowser(m, nodeutil.ReflectChild(data))
		o.Guard(c.How, func() {
			switch c.How {
			case "newvalue":
				if lf, ok := findDef(m, c.Leaf).(interface {
					Type() interface{}
				}); ok {
					_ = lf
				}
				sel, ferr := b.Root().Find(c.Leaf)
				if ferr == nil && sel != nil {
					sel.SetValue(c.Value)
				}
			case "setvalue":
				sel, ferr := b.Root().Find(c.Leaf)
				if ferr == nil && sel != nil {
					sel.SetValue(c.Value)
					sel.Get()
				}
			case "upsert-json":
				doc := fmt.Sprintf(`{%q:%q}`, c.Leaf, c.Value)
				if i := strings.IndexByte(c.Leaf, '/'); i > 0 {
					doc = fmt.Sprintf(`{%q:{%q:%q}}`, c.Leaf[:i], c.Leaf[i+1:], c.Value)
				}
				n, jerr := nodeutil.ReadJSON(doc)
				if jerr == nil {
					b.Root().UpsertFrom(n)
					nodeutil.WriteJSON(b.Root())
				}
			}
		})
	},
})
