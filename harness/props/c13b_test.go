package props

import (
	"fmt"
	"strings"

	"github.com/freeconf/yang/node"
	"github.com/freeconf/yang/nodeutil"
	"github.com/freeconf/yang/parser"
	"pgregory.net/rapid"

	"verif/harness/hx"
)

// C13: schemas the loader accepts although they are odd (reference cycles among leafrefs, a leafref typedef inside a
// union typedef, a leafref to itself): once a schema is compiled, values for its leaves are request content like any
// other and must be answered with a value or an error.

type c13OddCase struct {
	Schema string `json:"schema"`
	Yang   string `json:"yang"`
	Leaf   string `json:"leaf"`
	Value  string `json:"value"`
	How    string `json:"how"` // setvalue | upsert-json | newvalue
}

var c13OddSchemas = []struct {
	Name, Body string
	Leaves     []string
}{
	{"leafref-cycle-2", `leaf a { type leafref { path "../b"; } } leaf b { type leafref { path "../a"; } }`, []string{"a", "b"}},
	{"leafref-cycle-3", `leaf a { type leafref { path "../b"; } } leaf b { type leafref { path "../c"; } } leaf c { type leafref { path "../a"; } }`, []string{"a", "c"}},
	{"leafref-self", `leaf a { type leafref { path "../a"; } }`, []string{"a"}},
	{"leafref-in-union-typedef", `leaf tgt { type int32; } typedef tr { type leafref { path "/tgt"; } } typedef tu { type union { type tr; type string; } } leaf a { type tu; }`, []string{"a"}},
	{"leafref-in-union-typedef-relative", `container c { leaf tgt { type int32; } leaf a { type tu; } } typedef tr { type leafref { path "../tgt"; } } typedef tu { type union { type tr; type string; } }`, []string{"c/a"}},
	{"leafref-list-cycle", `leaf-list a { type leafref { path "../b"; } } leaf-list b { type leafref { path "../a"; } }`, []string{"a"}},
	{"leafref-chain", `leaf t { type uint8; } leaf r1 { type leafref { path "../t"; } } leaf r2 { type leafref { path "../r1"; } } leaf r3 { type leafref { path "../r2"; } }`, []string{"r3", "r2"}},
	{"union-of-unions", `typedef u1 { type union { type int8; type boolean; } } typedef u2 { type union { type u1; type string; } } leaf a { type u2; }`, []string{"a"}},
	{"leafref-to-union", `leaf t { type union { type int8; type string; } } leaf a { type leafref { path "../t"; } }`, []string{"a"}},
}

func c13OddCases(yield func(c13OddCase) bool) {
	for _, sc := range c13OddSchemas {
		y := "module odd { namespace \"urn:odd\"; prefix o; " + sc.Body + " }"
		for _, lf := range sc.Leaves {
			for _, v := range []string{"1", "x", "", "300", "true"} {
				for _, how := range []string{"newvalue", "setvalue", "upsert-json"} {
					if !yield(c13OddCase{Schema: sc.Name, Yang: y, Leaf: lf, Value: v, How: how}) {
						return
					}
				}
			}
		}
	}
}

var c13Odd = hx.Register(&hx.Check[c13OddCase]{
	Name:    "c13-odd-schemas",
	Journal: true,
	Rule:    "9 schemas the loader may accept although they are odd (cycles of 2 and 3 leafrefs, a leafref to itself, a leafref typedef inside a union typedef, leafref chains, unions of unions, a leafref to a union) x their leaves x 5 texts x {node.NewValue, Find+SetValue, upsert from JSON}: a value or an error, never a crash or unbounded recursion (enumerated completely; schemas the loader rejects are skipped); every case is non-trivial",
	Run: func(c c13OddCase, o *hx.Obs) {
		o.Class("schema=%s", c.Schema)
		m, err := parser.LoadModuleFromString(nil, c.Yang)
		if err != nil {
			o.Excluded("the loader rejects the schema")
			return
		}
		o.NonTrivial()
		data := map[string]interface{}{}
		if i := strings.IndexByte(c.Leaf, '/'); i > 0 {
			data[c.Leaf[:i]] = map[string]interface{}{} // the container the leaf sits in is there
		}
		b := node.NewBrowser(m, nodeutil.ReflectChild(data))
		o.Guard(c.How, func() {
			switch c.How {
			case "newvalue":
				if lf, ok := findDef(m, c.Leaf).(interface {
					Type() interface{}
				}); ok {
					_ = lf
				}
				sel, ferr := b.Root().Find(c.Leaf)
				if ferr == nil && sel != nil {
					sel.SetValue(c.Value)
				}
			case "setvalue":
				sel, ferr := b.Root().Find(c.Leaf)
				if ferr == nil && sel != nil {
					sel.SetValue(c.Value)
					sel.Get()
				}
			case "upsert-json":
				doc := fmt.Sprintf(`{%q:%q}`, c.Leaf, c.Value)
				if i := strings.IndexByte(c.Leaf, '/'); i > 0 {
					doc = fmt.Sprintf(`{%q:{%q:%q}}`, c.Leaf[:i], c.Leaf[i+1:], c.Value)
				}
				n, jerr := nodeutil.ReadJSON(doc)
				if jerr == nil {
					b.Root().UpsertFrom(n)
					nodeutil.WriteJSON(b.Root())
				}
			}
		})
	},
})

// ---- lists keyed by the less common types, made by edits in stores the library fills itself --------------------

type c13KeyCase struct {
	KeyType string   `json:"keyType"` // the type statement of the key leaf
	Keys    []string `json:"keys"`    // JSON texts of the key values of the entries written
	Store   string   `json:"store"`   // reflect-map | node-map
	Lookup  string   `json:"lookup"`  // the key text given to Find (URL form)
}

var c13KeyTypes = []struct {
	Name, Type string
	JSON       []string // key values as JSON
	URL        []string // the same as path text
}{
	{"binary", "binary", []string{`"AAEC"`, `"aGk="`}, []string{"AAEC", "aGk%3D"}},
	{"union-binary", "union { type binary; type int32; }", []string{`"AAEC"`, `7`}, []string{"AAEC", "7"}},
	{"bits", "bits { bit x; bit y; }", []string{`"x y"`, `"y"`}, []string{"x%20y", "y"}},
	{"decimal64", "decimal64 { fraction-digits 2; }", []string{`"1.50"`, `"2.25"`}, []string{"1.50", "2.25"}},
	{"boolean", "boolean", []string{`true`, `false`}, []string{"true", "false"}},
	{"enumeration", "enumeration { enum one; enum two; }", []string{`"one"`, `"two"`}, []string{"one", "two"}},
	{"identityref", "identityref { base idb; }", []string{`"ida"`, `"idc"`}, []string{"ida", "idc"}},
	{"uint64", "uint64", []string{`"18446744073709551615"`, `"0"`}, []string{"18446744073709551615", "0"}},
	{"string-list-like", "string", []string{`"[1 2]"`, `""`}, []string{"%5B1%202%5D", ""}},
}

var c13Keys = hx.Register(&hx.Check[c13KeyCase]{
	Name:    "c13-odd-keys",
	Journal: true,
	Rule:    "a list keyed by a binary, a union with a binary member, bits, decimal64, boolean, enumeration, identityref, uint64 or an odd string, in an empty map-backed Reflect or Node store: two entries are upserted from JSON, looked up by key (present and absent), one is deleted and the store is read: a result or an error at every step, never a crash; when the upsert succeeds both entries are found; every case is non-trivial",
	Gen: func(t *rapid.T) c13KeyCase {
		kt := c13KeyTypes[rapid.IntRange(0, len(c13KeyTypes)-1).Draw(t, "keytype")]
		return c13KeyCase{KeyType: kt.Name, Keys: kt.JSON, Store: rapid.SampledFrom([]string{"reflect-map", "node-map"}).Draw(t, "store"),
			Lookup: rapid.SampledFrom(append(append([]string{}, kt.URL...), "nope", "", "%00")).Draw(t, "lookup")}
	},
	Run: func(c c13KeyCase, o *hx.Obs) {
		o.NonTrivial()
		o.Class("key=%s", c.KeyType)
		o.Class("store=%s", c.Store)
		var kt struct {
			Name, Type string
			JSON       []string
			URL        []string
		}
		for _, k := range c13KeyTypes {
			if k.Name == c.KeyType {
				kt = k
			}
		}
		if kt.Name == "" {
			return
		}
		y := "module odd { namespace \"urn:odd\"; prefix o; identity idb; identity ida { base idb; } identity idc { base idb; } list l { key k; leaf k { type " + kt.Type + map[bool]string{true: "", false: ";"}[strings.HasSuffix(kt.Type, "}")] + " } leaf v { type string; } } }"
		m, err := parser.LoadModuleFromString(nil, y)
		if err != nil {
			o.Failf("harness|schema-rejected", "%v\n%s", err, y)
			return
		}
		data := map[string]interface{}{}
		mk := func() node.Node {
			if c.Store == "node-map" {
				return &nodeutil.Node{Object: data}
			}
			return nodeutil.ReflectChild(data)
		}
		var uerr error
		if o.Guard("upsert", func() {
			doc := fmt.Sprintf(`{"l":[{"k":%s,"v":"first"},{"k":%s,"v":"second"}]}`, c.Keys[0], c.Keys[1])
			n, jerr := nodeutil.ReadJSON(doc)
			if jerr != nil {
				uerr = jerr
				return
			}
			uerr = node.NewBrowser(m, mk()).Root().UpsertFrom(n)
		}) {
			return
		}
		if uerr != nil {
			o.Class("upsert=error")
		}
		for i, u := range kt.URL {
			var sel *node.Selection
			var ferr error
			if o.Guard("Find(present)", func() { sel, ferr = node.NewBrowser(m, mk()).Root().Find("l=" + u) }) {
				return
			}
			if uerr == nil && (ferr != nil || sel == nil) {
				o.Failf("odd-key|"+c.KeyType+"|"+c.Store+"|missed", "after an upsert that succeeded Find(l=%s) for entry %d gives sel=%v err=%v; store %v", u, i, sel != nil, ferr, data)
				return
			}
		}
		if o.Guard("Find(lookup)", func() { node.NewBrowser(m, mk()).Root().Find("l=" + c.Lookup) }) {
			return
		}
		if o.Guard("delete", func() {
			if sel, ferr := node.NewBrowser(m, mk()).Root().Find("l=" + kt.URL[0]); ferr == nil && sel != nil {
				sel.Delete()
			}
		}) {
			return
		}
		o.Guard("read", func() { nodeutil.WriteJSON(node.NewBrowser(m, mk()).Root()) })
	},
})
