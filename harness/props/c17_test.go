package props

import (
	"bytes"
	"fmt"
	"math"
	"math/big"
	"strings"
	"testing"

	"github.com/freeconf/yang/val"
	"pgregory.net/rapid"

	"verif/harness/hx"
)

// ---- C17: typed values are totally ordered -------------------------------

type intType struct {
	name     string
	min, max *big.Int
	mk       func(*big.Int) val.Value
}

func bi(s string) *big.Int {
	v, ok := new(big.Int).SetString(s, 10)
	if !ok {
		panic("bad int " + s)
	}
	return v
}

var intTypes = []intType{
	{"int8", bi("-128"), bi("127"), func(b *big.Int) val.Value { return val.Int8(int8(b.Int64())) }},
	{"int16", bi("-32768"), bi("32767"), func(b *big.Int) val.Value { return val.Int16(int16(b.Int64())) }},
	{"int32", bi("-2147483648"), bi("2147483647"), func(b *big.Int) val.Value { return val.Int32(int32(b.Int64())) }},
	{"int64", bi("-9223372036854775808"), bi("9223372036854775807"), func(b *big.Int) val.Value { return val.Int64(b.Int64()) }},
	{"uint8", bi("0"), bi("255"), func(b *big.Int) val.Value { return val.UInt8(uint8(b.Uint64())) }},
	{"uint16", bi("0"), bi("65535"), func(b *big.Int) val.Value { return val.UInt16(uint16(b.Uint64())) }},
	{"uint32", bi("0"), bi("4294967295"), func(b *big.Int) val.Value { return val.UInt32(uint32(b.Uint64())) }},
	{"uint64", bi("0"), bi("18446744073709551615"), func(b *big.Int) val.Value { return val.UInt64(uint(b.Uint64())) }},
}

func intTypeByName(n string) *intType {
	for i := range intTypes {
		if intTypes[i].name == n {
			return &intTypes[i]
		}
	}
	return nil
}

// boundary set of an integer type: extremes, neighbours, 0, +-1, midpoints, powers of two
func (it *intType) boundaries() []*big.Int {
	var out []*big.Int
	add := func(b *big.Int) {
		if b.Cmp(it.min) >= 0 && b.Cmp(it.max) <= 0 {
			out = append(out, b)
		}
	}
	one := big.NewInt(1)
	for _, b := range []*big.Int{it.min, it.max, big.NewInt(0)} {
		add(b)
		add(new(big.Int).Add(b, one))
		add(new(big.Int).Sub(b, one))
		add(new(big.Int).Add(b, big.NewInt(2)))
		add(new(big.Int).Sub(b, big.NewInt(2)))
	}
	mid := new(big.Int).Add(it.min, it.max)
	mid.Div(mid, big.NewInt(2))
	add(mid)
	add(new(big.Int).Add(mid, one))
	for _, sh := range []uint{7, 8, 15, 16, 31, 32, 53, 62, 63} {
		p := new(big.Int).Lsh(one, sh)
		add(p)
		add(new(big.Int).Sub(p, one))
		add(new(big.Int).Add(p, one))
		add(new(big.Int).Neg(p))
		add(new(big.Int).Neg(new(big.Int).Sub(p, one)))
		add(new(big.Int).Neg(new(big.Int).Add(p, one)))
	}
	return out
}

func genInType(t *rapid.T, it *intType, label string) *big.Int {
	bs := it.boundaries()
	if rapid.IntRange(0, 9).Draw(t, label+"-how") < 7 {
		return bs[rapid.IntRange(0, len(bs)-1).Draw(t, label+"-b")]
	}
	// uniform over the range
	span := new(big.Int).Sub(it.max, it.min)
	hi := rapid.Uint64().Draw(t, label+"-hi")
	v := new(big.Int).SetUint64(hi)
	v.Mod(v, new(big.Int).Add(span, big.NewInt(1)))
	return v.Add(v, it.min)
}

func sign(i int) int {
	switch {
	case i < 0:
		return -1
	case i > 0:
		return 1
	}
	return 0
}

type c17IntCase struct {
	Type    string `json:"type"`
	A, B, C string
}

func c17CheckTriple(o *hx.Obs, typ string, va, vb, vc val.Value, wab, wbc, wac int, desc string) {
	ca, cb, cc := va.(val.Comparable), vb.(val.Comparable), vc.(val.Comparable)
	var ab, ba, bc, ac, aa int
	if o.Guard("Compare", func() {
		ab, ba, bc, ac, aa = ca.Compare(cb), cb.Compare(ca), cb.Compare(cc), ca.Compare(cc), ca.Compare(ca)
	}) {
		return
	}
	if sign(ab) != wab {
		o.Failf("order|"+typ+"|sign", "%s: Compare(a,b)=%d want sign %d", desc, ab, wab)
	}
	if sign(bc) != wbc {
		o.Failf("order|"+typ+"|sign", "%s: Compare(b,c)=%d want sign %d", desc, bc, wbc)
	}
	if sign(ac) != wac {
		o.Failf("order|"+typ+"|sign", "%s: Compare(a,c)=%d want sign %d", desc, ac, wac)
	}
	if aa != 0 {
		o.Failf("order|"+typ+"|reflexive", "%s: Compare(a,a)=%d", desc, aa)
	}
	if sign(ab) != -sign(ba) {
		o.Failf("order|"+typ+"|antisym", "%s: Compare(a,b)=%d Compare(b,a)=%d", desc, ab, ba)
	}
	if sign(ab) <= 0 && sign(bc) <= 0 && sign(ac) > 0 {
		o.Failf("order|"+typ+"|trans", "%s: a<=b<=c but Compare(a,c)=%d", desc, ac)
	}
	var eab, eba, eaa bool
	if o.Guard("Equal", func() { eab, eba, eaa = val.Equal(va, vb), val.Equal(vb, va), val.Equal(va, va) }) {
		return
	}
	if eab != (wab == 0) || eba != eab || !eaa {
		o.Failf("order|"+typ+"|equal", "%s: Equal(a,b)=%v Equal(b,a)=%v Equal(a,a)=%v want %v", desc, eab, eba, eaa, wab == 0)
	}
	if eab != (ab == 0) {
		o.Failf("order|"+typ+"|eq-consistency", "%s: Equal=%v but Compare=%d", desc, eab, ab)
	}
}

func straddles(it *intType, a, b *big.Int) bool {
	// the pair straddles zero, or its exact difference is not representable in the type
	d := new(big.Int).Sub(a, b)
	if d.Cmp(it.min) < 0 || d.Cmp(it.max) > 0 {
		return true
	}
	return a.Sign() != b.Sign()
}

var c17Int = hx.Register(&hx.Check[c17IntCase]{
	Name: "c17-int-order",
	Rule: "triples (a,b,c) of one integer type drawn 70% from the boundary set (min,max,0,+-1,+-2 neighbours, midpoints, +-2^k+-1) and 30% uniformly; non-trivial = (a,b) differ in sign or their exact difference is not representable in the type",
	Gen: func(t *rapid.T) c17IntCase {
		it := &intTypes[rapid.IntRange(0, len(intTypes)-1).Draw(t, "type")]
		return c17IntCase{it.name, genInType(t, it, "a").String(), genInType(t, it, "b").String(), genInType(t, it, "c").String()}
	},
	Run: func(c c17IntCase, o *hx.Obs) {
		it := intTypeByName(c.Type)
		a, b, cc := bi(c.A), bi(c.B), bi(c.C)
		o.Class("type=%s", c.Type)
		if straddles(it, a, b) {
			o.NonTrivial()
			o.Class("straddle")
		}
		c17CheckTriple(o, c.Type, it.mk(a), it.mk(b), it.mk(cc), a.Cmp(b), b.Cmp(cc), a.Cmp(cc), fmt.Sprintf("%s a=%s b=%s c=%s", c.Type, c.A, c.B, c.C))
	},
})

type c17PairCase struct {
	Type string `json:"type"`
	A, B int
}

var c17Int8Pairs = hx.Register(&hx.Check[c17PairCase]{
	Name: "c17-8bit-pairs",
	Rule: "every ordered pair of int8 values and of uint8 values (2 x 65536, exhaustive); non-trivial = pair differs in sign or difference not representable",
	Run: func(c c17PairCase, o *hx.Obs) {
		it := intTypeByName(c.Type)
		a, b := big.NewInt(int64(c.A)), big.NewInt(int64(c.B))
		if straddles(it, a, b) {
			o.NonTrivial()
		}
		c17CheckTriple(o, c.Type, it.mk(a), it.mk(b), it.mk(b), a.Cmp(b), 0, a.Cmp(b), fmt.Sprintf("%s a=%d b=%d", c.Type, c.A, c.B))
	},
})

type c17TripleCase struct {
	Type    string `json:"type"`
	A, B, C int
}

var c17Int8Triples = hx.Register(&hx.Check[c17TripleCase]{
	Name: "c17-8bit-triples",
	Rule: "every ordered triple of int8 values and of uint8 values (2 x 2^24, exhaustive, thorough tier); non-trivial = a pair differs in sign or difference not representable",
	Run: func(c c17TripleCase, o *hx.Obs) {
		it := intTypeByName(c.Type)
		a, b, cc := big.NewInt(int64(c.A)), big.NewInt(int64(c.B)), big.NewInt(int64(c.C))
		if straddles(it, a, b) || straddles(it, b, cc) {
			o.NonTrivial()
		}
		c17CheckTriple(o, c.Type, it.mk(a), it.mk(b), it.mk(cc), a.Cmp(b), b.Cmp(cc), a.Cmp(cc), fmt.Sprintf("%s a=%d b=%d c=%d", c.Type, c.A, c.B, c.C))
	},
})

// ---- other comparable formats ---------------------------------------------

type c17OtherCase struct {
	Type    string `json:"type"`
	A, B, C string
}

var decBoundary = []float64{0, math.Copysign(0, -1), 1, -1, 0.1, -0.1, 0.5, 1.5, -1.5, 1e-9, -1e-9, 99.99, 100, 100.01,
	9223372036854775807, -9223372036854775808, 92233720368547758.07, -92233720368547758.08, 1e15, -1e15, 123456789.123456, 3.14159}

var strBoundary = []string{"", "a", "b", "A", "aa", "ab", "a ", " a", "é", "z", "ÿ", "\U0001F600", "0", "10", "9", "~", "a\x00", "a\x00b"}

func genOther(t *rapid.T, typ string, label string) string {
	switch typ {
	case "decimal64":
		if rapid.Bool().Draw(t, label+"-bd") {
			return fmt.Sprintf("%v", decBoundary[rapid.IntRange(0, len(decBoundary)-1).Draw(t, label)])
		}
		m := rapid.Int64Range(-999999999999999, 999999999999999).Draw(t, label+"-m")
		fd := rapid.IntRange(0, 6).Draw(t, label+"-fd")
		r := new(big.Rat).SetFrac(big.NewInt(m), new(big.Int).Exp(big.NewInt(10), big.NewInt(int64(fd)), nil))
		f, _ := r.Float64()
		return fmt.Sprintf("%v", f)
	case "bool":
		if rapid.Bool().Draw(t, label) {
			return "true"
		}
		return "false"
	case "enum":
		return fmt.Sprintf("%d", rapid.SampledFrom([]int{0, 1, 2, 3, -1, -2, 10, 100, math.MaxInt32, math.MinInt32}).Draw(t, label))
	default: // string, identityref, binary
		if rapid.Bool().Draw(t, label+"-bd") {
			return strBoundary[rapid.IntRange(0, len(strBoundary)-1).Draw(t, label)]
		}
		return rapid.StringN(0, 4, 8).Draw(t, label)
	}
}

func mkOther(typ, s string) (val.Value, error) {
	switch typ {
	case "decimal64":
		var f float64
		if _, err := fmt.Sscanf(s, "%g", &f); err != nil {
			return nil, err
		}
		return val.Decimal64(f), nil
	case "bool":
		return val.Bool(s == "true"), nil
	case "enum":
		var id int
		fmt.Sscanf(s, "%d", &id)
		return val.Enum{Id: id, Label: "e" + s}, nil
	case "string":
		return val.String(s), nil
	case "identityref":
		return val.IdentRef{Label: s}, nil
	case "binary":
		return val.Binary([]byte(s)), nil
	}
	return nil, fmt.Errorf("type %s", typ)
}

func cmpOther(typ, a, b string) int {
	switch typ {
	case "decimal64":
		var x, y float64
		fmt.Sscanf(a, "%g", &x)
		fmt.Sscanf(b, "%g", &y)
		rx, ry := new(big.Rat), new(big.Rat)
		rx.SetFloat64(x)
		ry.SetFloat64(y)
		return rx.Cmp(ry)
	case "bool":
		x, y := 0, 0
		if a == "true" {
			x = 1
		}
		if b == "true" {
			y = 1
		}
		return sign(x - y)
	case "enum":
		var x, y int64
		fmt.Sscanf(a, "%d", &x)
		fmt.Sscanf(b, "%d", &y)
		return big.NewInt(x).Cmp(big.NewInt(y))
	case "binary":
		return bytes.Compare([]byte(a), []byte(b))
	}
	return strings.Compare(a, b)
}

var otherTypes = []string{"decimal64", "bool", "enum", "string", "identityref", "binary"}

var c17Other = hx.Register(&hx.Check[c17OtherCase]{
	Name: "c17-other-order",
	Rule: "triples of decimal64 / boolean / enum (by value) / string / identity name / binary values, half from boundary sets; non-trivial = a and b differ",
	Gen: func(t *rapid.T) c17OtherCase {
		typ := rapid.SampledFrom(otherTypes).Draw(t, "type")
		return c17OtherCase{typ, genOther(t, typ, "a"), genOther(t, typ, "b"), genOther(t, typ, "c")}
	},
	Run: func(c c17OtherCase, o *hx.Obs) {
		o.Class("type=%s", c.Type)
		va, e1 := mkOther(c.Type, c.A)
		vb, e2 := mkOther(c.Type, c.B)
		vc, e3 := mkOther(c.Type, c.C)
		if e1 != nil || e2 != nil || e3 != nil {
			return
		}
		wab := cmpOther(c.Type, c.A, c.B)
		if wab != 0 {
			o.NonTrivial()
		}
		c17CheckTriple(o, c.Type, va, vb, vc, wab, cmpOther(c.Type, c.B, c.C), cmpOther(c.Type, c.A, c.C), fmt.Sprintf("%s a=%q b=%q c=%q", c.Type, c.A, c.B, c.C))
	},
})

// ---- key tuples -------------------------------------------------------------

type c17TupleCase struct {
	Types  []string `json:"types"`
	A      []string `json:"a"`
	B      []string `json:"b"`
	Short  int      `json:"short,omitempty"`
	ShortA bool     `json:"shortA,omitempty"`
}

func mkAny(typ, s string) val.Value {
	if it := intTypeByName(typ); it != nil {
		return it.mk(bi(s))
	}
	v, _ := mkOther(typ, s)
	return v
}

func cmpAny(typ, a, b string) int {
	if intTypeByName(typ) != nil {
		return bi(a).Cmp(bi(b))
	}
	return cmpOther(typ, a, b)
}

var c17Tuple = hx.Register(&hx.Check[c17TupleCase]{
	Name: "c17-key-tuples",
	Rule: "pairs of key tuples (1-4 components, mixed integer/string/bool/enum types) where each component of b is a copy of a's with probability 1/2; oracle = lexicographic comparison; non-trivial = first difference is not in the first component, or components straddle a boundary",
	Gen: func(t *rapid.T) c17TupleCase {
		n := rapid.IntRange(1, 4).Draw(t, "n")
		var c c17TupleCase
		for i := 0; i < n; i++ {
			var typ string
			if rapid.Bool().Draw(t, "isint") {
				typ = intTypes[rapid.IntRange(0, len(intTypes)-1).Draw(t, "it")].name
			} else {
				typ = rapid.SampledFrom([]string{"string", "bool", "enum", "identityref", "decimal64"}).Draw(t, "ot")
			}
			gen := func(l string) string {
				if it := intTypeByName(typ); it != nil {
					return genInType(t, it, l).String()
				}
				return genOther(t, typ, l)
			}
			a := gen("a")
			b := a
			if rapid.Bool().Draw(t, "differ") {
				b = gen("b")
			}
			c.Types, c.A, c.B = append(c.Types, typ), append(c.A, a), append(c.B, b)
		}
		if n > 1 {
			c.Short = rapid.IntRange(-3, n-1).Draw(t, "short") // > 0: one of the tuples has only that many components
			c.ShortA = rapid.Bool().Draw(t, "shortA")
		}
		return c
	},
	Run: func(c c17TupleCase, o *hx.Obs) {
		var ka, kb []val.Value
		want, firstDiff := 0, -1
		for i, typ := range c.Types {
			ka = append(ka, mkAny(typ, c.A[i]))
			kb = append(kb, mkAny(typ, c.B[i]))
			if want == 0 {
				if w := cmpAny(typ, c.A[i], c.B[i]); w != 0 {
					want, firstDiff = w, i
				}
			}
		}
		o.Class("len=%d", len(c.Types))
		if firstDiff > 0 {
			o.NonTrivial()
		}
		if firstDiff == 0 {
			if it := intTypeByName(c.Types[0]); it != nil && straddles(it, bi(c.A[0]), bi(c.B[0])) {
				o.NonTrivial()
			}
		}
		if c.Short > 0 && c.Short < len(ka) {
			// a tuple against one with fewer components: the shorter one is smaller when it is a prefix of the longer
			o.Class("tuple-lengths=differ")
			if c.ShortA {
				ka = ka[:c.Short]
			} else {
				kb = kb[:c.Short]
			}
			if firstDiff < 0 || firstDiff >= c.Short {
				o.NonTrivial()
				want = 1
				if c.ShortA {
					want = -1
				}
			}
			var got, rev int
			var eq bool
			if o.Guard("CompareVals", func() { got, rev, eq = val.CompareVals(ka, kb), val.CompareVals(kb, ka), val.EqualVals(ka, kb) }) {
				return
			}
			if sign(got) != want || sign(rev) != -want {
				o.Failf("order|tuple-prefix|lexi", "CompareVals of %d against %d components: (%v,%v)=%d reverse=%d want sign %d (types %v)", len(ka), len(kb), c.A, c.B, got, rev, want, c.Types)
			}
			if eq {
				o.Failf("order|tuple-prefix|equal", "EqualVals of %d against %d components is true (%v,%v)", len(ka), len(kb), c.A, c.B)
			}
			return
		}
		var got, rev int
		var eq bool
		if o.Guard("CompareVals", func() { got, rev, eq = val.CompareVals(ka, kb), val.CompareVals(kb, ka), val.EqualVals(ka, kb) }) {
			return
		}
		typ := "mixed"
		if firstDiff >= 0 {
			typ = c.Types[firstDiff]
		}
		if sign(got) != want || sign(rev) != -want {
			o.Failf("order|tuple-"+typ+"|lexi", "CompareVals(%v,%v)=%d reverse=%d want sign %d (types %v)", c.A, c.B, got, rev, want, c.Types)
		}
		if eq != (want == 0) {
			o.Failf("order|tuple-"+typ+"|equal", "EqualVals(%v,%v)=%v want %v", c.A, c.B, eq, want == 0)
		}
	},
})

func TestC17(t *testing.T) {
	s := hx.Begin(t, "C17")
	defer s.End()
	hx.Each(s, c17Int8Pairs, true, func(yield func(c17PairCase) bool) {
		for a := -128; a <= 127; a++ {
			for b := -128; b <= 127; b++ {
				if !yield(c17PairCase{"int8", a, b}) {
					return
				}
			}
		}
		for a := 0; a <= 255; a++ {
			for b := 0; b <= 255; b++ {
				if !yield(c17PairCase{"uint8", a, b}) {
					return
				}
			}
		}
	})
	if s.Thorough() {
		hx.Each(s, c17Int8Triples, true, func(yield func(c17TripleCase) bool) {
			for a := -128; a <= 127; a++ {
				for b := -128; b <= 127; b++ {
					for c := -128; c <= 127; c++ {
						if !yield(c17TripleCase{"int8", a, b, c}) {
							return
						}
					}
				}
			}
			for a := 0; a <= 255; a++ {
				for b := 0; b <= 255; b++ {
					for c := 0; c <= 255; c++ {
						if !yield(c17TripleCase{"uint8", a, b, c}) {
							return
						}
					}
				}
			}
		})
	}
	hx.Run(s, c17Int, s.N(40000, 300000))
	hx.Run(s, c17Other, s.N(20000, 150000))
	hx.Run(s, c17Tuple, s.N(20000, 150000))
	hx.Run(s, c17Lookup, s.N(6000, 60000))
	hx.Run(s, c17Filter, s.N(1000, 10000))
}
