package props

import (
	"fmt"

	"github.com/freeconf/yang/node"
	"github.com/freeconf/yang/nodeutil"
	"pgregory.net/rapid"

	"verif/harness/dm"
	"verif/harness/hx"
)

// C07 with a whole list (keyed or keyless) as the target selection, and with selections derived from one another.

type c07ListCase struct {
	Module    *dm.Module `json:"module"`
	Data      dm.Tree    `json:"data"`
	Target    dm.Path    `json:"target"` // ends in a list node (no key)
	Depth     int        `json:"depth"`
	Constrain bool       `json:"constrain"`
}

func treeHeight(n *dm.Node, v interface{}) int {
	h := 0
	switch x := v.(type) {
	case dm.Tree:
		for _, d := range n.DataChildren() {
			if cv, ok := x[d.Name]; ok {
				if ch := 1 + treeHeight(d, cv); ch > h {
					h = ch
				}
			}
		}
	case []interface{}:
		for _, e := range x {
			if et, ok := e.(dm.Tree); ok {
				if ch := 1 + treeHeight(n, et); ch > h {
					h = ch
				}
			}
		}
	}
	return h
}

func c07ListGen(t *rapid.T) c07ListCase {
	o := dm.DefaultGen()
	o.Types = []string{"int8", "int32", "string", "boolean"}
	o.KeyTypes = []string{"string", "int32"}
	o.Unions, o.Choices, o.LeafLists, o.KeylessLists = false, false, true, true
	o.ConfigFalse, o.Defaults = false, false
	m := dm.GenModule(t, o)
	root := m.Root()
	data := dm.GenTree(t, root, dm.TreeOpts{MaxEntries: 3, PresentPct: 90, EasyKeys: true, EasyStrings: true, NoEmptyStr: true})
	c := c07ListCase{Module: m, Data: data, Depth: rapid.IntRange(1, 8).Draw(t, "depth"), Constrain: rapid.Bool().Draw(t, "constrain")}
	var targets []dm.Path
	var walk func(n *dm.Node, tr dm.Tree, prefix dm.Path)
	walk = func(n *dm.Node, tr dm.Tree, prefix dm.Path) {
		for _, d := range n.DataChildren() {
			v, ok := tr[d.Name]
			if !ok {
				continue
			}
			p := append(append(dm.Path{}, prefix...), dm.Seg{Name: d.Name})
			switch d.Kind {
			case "container":
				walk(d, v.(dm.Tree), p)
			case "list":
				if l, _ := v.([]interface{}); len(l) > 0 {
					targets = append(targets, p)
				}
			}
		}
	}
	walk(root, data, nil)
	if len(targets) > 0 {
		c.Target = targets[rapid.IntRange(0, len(targets)-1).Draw(t, "target")]
	}
	return c
}

func c07ListRun(c c07ListCase, o *hx.Obs) {
	if len(c.Target) == 0 {
		return
	}
	root := c.Module.Root()
	schemaClasses(o, c.Module)
	mm, err := loadDM(c.Module)
	if err != nil {
		o.Failf("harness|schema-rejected", "generated schema does not load: %v\n%s", err, c.Module.Yang())
		return
	}
	parent, _, _ := dm.Resolve(root, c.Data, c.Target[:len(c.Target)-1])
	ln, lv, ok := dm.Resolve(root, c.Data, c.Target)
	if !ok || parent == nil || ln == nil || ln.Kind != "list" {
		return
	}
	keyless := len(ln.Keys) == 0
	o.Class("keyless=%v", keyless)
	o.Class("target-level=%d", len(c.Target))
	h := treeHeight(ln, lv)
	// the window holder: the list as only child of its parent
	holder := &dm.Node{Kind: "container", Name: parent.Name, Children: []*dm.Node{ln}}
	path := findPath(c.Target)
	read := func(query string) (dm.Tree, string, error, bool) {
		var text string
		var rerr error
		if o.Guard("read of a list target", func() {
			var sel *node.Selection
			b := node.NewBrowser(mm, dm.NewRS(root, dm.CloneTree(c.Data)))
			if c.Constrain || query == "" {
				if sel, rerr = b.Root().Find(path); rerr != nil || sel == nil {
					if rerr == nil {
						rerr = fmt.Errorf("harness: target not found")
					}
					return
				}
				if query != "" {
					if sel, rerr = sel.Constrain(query); rerr != nil {
						return
					}
				}
			} else {
				if sel, rerr = b.Root().Find(path + "?" + query); rerr != nil || sel == nil {
					if rerr == nil {
						rerr = fmt.Errorf("harness: target not found")
					}
					return
				}
			}
			text, rerr = nodeutil.WriteJSON(sel)
		}) {
			return nil, "", nil, true
		}
		if rerr != nil {
			return nil, text, rerr, false
		}
		dec, derr := dm.DecodeOne(text)
		if derr != nil {
			return nil, text, derr, false
		}
		t, probs := dm.NormJSON(holder, dec, dm.NormOpts{}, "")
		if len(probs) > 0 {
			return nil, text, fmt.Errorf("%s", probs[0]), false
		}
		return t, text, nil, false
	}
	full, fullText, ferr, panicked := read("")
	if panicked {
		return
	}
	if ferr != nil {
		o.Excluded("unconstrained read of the list fails")
		return
	}
	got, text, gerr, panicked := read(fmt.Sprintf("depth=%d", c.Depth))
	if panicked {
		return
	}
	kind := "keyed"
	if keyless {
		kind = "keyless"
	}
	sig := func(clause string) string { return "query|depth|list-target|" + clause + "|" + kind }
	if gerr != nil {
		o.Failf(sig("error"), "read of %s with depth=%d failed: %v", path, c.Depth, gerr)
		return
	}
	// whatever "level" means for a list target, a depth that covers the list, its entries and everything below them
	// must return the unconstrained read, and any depth returns a part of it
	var fullRecs, gotRecs []leafRec
	flatten(holder, full, true, true, nil, "", 1, map[string]int{}, &fullRecs)
	flatten(holder, got, true, true, nil, "", 1, map[string]int{}, &gotRecs)
	fullByID := map[string]leafRec{}
	for _, r := range fullRecs {
		fullByID[r.id] = r
	}
	for _, g := range gotRecs {
		if f, present := fullByID[g.id]; !present || f.value != g.value {
			o.Failf(sig("kept-extra"), "depth=%d on %s reports %s=%s which the unconstrained read does not contain\nfull: %s\ngot: %s", c.Depth, path, g.id, g.value, fullText, text)
			return
		}
	}
	if c.Depth >= h+2 {
		o.NonTrivial()
		if len(gotRecs) != len(fullRecs) {
			o.Failf(sig("dropped"), "depth=%d on %s (the list's content is %d levels high) drops %d of %d leaves\nfull: %s\ngot:  %s", c.Depth, path, h, len(fullRecs)-len(gotRecs), len(fullRecs), fullText, text)
		}
	}
}

var c07ListTarget = hx.Register(&hx.Check[c07ListCase]{
	Name: "c07-list-target",
	Rule: "a whole list (keyed or keyless, at any nesting level, 1-3 entries) as the target of Find(path?depth=N) and of Find(path).Constrain(depth=N), N in 1..8: the answer is a part of the unconstrained read of the same selection, and equals it whenever N covers the list, its entries and everything below them; non-trivial = N covers everything",
	Gen:  c07ListGen,
	Run:  c07ListRun,
})

// ---- selections derived from an already constrained selection must not influence each other ---

type c07SiblingCase struct {
	Module *dm.Module `json:"module"`
	Data   dm.Tree    `json:"data"`
	Base   []c07Param `json:"base"` // constraints of the common parent selection
	A      []c07Param `json:"a"`    // first derived selection (read last)
	B      []c07Param `json:"b"`    // second derived selection (derived after A, before A is read)
	HowA   string     `json:"how_a"` // find | constrain
}

func c07SiblingGen(t *rapid.T) c07SiblingCase {
	o := dm.DefaultGen()
	o.Types = []string{"int8", "int32", "string", "boolean"}
	o.KeyTypes = []string{"string", "int32"}
	o.Unions, o.Choices, o.LeafLists = false, false, true
	o.ConfigFalse, o.Defaults = true, true
	m := dm.GenModule(t, o)
	data := dm.GenTree(t, m.Root(), dm.TreeOpts{MaxEntries: 3, PresentPct: 90, EasyKeys: true, EasyStrings: true, NoEmptyStr: true})
	param := func(label string, exclude map[string]bool) []c07Param {
		var out []c07Param
		for i := 0; i < rapid.IntRange(1, 2).Draw(t, label+"-n"); i++ {
			name := rapid.SampledFrom([]string{"content", "depth", "with-defaults", "fc.max-node-count"}).Draw(t, label)
			if exclude[name] {
				continue
			}
			exclude[name] = true
			switch name {
			case "content":
				out = append(out, c07Param{name, rapid.SampledFrom([]string{"config", "nonconfig"}).Draw(t, label+"-content")})
			case "depth":
				out = append(out, c07Param{name, fmt.Sprint(rapid.IntRange(1, 5).Draw(t, label+"-depth"))})
			case "with-defaults":
				out = append(out, c07Param{name, "trim"})
			case "fc.max-node-count":
				out = append(out, c07Param{name, "100000"})
			}
		}
		return out
	}
	used := map[string]bool{}
	c := c07SiblingCase{Module: m, Data: data, HowA: rapid.SampledFrom([]string{"find", "constrain"}).Draw(t, "how-a")}
	c.Base = param("base", used)
	usedA := map[string]bool{}
	for k := range used {
		usedA[k] = true
	}
	c.A = param("a", usedA)
	usedB := map[string]bool{}
	for k := range used {
		usedB[k] = true
	}
	c.B = param("b", usedB)
	return c
}

func c07SiblingRun(c c07SiblingCase, o *hx.Obs) {
	if len(c.Base) == 0 || len(c.A) == 0 || len(c.B) == 0 {
		return
	}
	root := c.Module.Root()
	schemaClasses(o, c.Module)
	mm, err := loadDM(c.Module)
	if err != nil {
		o.Failf("harness|schema-rejected", "generated schema does not load: %v\n%s", err, c.Module.Yang())
		return
	}
	o.Class("how-a=%s", c.HowA)
	derive := func(s *node.Selection, how string, q string) (*node.Selection, error) {
		if how == "find" {
			return s.Find("?" + q)
		}
		return s.Constrain(q)
	}
	var alone, interleaved string
	var aerr, ierr error
	if o.Guard("derived selections", func() {
		// A alone
		s0, e := node.NewBrowser(mm, dm.NewRS(root, dm.CloneTree(c.Data))).Root().Constrain(c07Query(c.Base))
		if e != nil {
			aerr = e
			return
		}
		sa, e := derive(s0, c.HowA, c07Query(c.A))
		if e != nil || sa == nil {
			aerr = fmt.Errorf("derive A: %v", e)
			return
		}
		alone, aerr = nodeutil.WriteJSON(sa)
		// A, then B derived from the same parent, then A read
		t0, e := node.NewBrowser(mm, dm.NewRS(root, dm.CloneTree(c.Data))).Root().Constrain(c07Query(c.Base))
		if e != nil {
			ierr = e
			return
		}
		ta, e := derive(t0, c.HowA, c07Query(c.A))
		if e != nil || ta == nil {
			ierr = fmt.Errorf("derive A: %v", e)
			return
		}
		if tb, e := t0.Constrain(c07Query(c.B)); e == nil && tb != nil {
			nodeutil.WriteJSON(tb)
		}
		interleaved, ierr = nodeutil.WriteJSON(ta)
	}) {
		return
	}
	if aerr != nil || ierr != nil {
		if (aerr == nil) != (ierr == nil) {
			o.Failf("query|derived|error-differs", "base %q, A %q read alone: err=%v; read after deriving B %q from the same selection: err=%v", c07Query(c.Base), c07Query(c.A), aerr, c07Query(c.B), ierr)
		}
		return
	}
	o.NonTrivial()
	if alone != interleaved {
		o.Failf("query|derived|influenced", "selection A (%q on top of %q) reads differently once a sibling selection B (%q) has been derived from the same parent:\nalone:       %s\ninterleaved: %s", c07Query(c.A), c07Query(c.Base), c07Query(c.B), alone, interleaved)
	}
}

var c07Sibling = hx.Register(&hx.Check[c07SiblingCase]{
	Name: "c07-derived-selections",
	Rule: "a selection constrained with 1-2 parameters, from which selection A (Find(?q) or Constrain(q)) and then selection B are derived before A is read: A's answer equals the answer it gives when B is never derived (metamorphic; the projection itself is c07-projection's subject); every case that evaluates is non-trivial",
	Gen:  c07SiblingGen,
	Run:  c07SiblingRun,
})
