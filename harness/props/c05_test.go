package props

import (
	"encoding/base64"
	"fmt"
	"math/big"
	"sort"
	"strings"
	"testing"

	"github.com/freeconf/yang/node"
	"github.com/freeconf/yang/nodeutil"
	"pgregory.net/rapid"

	"verif/harness/dm"
	"verif/harness/hx"
)

// ---- C05: no write stores a value outside the leaf's effective type -----------------------

type c05Case struct {
	Base     string     `json:"base"`
	FD       int        `json:"fd,omitempty"`
	Levels   []dm.Restr `json:"levels"` // outermost typedef first; the last one is written on the leaf itself
	LeafList bool       `json:"leafList"`
	Old      []string   `json:"old,omitempty"` // value stored before the write (nil = absent)
	Values   []string   `json:"values"`        // the value written (one element for a leaf)
	Path     string     `json:"path"`          // set | setvalue | upsert-json | insert-json | update-json | upsert-xml | upsert-rs
	Store    string     `json:"store"`
	// Unchecked: before the write the same browser serves a root selection with Browser.DisableConstraints on (the way
	// legacy data is loaded unchecked); the flag is off again for the write
	Unchecked bool `json:"unchecked,omitempty"`
	// Via: how leaf x comes by the restricted type: "" = it is x's own type; "leafref" = x is a leafref to a sibling
	// leaf of that type; "union" = x is a union of that type and boolean; "union-in-union" = that union is a member of another union
	Via string `json:"via,omitempty"`
}

func c05Module(c c05Case) *dm.Module {
	m := &dm.Module{Name: "gm"}
	var extra strings.Builder
	prev := c.Base
	fdDone := false
	for i, l := range c.Levels[:len(c.Levels)-1] {
		ty := &dm.Type{Base: c.Base, FD: c.FD, Range: l.Range, Length: l.Length, Patterns: l.Patterns}
		if prev != c.Base {
			ty.Name = prev
		} else if c.Base == "decimal64" {
			fdDone = true
		}
		var b strings.Builder
		b.WriteString(fmt.Sprintf("typedef t%d { ", i))
		writeType(&b, ty)
		b.WriteString(" } ")
		extra.WriteString(b.String())
		prev = fmt.Sprintf("t%d", i)
	}
	_ = fdDone
	m.Extra = extra.String()
	last := c.Levels[len(c.Levels)-1]
	lt := &dm.Type{Base: c.Base, FD: c.FD, Range: last.Range, Length: last.Length, Patterns: last.Patterns}
	if prev != c.Base {
		lt.Name = prev
	}
	kind := "leaf"
	if c.LeafList {
		kind = "leaf-list"
	}
	xt := lt
	children := []*dm.Node{}
	switch c.Via {
	case "leafref":
		children = append(children, &dm.Node{Kind: "leaf", Name: "tgt", Type: lt})
		xt = &dm.Type{Base: "leafref", Path: "../tgt", Target: lt}
	case "union":
		xt = &dm.Type{Base: "union", Members: []*dm.Type{lt, {Base: "boolean"}}}
	case "union-in-union":
		xt = &dm.Type{Base: "union", Members: []*dm.Type{{Base: "union", Members: []*dm.Type{lt, {Base: "boolean"}}}, {Base: "boolean"}}}
	}
	children = append(children, &dm.Node{Kind: kind, Name: "x", Type: xt}, &dm.Node{Kind: "leaf", Name: "other", Type: &dm.Type{Base: "string"}})
	m.Top = []*dm.Node{{Kind: "container", Name: "c", Children: children}}
	return m
}

// writeType renders a type statement through a throw-away module rendering (reuses dm's renderer)
func writeType(b *strings.Builder, ty *dm.Type) {
	m := &dm.Module{Name: "x", Top: []*dm.Node{{Kind: "leaf", Name: "l", Type: ty}}}
	y := m.Yang()
	i := strings.Index(y, "type ")
	j := strings.LastIndex(y, "\n }")
	b.WriteString(strings.TrimSpace(y[i:j]))
}

func ratOf(base string, s string) *big.Rat {
	r, _ := new(big.Rat).SetString(s)
	return r
}

func c05Inside(c c05Case, v string) (bool, error) {
	if c.Base == "string" {
		return dm.StringOK(c.Levels, v)
	}
	if c.Base == "binary" {
		// the length of a binary is counted in octets
		raw, err := base64.StdEncoding.DecodeString(v)
		if err != nil {
			return false, err
		}
		return dm.InRange("string", 0, c.Levels, new(big.Rat).SetInt64(int64(len(raw))), true)
	}
	return dm.InRange(c.Base, c.FD, c.Levels, ratOf(c.Base, v), false)
}

func c05Native(base string, v string) interface{} {
	if dm.IsInt(base) {
		b, _ := new(big.Int).SetString(v, 10)
		if strings.HasPrefix(base, "u") {
			return b.Uint64()
		}
		return b.Int64()
	}
	if base == "decimal64" {
		f, _ := new(big.Rat).SetString(v)
		x, _ := f.Float64()
		return x
	}
	return v
}

func c05Run(c c05Case, o *hx.Obs) {
	m := c05Module(c)
	root := m.Root()
	mm, err := loadDM(m)
	if err != nil {
		if strings.Contains(err.Error(), "panic") {
			o.Failf("restrict|load|panic", "%v", err)
			return
		}
		o.Failf("harness|schema-rejected", "restriction schema does not load: %v\n%s", err, m.Yang())
		return
	}
	kind := "range"
	if c.Base == "string" {
		kind = "string"
	} else if c.Base == "binary" {
		kind = "binary-length"
	}
	// discriminators
	var disc []string
	if len(c.Levels) > 1 {
		disc = append(disc, "derived")
	}
	npat, multiAlt, minmax := 0, false, false
	for _, l := range c.Levels {
		npat += len(l.Patterns)
		if strings.Contains(l.Range+l.Length, "|") {
			multiAlt = true
		}
		if strings.Contains(l.Range+l.Length, "min") || strings.Contains(l.Range+l.Length, "max") {
			minmax = true
		}
		for _, p := range l.Patterns {
			if strings.HasPrefix(p, "!") {
				disc = append(disc, "invert")
				break
			}
		}
	}
	if multiAlt {
		disc = append(disc, "multi-alt")
	}
	if minmax {
		disc = append(disc, "minmax")
	}
	if npat > 1 {
		disc = append(disc, "multi-pattern")
	}
	if c.LeafList {
		disc = append(disc, "leaf-list")
	}
	for _, v := range c.Values {
		if len(v) != len([]rune(v)) {
			disc = append(disc, "multibyte")
			break
		}
	}
	sort.Strings(disc)
	disc = uniqStrings(disc)
	o.Class("kind=%s", kind)
	o.Class("path=%s", c.Path)
	if c.Via != "" {
		o.Class("restricted type reached via %s", c.Via)
		disc = append(disc, "via-"+c.Via)
	}
	if len(c.Levels) > 1 || multiAlt || npat > 1 {
		o.NonTrivial()
	}
	// oracle: every element must be inside
	want := true
	for _, v := range c.Values {
		in, oerr := c05Inside(c, v)
		if oerr != nil {
			o.Failf("harness|oracle", "oracle cannot evaluate: %v", oerr)
			return
		}
		want = want && in
	}
	o.Class("expect-accept=%v", want)
	sig := func(clause string) string {
		return "restrict|" + kind + "|" + clause + "|" + strings.Join(disc, "+")
	}
	// initial content
	initial := dm.Tree{}
	xNode := root.Child("c").Child("x")
	asTree := func(vals []string) interface{} {
		if c.LeafList {
			l := make([]interface{}, len(vals))
			for i, v := range vals {
				l[i] = v
			}
			return l
		}
		return vals[0]
	}
	if c.Path != "insert-json" {
		cc := dm.Tree{"other": "keep"}
		if c.Old != nil {
			cc["x"] = asTree(c.Old)
		}
		initial["c"] = cc
	}
	store, serr := dm.NewStore(c.Store, root, initial)
	if serr != nil {
		o.Failf("harness|store", "%v", serr)
		return
	}
	b := node.NewBrowser(mm, store.Node())
	if c.Unchecked {
		o.Class("browser used unchecked before")
		o.Guard("unchecked read", func() {
			b.DisableConstraints = true
			nodeutil.WriteJSON(b.Root())
			b.DisableConstraints = false
		})
	}
	var werr error
	newC := dm.Tree{"c": dm.Tree{"x": asTree(c.Values)}}
	if o.Guard("write("+c.Path+")", func() {
		switch c.Path {
		case "set", "setvalue":
			sel, ferr := b.Root().Find("c/x")
			if ferr != nil || sel == nil {
				werr = fmt.Errorf("harness: c/x not found: %v", ferr)
				return
			}
			if c.Path == "set" {
				var v interface{ String() string }
				_ = v
				if c.LeafList {
					lv, e := dm.MkListVal(xNode.Type, c.Values)
					if e != nil {
						werr = fmt.Errorf("harness: %v", e)
						return
					}
					werr = sel.Set(lv)
				} else {
					lv, e := dm.MkVal(xNode.Type, c.Values[0])
					if e != nil {
						werr = fmt.Errorf("harness: %v", e)
						return
					}
					werr = sel.Set(lv)
				}
			} else {
				if c.LeafList {
					l := make([]interface{}, len(c.Values))
					for i, v := range c.Values {
						l[i] = c05Native(c.Base, v)
					}
					werr = sel.SetValue(l)
				} else {
					werr = sel.SetValue(c05Native(c.Base, c.Values[0]))
				}
			}
		case "upsert-json", "insert-json", "update-json":
			src, e := nodeutil.ReadJSON(dm.ToJSON("", root, newC, dm.JSONStyle{Num64AsString: true}))
			if e != nil {
				werr = fmt.Errorf("harness: %v", e)
				return
			}
			switch c.Path {
			case "upsert-json":
				werr = b.Root().UpsertFrom(src)
			case "insert-json":
				werr = b.Root().InsertFrom(src)
			default:
				werr = b.Root().UpdateFrom(src)
			}
		case "upsert-rs":
			werr = b.Root().UpsertFrom(dm.NewRS(root, dm.CloneTree(newC)))
		case "upsert-into":
			// the same write driven from the other side: a browser on the new content pushes it into the store's node
			werr = node.NewBrowser(mm, dm.NewRS(root, dm.CloneTree(newC))).Root().UpsertInto(store.Node())
		case "upsert-xml":
			var buf strings.Builder
			doc := &dm.XNode{Name: "gm", Children: dm.TreeToXML(root, newC)}
			var bb = new(strings.Builder)
			_ = bb
			rb := renderX(doc)
			buf.WriteString(rb)
			src, e := nodeutil.ReadXMLDoc(strings.NewReader(buf.String()))
			if e != nil {
				werr = fmt.Errorf("harness: %v", e)
				return
			}
			werr = b.Root().UpsertFrom(src)
		}
	}) {
		return
	}
	if werr != nil && strings.HasPrefix(werr.Error(), "harness:") {
		o.Failf("harness|write", "%v", werr)
		return
	}
	got, snapErr := store.Snapshot()
	if snapErr != nil {
		o.Failf(sig("snapshot"), "backing data not conforming after the write: %v", snapErr)
		return
	}
	var have interface{}
	if cc, ok := got["c"].(dm.Tree); ok {
		have = cc["x"]
	}
	desc := fmt.Sprintf("%s %v into %s x with levels %s (old %v)", c.Path, c.Values, c.Base, jsonOf(c.Levels), c.Old)
	if want {
		if werr != nil {
			o.Failf(sig("rejected-inside"), "%s: a value inside the effective type was rejected: %v", desc, werr)
			return
		}
		if jsonOf(have) != jsonOf(asTree(c.Values)) {
			o.Failf(sig("not-stored"), "%s: accepted but the store holds %s", desc, jsonOf(have))
		}
		return
	}
	if werr == nil {
		o.Failf(sig("accepted-outside"), "%s: a value outside the effective type was accepted (store now holds %s)", desc, jsonOf(have))
		return
	}
	var old interface{}
	if c.Old != nil && c.Path != "insert-json" {
		old = asTree(c.Old)
	}
	if jsonOf(have) != jsonOf(old) {
		o.Failf(sig("stored-on-reject"), "%s: rejected (%v) but the leaf changed from %s to %s", desc, werr, jsonOf(old), jsonOf(have))
	}
}

func renderX(x *dm.XNode) string {
	var b strings.Builder
	var w func(n *dm.XNode, ns string)
	w = func(n *dm.XNode, ns string) {
		b.WriteString("<" + n.Name)
		if ns != "" {
			b.WriteString(" xmlns=\"" + ns + "\"")
		}
		b.WriteString(">")
		if len(n.Children) == 0 {
			r := strings.NewReplacer("&", "&amp;", "<", "&lt;", ">", "&gt;")
			b.WriteString(r.Replace(n.Text))
		}
		for _, c := range n.Children {
			w(c, c.NS) // (an element states a namespace of its own only when a check sets one)
		}
		b.WriteString("</" + n.Name + ">")
	}
	w(x, "urn:gm")
	return b.String()
}

// ---- generators --------------------------------------------------------------------

type unitIv struct{ lo, hi *big.Int }

func unitsToText(u *big.Int, fd int) string {
	if fd == 0 {
		return u.String()
	}
	den := new(big.Int).Exp(big.NewInt(10), big.NewInt(int64(fd)), nil)
	r := new(big.Rat).SetFrac(u, den)
	return r.FloatString(fd)
}

// genRangeLevels draws nLevels nested range expressions over [lo,hi] (in units of 10^-fd).
func genRangeLevels(t *rapid.T, lo, hi *big.Int, fd, nLevels int, label string) ([]string, [][]unitIv) {
	parent := []unitIv{{lo, hi}}
	var exprs []string
	var all [][]unitIv
	fr := []int64{0, 0, 1, 2, 4, 8}
	for lv := 0; lv < nLevels; lv++ {
		k := rapid.IntRange(1, 3).Draw(t, label+"-k")
		var ivs []unitIv
		for i := 0; i < k; i++ {
			p := parent[rapid.IntRange(0, len(parent)-1).Draw(t, label+"-p")]
			w := new(big.Int).Sub(p.hi, p.lo)
			pick := func(from *big.Int, width *big.Int, l string) *big.Int {
				switch rapid.IntRange(0, 3).Draw(t, l+"-how") {
				case 0:
					return new(big.Int).Set(from)
				case 1:
					// a small offset
					off := big.NewInt(int64(rapid.IntRange(0, 20).Draw(t, l+"-off")))
					if off.Cmp(width) > 0 {
						off = new(big.Int).Set(width)
					}
					return new(big.Int).Add(from, off)
				default:
					f := fr[rapid.IntRange(0, len(fr)-1).Draw(t, l+"-fr")]
					return new(big.Int).Add(from, new(big.Int).Div(new(big.Int).Mul(width, big.NewInt(f)), big.NewInt(8)))
				}
			}
			a := pick(p.lo, w, label+"-a")
			b := pick(a, new(big.Int).Sub(p.hi, a), label+"-b")
			ivs = append(ivs, unitIv{a, b})
		}
		sort.Slice(ivs, func(i, j int) bool { return ivs[i].lo.Cmp(ivs[j].lo) < 0 })
		var clean []unitIv
		for _, iv := range ivs {
			if len(clean) > 0 && iv.lo.Cmp(new(big.Int).Add(clean[len(clean)-1].hi, big.NewInt(1))) <= 0 {
				continue // overlapping or adjacent: drop
			}
			clean = append(clean, iv)
		}
		hullLo, hullHi := parent[0].lo, parent[len(parent)-1].hi
		var parts []string
		for _, iv := range clean {
			ls, hs := unitsToText(iv.lo, fd), unitsToText(iv.hi, fd)
			if iv.lo.Cmp(hullLo) == 0 && rapid.Bool().Draw(t, label+"-min") {
				ls = "min"
			}
			if iv.hi.Cmp(hullHi) == 0 && rapid.Bool().Draw(t, label+"-max") {
				hs = "max"
			}
			switch {
			case iv.lo.Cmp(iv.hi) == 0 && ls != "min" && hs != "max":
				parts = append(parts, ls)
			case iv.lo.Cmp(iv.hi) == 0 && rapid.Bool().Draw(t, label+"-keyword-alone"):
				// a single value that is the lowest / highest one allowed: the keyword on its own, or on both sides
				kw := "min"
				if hs == "max" {
					kw = "max"
				}
				parts = append(parts, rapid.SampledFrom([]string{kw, kw + ".." + kw}).Draw(t, label+"-keyword-form"))
			default:
				parts = append(parts, ls+".."+hs)
			}
		}
		sep := rapid.SampledFrom([]string{"|", " | ", "| "}).Draw(t, label+"-sep")
		exprs = append(exprs, strings.Join(parts, sep))
		all = append(all, clean)
		parent = clean
	}
	return exprs, all
}

var c05Patterns = []string{"[a-c]*", "a+b?", "(ab|c)+", "[a-c]{2,4}", "a.*", "b.*", "x?[abc]{1,3}", ".*b.*", "[^x]*", "é+", "a|b", "!a.*", "!.*x.*", "![a-c]{3}"}

func c05Gen(t *rapid.T) c05Case {
	c := c05GenBase(t)
	c.Unchecked = rapid.IntRange(0, 3).Draw(t, "unchecked-before") == 0
	c.Via = rapid.SampledFrom([]string{"", "", "", "leafref", "union", "union-in-union"}).Draw(t, "via")
	if (c.Via == "union" || c.Via == "union-in-union") && c.LeafList {
		c.Via = "" // (the harness has no leaf-lists of unions)
	}
	return c
}

func c05GenBase(t *rapid.T) c05Case {
	c := c05Case{Store: rapid.SampledFrom([]string{"rs", "rs", "reflect-map"}).Draw(t, "store"),
		Path: rapid.SampledFrom([]string{"set", "setvalue", "upsert-json", "insert-json", "update-json", "upsert-xml", "upsert-rs", "upsert-into"}).Draw(t, "path")}
	c.Base = rapid.SampledFrom([]string{"int8", "int16", "int32", "int64", "uint8", "uint16", "uint32", "uint64", "decimal64", "string", "string", "binary"}).Draw(t, "base")
	nLevels := rapid.IntRange(1, 3).Draw(t, "levels")
	c.LeafList = rapid.IntRange(0, 3).Draw(t, "leaflist") == 0
	var cands []string
	if c.Base == "binary" {
		lens, _ := genRangeLevels(t, big.NewInt(0), big.NewInt(int64(rapid.IntRange(3, 10).Draw(t, "maxlen"))), 0, nLevels, "len")
		for i := 0; i < nLevels; i++ {
			c.Levels = append(c.Levels, dm.Restr{Length: lens[i]})
		}
		nc := 1
		if c.LeafList {
			c.LeafList = false // (the harness has no leaf-lists of binaries)
		}
		for i := 0; i < nc; i++ {
			c.Values = append(c.Values, base64.StdEncoding.EncodeToString(rapid.SliceOfN(rapid.Byte(), 0, 11).Draw(t, "octets")))
		}
		if c.Path == "setvalue" {
			c.Path = "upsert-json"
		}
		return c
	}
	if c.Base == "string" {
		lens, ivs := genRangeLevels(t, big.NewInt(0), big.NewInt(int64(rapid.IntRange(3, 10).Draw(t, "maxlen"))), 0, nLevels, "len")
		for i := 0; i < nLevels; i++ {
			r := dm.Restr{}
			if rapid.IntRange(0, 2).Draw(t, "len?") > 0 {
				r.Length = lens[i]
			}
			np := rapid.SampledFrom([]int{0, 1, 1, 2}).Draw(t, "npat")
			for j := 0; j < np; j++ {
				r.Patterns = append(r.Patterns, rapid.SampledFrom(c05Patterns).Draw(t, "pat"))
			}
			c.Levels = append(c.Levels, r)
		}
		_ = ivs
		alpha := []string{"a", "b", "c", "x", "é"}
		nc := rapid.IntRange(1, 3).Draw(t, "nvals")
		if !c.LeafList {
			nc = 1
		}
		for i := 0; i < nc; i++ {
			n := rapid.IntRange(0, 11).Draw(t, "slen")
			var sb strings.Builder
			for j := 0; j < n; j++ {
				sb.WriteString(rapid.SampledFrom(alpha).Draw(t, "ch"))
			}
			cands = append(cands, sb.String())
		}
		c.Values = cands
		if rapid.Bool().Draw(t, "old?") {
			c.Old = []string{"o"}
		}
		return c
	}
	fd := 0
	if c.Base == "decimal64" {
		fd = rapid.SampledFrom([]int{1, 2}).Draw(t, "fd")
		c.FD = fd
	}
	loR, hiR := dm.BaseBounds(c.Base, fd)
	scale := new(big.Int).Exp(big.NewInt(10), big.NewInt(int64(fd)), nil)
	toUnits := func(r *big.Rat) *big.Int {
		x := new(big.Rat).Mul(r, new(big.Rat).SetInt(scale))
		return new(big.Int).Div(x.Num(), x.Denom())
	}
	lo, hi := toUnits(loR), toUnits(hiR)
	if c.Base == "decimal64" {
		// keep decimal64 within what float64 represents exactly
		lo, hi = big.NewInt(-1000000), big.NewInt(1000000)
	}
	// most ranges live near zero, some span the type
	glo, ghi := lo, hi
	if rapid.IntRange(0, 2).Draw(t, "small?") > 0 {
		glo, ghi = big.NewInt(-200), big.NewInt(200)
		if glo.Cmp(lo) < 0 {
			glo = lo
		}
		if ghi.Cmp(hi) > 0 {
			ghi = hi
		}
	}
	exprs, ivs := genRangeLevels(t, glo, ghi, fd, nLevels, "rng")
	// first level's min/max keywords denote the base type's bounds, which only equals glo/ghi when they are lo/hi
	for i, e := range exprs {
		if i == 0 && (glo.Cmp(lo) != 0 || ghi.Cmp(hi) != 0) {
			e = strings.ReplaceAll(strings.ReplaceAll(e, "min", unitsToText(glo, fd)), "max", unitsToText(ghi, fd))
		}
		c.Levels = append(c.Levels, dm.Restr{Range: e})
	}
	// candidates: boundaries of every level and their neighbours, base extremes, random
	var pool []*big.Int
	for _, lv := range ivs {
		for _, iv := range lv {
			for _, d := range []int64{-1, 0, 1} {
				pool = append(pool, new(big.Int).Add(iv.lo, big.NewInt(d)), new(big.Int).Add(iv.hi, big.NewInt(d)))
			}
		}
	}
	pool = append(pool, lo, hi, big.NewInt(0))
	nc := 1
	if c.LeafList {
		nc = rapid.IntRange(1, 3).Draw(t, "nvals")
	}
	seen := map[string]bool{}
	for i := 0; i < nc; i++ {
		v := pool[rapid.IntRange(0, len(pool)-1).Draw(t, "cand")]
		if v.Cmp(lo) < 0 || v.Cmp(hi) > 0 {
			v = big.NewInt(0)
		}
		s := unitsToText(v, fd)
		if fd > 0 {
			// canonical decimal text
			r, _ := new(big.Rat).SetString(s)
			f, _ := r.Float64()
			s = dm.CanonFloat(f)
		}
		if !seen[s] {
			seen[s] = true
			cands = append(cands, s)
		}
	}
	c.Values = cands
	// an old value inside every level, when there is one
	if rapid.Bool().Draw(t, "old?") {
		last := ivs[len(ivs)-1]
		s := unitsToText(last[0].lo, fd)
		if fd > 0 {
			r, _ := new(big.Rat).SetString(s)
			f, _ := r.Float64()
			s = dm.CanonFloat(f)
		}
		c.Old = []string{s}
	}
	return c
}

var c05Restrict = hx.Register(&hx.Check[c05Case]{
	Name: "c05-restrictions",
	Rule: "range restrictions on every numeric base (alternatives, single values, min/max, negative and 64-bit bounds, decimal64) and length/pattern restrictions on strings (multi-byte characters, several patterns, invert-match), derived through 0-2 typedef levels each narrowing its parent, on leaves and leaf-lists; candidate values are the boundaries of every level and their neighbours; written through Set, SetValue, Upsert/Insert/Update from JSON, Upsert from XML and from another node, into the reference store and a map-backed Reflect; oracle = harness evaluator over math/big (inside one alternative at every level, all patterns anchored); a rejected write must leave the leaf unchanged; non-trivial = derived type, several alternatives or several patterns",
	Gen:  c05Gen,
	Run:  c05Run,
})

func TestC05(t *testing.T) {
	s := hx.Begin(t, "C05")
	defer s.End()
	hx.Run(s, c05Restrict, s.N(5000, 50000))
	hx.Each(s, c05Member, true, c05MemberProduct)
	hx.Run(s, c05Rejected, s.N(1200, 12000))
}

// ---- membership: enumeration, bits, identityref, union ------------------------------------

type c05MemberCase struct {
	Kind     string   `json:"kind"` // enumeration | bits | identityref | union
	Values   []string `json:"values"`
	LeafList bool     `json:"leafList"`
	Path     string   `json:"path"` // setvalue | upsert-json | upsert-xml | insert-json
	Old      bool     `json:"old"`
}

func c05MemberType(kind string) *dm.Type {
	switch kind {
	case "enumeration":
		return &dm.Type{Base: "enumeration", Enums: []dm.EnumDef{{Name: "red", Value: 1}, {Name: "green", Value: 3}, {Name: "blue", Value: 4}}}
	case "bits":
		return &dm.Type{Base: "bits", Bits: []dm.BitDef{{Name: "b-one", Pos: 1}, {Name: "two", Pos: 3}, {Name: "three", Pos: 6}}}
	case "identityref":
		return &dm.Type{Base: "identityref", IdBase: "idbase", Idents: []string{"id-a", "id-b", "id-c"}}
	}
	return &dm.Type{Base: "union", Members: []*dm.Type{{Base: "int8"}, {Base: "enumeration", Enums: []dm.EnumDef{{Name: "red", Value: 1}, {Name: "green", Value: 3}}}}}
}

var c05MemberValues = map[string][]string{
	"enumeration": {"red", "green", "blue", "yellow", "Red", "red ", "", "1", "2", "3", "0", "red green"},
	"bits":        {"b-one", "two", "b-one two", "three two", "four", "b-one four", "", "B-ONE", "two two", "1"},
	"identityref": {"id-a", "id-b", "id-c", "gm:id-a", "unrelated", "gm:unrelated", "nothere", "", "ID-A", "idbase"},
	"union":       {"1", "127", "128", "-129", "red", "green", "blue", "x", "", "1.5"},
}

func c05MemberOK(kind, v string) (ok bool, asserted bool) {
	switch kind {
	case "enumeration":
		switch v {
		case "red", "green", "blue":
			return true, true
		case "1", "3", "4":
			return true, true // by value
		}
		return false, true
	case "bits":
		if v == "" {
			return true, true
		}
		for _, n := range strings.Fields(v) {
			if n != "b-one" && n != "two" && n != "three" {
				return false, true
			}
		}
		return true, v != "two two" && v != "1"
	case "identityref":
		name := strings.TrimPrefix(v, "gm:")
		switch name {
		case "id-a", "id-b", "id-c":
			return true, true
		case "idbase":
			return false, false // whether the base itself is acceptable is not asserted (DESIGN 4.2)
		}
		return false, true
	case "union":
		switch v {
		case "1", "127", "red", "green":
			return true, true
		case "3":
			return true, true
		}
		return false, true
	}
	return false, false
}

func c05MemberRun(c c05MemberCase, o *hx.Obs) {
	ty := c05MemberType(c.Kind)
	kind := "leaf"
	if c.LeafList {
		kind = "leaf-list"
	}
	m := &dm.Module{Name: "gm", Identities: []dm.Identity{{"idbase", ""}, {"id-a", "idbase"}, {"id-b", "idbase"}, {"id-c", "id-a"}, {"unrelated", ""}},
		Top: []*dm.Node{{Kind: "container", Name: "c", Children: []*dm.Node{{Kind: kind, Name: "x", Type: ty}}}}}
	root := m.Root()
	mm, err := loadDM(m)
	if err != nil {
		o.Failf("harness|schema-rejected", "%v\n%s", err, m.Yang())
		return
	}
	o.Class("kind=%s", c.Kind)
	o.Class("path=%s", c.Path)
	o.NonTrivial()
	want, asserted := true, true
	for _, v := range c.Values {
		ok, as := c05MemberOK(c.Kind, v)
		want = want && ok
		asserted = asserted && as
	}
	if !asserted {
		o.Excluded("membership not asserted for this value (base identity, duplicate bit names)")
		return
	}
	initial := dm.Tree{}
	if c.Path != "insert-json" {
		initial["c"] = dm.Tree{}
	}
	data := dm.Tree{}
	store, _ := dm.NewStore("rs", root, initial)
	data = initial
	_ = data
	b := node.NewBrowser(mm, store.Node())
	var werr error
	jsonVal := func(v string) string {
		if c.Kind == "union" || c.Kind == "enumeration" {
			if _, err := fmt.Sscanf(v, "%d", new(int)); err == nil && strings.Trim(v, "-0123456789") == "" && v != "" {
				return v
			}
		}
		return jsonOf(v)
	}
	if o.Guard("write("+c.Path+")", func() {
		switch c.Path {
		case "setvalue":
			sel, ferr := b.Root().Find("c/x")
			if ferr != nil || sel == nil {
				werr = fmt.Errorf("harness: %v", ferr)
				return
			}
			if c.LeafList {
				werr = sel.SetValue(c.Values)
			} else {
				werr = sel.SetValue(c.Values[0])
			}
		case "upsert-json", "insert-json":
			var body string
			if c.LeafList {
				var parts []string
				for _, v := range c.Values {
					parts = append(parts, jsonVal(v))
				}
				body = "[" + strings.Join(parts, ",") + "]"
			} else {
				body = jsonVal(c.Values[0])
			}
			src, e := nodeutil.ReadJSON(`{"c":{"x":` + body + `}}`)
			if e != nil {
				werr = fmt.Errorf("harness: %v", e)
				return
			}
			if c.Path == "upsert-json" {
				werr = b.Root().UpsertFrom(src)
			} else {
				werr = b.Root().InsertFrom(src)
			}
		case "upsert-xml":
			var xs strings.Builder
			r := strings.NewReplacer("&", "&amp;", "<", "&lt;", ">", "&gt;")
			for _, v := range c.Values {
				xs.WriteString("<x>" + r.Replace(v) + "</x>")
			}
			src, e := nodeutil.ReadXMLDoc(strings.NewReader(`<gm xmlns="urn:gm"><c>` + xs.String() + `</c></gm>`))
			if e != nil {
				werr = fmt.Errorf("harness: %v", e)
				return
			}
			werr = b.Root().UpsertFrom(src)
		}
	}) {
		return
	}
	if werr != nil && strings.HasPrefix(werr.Error(), "harness:") {
		o.Failf("harness|write", "%v", werr)
		return
	}
	got, snapErr := store.Snapshot()
	if snapErr != nil {
		o.Failf("restrict|"+c.Kind+"|snapshot", "%v", snapErr)
		return
	}
	var have interface{}
	if cc, ok := got["c"].(dm.Tree); ok {
		have = cc["x"]
	}
	desc := fmt.Sprintf("%s %q into %s %s", c.Path, c.Values, c.Kind, kind)
	o.Class("expect-accept=%v", want)
	if want && werr != nil {
		o.Failf("restrict|"+c.Kind+"|rejected-inside|"+c.Path, "%s: a member of the type was rejected: %v", desc, werr)
		return
	}
	if !want && werr == nil {
		o.Failf("restrict|"+c.Kind+"|accepted-outside|"+c.Path, "%s: a value that is no member of the type was accepted (store holds %s)", desc, jsonOf(have))
		return
	}
	if !want && have != nil {
		o.Failf("restrict|"+c.Kind+"|stored-on-reject|"+c.Path, "%s: rejected (%v) but the store holds %s", desc, werr, jsonOf(have))
	}
}

var c05Member = hx.Register(&hx.Check[c05MemberCase]{
	Name: "c05-membership",
	Rule: "enumeration / bits / identityref / union leaves and leaf-lists written through SetValue, Upsert/Insert from JSON and Upsert from XML with declared and undeclared names, enum values, derived and unrelated identities, union members and non-members; the full product of kind x value set x path x leaf/leaf-list(1-2 elements) is enumerated; accepted iff member; a rejected write stores nothing",
	Run:  c05MemberRun,
})

func c05MemberProduct(yield func(c05MemberCase) bool) {
	for _, kind := range []string{"enumeration", "bits", "identityref", "union"} {
		vals := c05MemberValues[kind]
		for _, path := range []string{"setvalue", "upsert-json", "insert-json", "upsert-xml"} {
			for _, v := range vals {
				if path == "upsert-xml" && v != strings.TrimSpace(v) {
					continue // white space around a non-string value is not significant in XML
				}
				if !yield(c05MemberCase{Kind: kind, Values: []string{v}, Path: path}) {
					return
				}
				if kind == "union" {
					continue
				}
				if !yield(c05MemberCase{Kind: kind, Values: []string{v}, Path: path, LeafList: true}) {
					return
				}
				for _, w := range vals[:3] {
					if !yield(c05MemberCase{Kind: kind, Values: []string{w, v}, Path: path, LeafList: true}) {
						return
					}
				}
			}
		}
	}
}
