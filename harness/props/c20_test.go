package props

import (
	"fmt"
	"hash/fnv"
	"runtime"
	"strconv"
	"strings"
	"sync"
	"testing"

	yang "github.com/freeconf/yang"
	"github.com/freeconf/yang/meta"
	"github.com/freeconf/yang/node"
	"github.com/freeconf/yang/nodeutil"
	"github.com/freeconf/yang/parser"
	"pgregory.net/rapid"

	"verif/harness/dm"
	"verif/harness/hx"
	"verif/harness/ydump"
)

// ---- C20: a compiled schema is immutable shared state -----------------------------------------

type c20Op struct {
	Kind string  `json:"kind"` // load | export | upsert | find | json | xml | constrain | setvalue | delete
	Arg  string  `json:"arg,omitempty"`
	Data dm.Tree `json:"data,omitempty"`
}

type c20Case struct {
	Workers [][]c20Op `json:"workers"`
	Procs   int       `json:"procs"`
	Repeat  int       `json:"repeat"`
}

// the shared schema: fuzzModule plus groupings / uses / augment / typedefs so that loading exercises the resolver
func c20Module() *dm.Module {
	m := fuzzModule()
	leaf := func(n, b string) *dm.Node { return &dm.Node{Kind: "leaf", Name: n, Type: &dm.Type{Base: b}} }
	// definitions that a by-name lookup reaches only through the cases of choices: a choice nested in a case, a case added
	// by an augment, in a container and in a list
	nested := func(p string) *dm.Node {
		return &dm.Node{Kind: "choice", Name: p + "outer", Children: []*dm.Node{
			{Kind: "case", Name: p + "o1", Children: []*dm.Node{{Kind: "choice", Name: p + "inner", Children: []*dm.Node{
				{Kind: "case", Name: p + "i1", Children: []*dm.Node{leaf(p+"deepleaf", "int32")}},
				{Kind: "case", Name: p + "i2", Children: []*dm.Node{{Kind: "container", Name: p + "deepc", Children: []*dm.Node{leaf("y", "string")}}}}}}}},
			{Kind: "case", Name: p + "o2", Aug: true, Children: []*dm.Node{leaf(p+"augd", "string")}}}}
	}
	m.Top = append(m.Top, &dm.Node{Kind: "container", Name: "deep", Children: []*dm.Node{leaf("plain", "string"), nested(""),
		{Kind: "leaf-list", Name: "tags", Type: &dm.Type{Base: "string"}, Defaults: []string{"a", "b"}}, {Kind: "leaf-list", Name: "nums", Type: &dm.Type{Base: "int32"}, Defaults: []string{"1", "2"}}}},
		&dm.Node{Kind: "list", Name: "dl", Keys: []string{"k"}, Children: []*dm.Node{leaf("k", "string"), nested("l-")}})
	m.Identities = append(m.Identities, dm.Identity{Name: "id-z", Base: "idbase"}, dm.Identity{Name: "id-m", Base: "idbase"}, dm.Identity{Name: "id-c", Base: "idbase"}, dm.Identity{Name: "id-zz", Base: "id-z"})
	m.Extra = "typedef pt { type string { pattern \"[a-z]+\" { error-message \"lower\"; error-app-tag \"t1\"; } } } leaf p1 { type pt; } " +
		"leaf p2 { type string { pattern \"[a-z]+\" { error-message \"other\"; } pattern \"x.*\" { modifier invert-match; } } } leaf p3 { type string { pattern \"x.*\"; } } " +
		"typedef td { type int32 { range \"0..100\"; } default 7; units u; } grouping g { leaf gl { type td; } container gc { leaf x { type string; } } } " +
		"container used { uses g { refine gl { description \"r\"; } } } augment \"/used\" { leaf aug { type string; } } feature f; " +
		"augment \"/c/ch\" { case augcase { leaf augleaf { type string; } } } "
	return m
}

func c20Yang() string { return c20Module().Yang() }

var c20FcYangOnce sync.Once
var c20FcYangModule *meta.Module

// c20FcYang is the library's own schema of schemas, which describes what SchemaBrowser serves (loaded once: it is only read)
func c20FcYang() *meta.Module {
	c20FcYangOnce.Do(func() { c20FcYangModule = parser.RequireModule(yang.InternalYPath, "fc-yang") })
	return c20FcYangModule
}

var c20Queries = []string{"depth=1", "content=config", "fields=s;i", "fc.xfields=ll", "with-defaults=trim", "fc.range=l!0-1", "depth=2&content=all"}
var c20Paths = []string{"c", "l=a", "l=a/in=1,x", "l=b", "c/s", "l", "c?depth=1", "l?fc.range=l!0-0", "c?fields=s", "nothere", "l=zz",
	"deep/deepleaf", "deep/deepc", "deep/deepc/y", "deep/augd", "deep/plain", "c/augleaf", "c/ca", "c/cb/x", "dl=a/l-deepleaf", "dl=b/l-deepc/y", "dl=a/l-augd",
	"dl?where=l-deepleaf%3D1", "dl?where=l-deepleaf%3E0", "dl?where=l-augd%3D'q'", "deep?fields=deepleaf", "dl?fields=l-deepleaf"}

func c20Data() dm.Tree {
	d := fuzzData()
	d["deep"] = dm.Tree{"plain": "p", "deepleaf": "4"}
	d["dl"] = []interface{}{dm.Tree{"k": "a", "l-deepleaf": "1"}, dm.Tree{"k": "b", "l-deepc": dm.Tree{"y": "yy"}}, dm.Tree{"k": "c", "l-deepleaf": "2"}}
	return d
}

func c20RunOps(mm *meta.Module, ops []c20Op) []string {
	root := c20Module().Root()
	store, _ := dm.NewStore("rs-lenient", root, c20Data())
	var out []string
	add := func(s string, err error) {
		if err != nil {
			out = append(out, "ERR:"+err.Error())
		} else {
			out = append(out, s)
		}
	}
	for _, op := range ops {
		b := node.NewBrowser(mm, store.Node())
		switch op.Kind {
		case "load":
			m2, err := parser.LoadModuleFromString(nil, c20Yang())
			if err != nil {
				add("", err)
				continue
			}
			d, _ := ydump.Module(m2)
			flat := ydump.Flatten(d)
			h := fnv.New64a()
			for _, k := range sortedKeys(flat) {
				h.Write([]byte(k + "=" + flat[k] + "\n"))
			}
			add(fmt.Sprintf("%d entries, digest %x", len(flat), h.Sum64()), nil)
		case "scribble":
			// a fresh data tree gets a container whose leaf-lists take their defaults; the owner of the data then changes
			// what it was given (it is its data), which must not reach the module or anybody else's tree
			own := map[string]interface{}{}
			src, err := nodeutil.ReadJSON(`{"deep":{"plain":"mine"}}`)
			if err == nil {
				err = node.NewBrowser(mm, &nodeutil.Node{Object: own}).Root().UpsertFrom(src)
			}
			if err != nil {
				add("", err)
				continue
			}
			before := fmt.Sprint(own)
			n := 0
			var scribble func(v interface{})
			scribble = func(v interface{}) {
				switch x := v.(type) {
				case map[string]interface{}:
					for _, k := range sortedKeys(x) {
						scribble(x[k])
					}
				case map[interface{}]interface{}:
					for _, e := range x {
						scribble(e)
					}
				case []string:
					for i := range x {
						x[i] = "SCRIBBLED"
						n++
					}
				case []int32:
					for i := range x {
						x[i] = -1
						n++
					}
				}
			}
			scribble(own)
			add(fmt.Sprintf("%s; %d elements overwritten", before, n), nil)
		case "schema":
			// the schema served as data (nodeutil.SchemaBrowser), the way a server publishes it
			add(nodeutil.WriteJSON(nodeutil.SchemaBrowser(c20FcYang(), mm).Root()))
		case "export":
			got := dm.Tree{}
			err := b.Root().UpsertInto(dm.NewRS(root, got))
			add(jsonOf(got), err)
		case "upsert":
			src, err := nodeutil.ReadJSON(dm.ToJSON("", root, op.Data, dm.JSONStyle{Num64AsString: true}))
			if err != nil {
				add("", err)
				continue
			}
			add("upserted", b.Root().UpsertFrom(src))
		case "find":
			sel, err := b.Root().Find(op.Arg)
			if err != nil || sel == nil {
				add(fmt.Sprint(sel != nil), err)
				continue
			}
			if meta.IsLeaf(sel.Meta()) {
				v, e := sel.Get()
				add(fmt.Sprint(v), e)
			} else {
				add(nodeutil.WriteJSON(sel))
			}
		case "json":
			add(nodeutil.WriteJSON(b.Root()))
		case "json-broken-stream":
			// a client that hangs up in the middle of a long string: a tree of its own, written to a stream that fails
			// after op.Arg bytes; nobody else's output has anything to do with it
			own, _ := dm.NewStore("rs-lenient", root, dm.Tree{"c": dm.Tree{"s": strings.Repeat("long-", 1400), "i": "1"}})
			limit, _ := strconv.Atoi(op.Arg)
			w := &nodeutil.JSONWtr{Out: &failingWriter{limit: limit}}
			err := node.NewBrowser(mm, own.Node()).Root().InsertInto(w.Node())
			if err == nil {
				add("", fmt.Errorf("the broken stream took everything"))
			} else {
				add("broken stream reported", nil)
			}
		case "json-node":
			// the same data held by a slice-backed nodeutil.Node (its own case detection and key lookup)
			ns, err := dm.NewStore("node-slice", root, c20Data())
			if err != nil {
				add("", err)
				continue
			}
			add(nodeutil.WriteJSON(node.NewBrowser(mm, ns.Node()).Root()))
		case "xml":
			add(nodeutil.WriteXMLDoc(b.Root(), false))
		case "constrain":
			sel, err := b.Root().Constrain(op.Arg)
			if err != nil {
				add("", err)
				continue
			}
			add(nodeutil.WriteJSON(sel))
		case "setvalue":
			sel, err := b.Root().Find("c/i")
			if err != nil || sel == nil {
				add("", fmt.Errorf("find: %v", err))
				continue
			}
			add("set", sel.SetValue(op.Arg))
		case "delete":
			sel, err := b.Root().Find(op.Arg)
			if err != nil || sel == nil {
				add(fmt.Sprint(sel != nil), err)
				continue
			}
			add("deleted", sel.Delete())
		}
	}
	return out
}

func c20Run(c c20Case, o *hx.Obs) {
	if c.Procs > 0 {
		defer runtime.GOMAXPROCS(runtime.GOMAXPROCS(c.Procs))
	}
	// three instances of the same module: one never used (the reference dump), one used sequentially (what each worker
	// obtains alone), and a fresh one per repetition that the workers share - fresh, so that anything the library
	// initialises lazily on first use is initialised under concurrency
	load := func() *meta.Module {
		m, err := parser.LoadModuleFromString(nil, c20Yang())
		if err != nil {
			o.Failf("harness|schema-rejected", "%v\n%s", err, c20Yang())
			return nil
		}
		return m
	}
	pristine, alone := load(), load()
	if pristine == nil || alone == nil {
		return
	}
	before, _ := ydump.Module(pristine)
	beforeFlat := ydump.Flatten(before)
	loaders := 0
	for _, w := range c.Workers {
		for _, op := range w {
			o.Class("op=%s", op.Kind)
			if op.Kind == "load" || op.Kind == "constrain" {
				loaders++
			}
		}
	}
	o.Class("workers=%d", len(c.Workers))
	if len(c.Workers) >= 2 && loaders > 0 {
		o.NonTrivial()
	}
	// what each worker obtains when run alone
	want := make([][]string, len(c.Workers))
	for i, w := range c.Workers {
		want[i] = c20RunOps(alone, w)
	}
	// the long string of a broken-stream operation belongs to a tree of its own: it shows in nobody's results
	foreign := func(results [][]string, when string) bool {
		for i, rs := range results {
			for j, r := range rs {
				if strings.Contains(r, "long-long-") {
					o.Failf("divergence|foreign-data", "worker %d, operation %d (%s) %s: its result holds data of the tree another operation wrote to a broken stream: %.120s...", i, j, c.Workers[i][j].Kind, when, r)
					return true
				}
			}
		}
		return false
	}
	if foreign(want, "run alone") {
		return
	}
	// the whole-tree reads of the unchanged data have no reason to fail: an error there would make the comparison of
	// results vacuous (it did, for a while: the reference store refused the leaves the module text adds to the model)
	for i, w := range c.Workers {
		for j, op := range w {
			if (op.Kind == "json" || op.Kind == "xml" || op.Kind == "json-node" || op.Kind == "schema") && j < len(want[i]) && strings.HasPrefix(want[i][j], "ERR:reference store") {
				o.Failf("harness|op-error", "worker %d operation %d (%s) run alone: %s", i, j, op.Kind, want[i][j])
				return
			}
		}
	}
	rep := c.Repeat
	if rep < 1 {
		rep = 1
	}
	for r := 0; r < rep; r++ {
		mm := load()
		if mm == nil {
			return
		}
		got := make([][]string, len(c.Workers))
		var wg sync.WaitGroup
		start := make(chan struct{})
		panics := make([]string, len(c.Workers))
		for i := range c.Workers {
			wg.Add(1)
			go func(i int) {
				defer wg.Done()
				defer func() {
					if rec := recover(); rec != nil {
						panics[i] = fmt.Sprint(rec)
					}
				}()
				<-start
				got[i] = c20RunOps(mm, c.Workers[i])
			}(i)
		}
		close(start)
		wg.Wait()
		if foreign(got, "run concurrently") {
			return
		}
		for i := range c.Workers {
			if panics[i] != "" {
				o.Failf("divergence|panic", "worker %d panicked when run concurrently: %s", i, panics[i])
				return
			}
			if strings.Join(got[i], "\x00") != strings.Join(want[i], "\x00") {
				for j := range want[i] {
					if j >= len(got[i]) || got[i][j] != want[i][j] {
						g := "<missing>"
						if j < len(got[i]) {
							g = got[i][j]
						}
						o.Failf("divergence|"+c.Workers[i][j].Kind, "worker %d op %d (%s %s): concurrent result differs from the result when run alone:\n  alone:      %.300s\n  concurrent: %.300s", i, j, c.Workers[i][j].Kind, c.Workers[i][j].Arg, want[i][j], g)
						return
					}
				}
			}
		}
		after, _ := ydump.Module(mm)
		afterFlat := ydump.Flatten(after)
		for k, v := range beforeFlat {
			if afterFlat[k] != v {
				o.Failf("mutated-schema|"+lastSeg(k), "using the compiled module changed it: %s was %q, is %q", k, v, afterFlat[k])
				return
			}
		}
		if len(afterFlat) != len(beforeFlat) {
			o.Failf("mutated-schema|size", "using the compiled module changed it: %d dump entries before, %d after", len(beforeFlat), len(afterFlat))
			return
		}
	}
}

func lastSeg(k string) string {
	if i := strings.LastIndexByte(k, '/'); i >= 0 {
		return k[i+1:]
	}
	return k
}

func c20Gen(t *rapid.T) c20Case {
	nw := rapid.IntRange(2, 8).Draw(t, "workers")
	c := c20Case{Procs: rapid.SampledFrom([]int{1, 2, 4, 16}).Draw(t, "procs"), Repeat: 2}
	root := c20Module().Root()
	for i := 0; i < nw; i++ {
		var ops []c20Op
		n := rapid.IntRange(1, 5).Draw(t, "nops")
		for j := 0; j < n; j++ {
			kind := rapid.SampledFrom([]string{"load", "export", "upsert", "find", "json", "json-node", "xml", "constrain", "setvalue", "delete", "load", "constrain", "schema", "scribble", "json-broken-stream"}).Draw(t, "kind")
			op := c20Op{Kind: kind}
			switch kind {
			case "upsert":
				op.Data = dm.Subsample(t, root, dm.GenTree(t, root, dm.TreeOpts{MaxEntries: 2, EasyKeys: true, EasyStrings: true, PresentPct: 60, NoEmptyStr: true}), 70, 0, dm.TreeOpts{})
			case "find":
				op.Arg = rapid.SampledFrom(c20Paths).Draw(t, "path")
			case "constrain":
				op.Arg = rapid.SampledFrom(c20Queries).Draw(t, "query")
			case "setvalue":
				op.Arg = fmt.Sprint(rapid.IntRange(-5, 5).Draw(t, "val"))
			case "json-broken-stream":
				op.Arg = fmt.Sprint(rapid.SampledFrom([]int{0, 10, 4000, 4096, 4100, 5000, 6000}).Draw(t, "broken-at"))
			case "delete":
				op.Arg = rapid.SampledFrom([]string{"c", "l=a", "l=b", "l", "used", "deep/deepc", "dl=a", "deep"}).Draw(t, "delpath")
			}
			ops = append(ops, op)
		}
		c.Workers = append(c.Workers, ops)
	}
	return c
}

var c20Shared = hx.Register(&hx.Check[c20Case]{
	Name:    "c20-shared-schema",
	Journal: true,
	Rule:    "2-8 goroutines, each with its own reference store, run 1-5 operations {load the module text (groupings, uses, refine, augments also into a choice, typedefs), export, upsert from JSON, Find with and without query parameters (also to definitions that a lookup by name reaches only through nested choices and augmented cases, and where= expressions naming them), JSON write (also of a slice-backed nodeutil.Node), XML write, the schema itself served as data, a data owner overwriting the leaf-list values its new tree was given as defaults, Constrain + read, SetValue, Delete} against one shared compiled module that is freshly loaded for every repetition (so that lazily initialised state is first touched concurrently), under GOMAXPROCS 1/2/4/16, each workload twice; built with -race (halt on first report); every goroutine's results must equal what the same list yields alone and the module's accessor dump must be unchanged; non-trivial = at least one loader or constrained read among >= 2 goroutines",
	Gen:     c20Gen,
	Run:     c20Run,
})

func TestC20(t *testing.T) {
	s := hx.Begin(t, "C20")
	defer s.End()
	hx.Run(s, c20Cold, s.N(3, 6)) // first: only the first case of a process is cold
	hx.Run(s, c20Shared, s.N(150, 1200))
}
