package props

import (
	"github.com/freeconf/yang/meta"
	"fmt"
	"sort"
	"strings"
	"testing"

	"github.com/freeconf/yang/parser"
	"pgregory.net/rapid"

	"verif/harness/hx"
	"verif/harness/ydump"
)

// ---- C06: nothing written in a module is lost or altered --------------------------------------

type c06Case struct {
	Text   string            `json:"text"`
	Expect map[string]string `json:"expect"` // flattened public-accessor dump key -> value that must be read back
	Styles []string          `json:"styles"` // lexical styles used (classification)
	// Where maps an expectation key to "<statement keyword>|<style>" for the failure signature
	Where map[string]string `json:"where"`
}

type ygen struct {
	t      *rapid.T
	b      strings.Builder
	exp    map[string]string
	where  map[string]string
	styles map[string]bool
	n      int
	lexical bool // use hostile lexical styles and comments
}

func (g *ygen) id(prefix string) string {
	g.n++
	return fmt.Sprintf("%s%d", prefix, g.n)
}

// gap writes the separator between two tokens: blanks, newlines, comments
func (g *ygen) gap() {
	if !g.lexical {
		g.b.WriteString(" ")
		return
	}
	switch rapid.IntRange(0, 11).Draw(g.t, "gap") {
	case 0:
		g.b.WriteString("\n\t")
	case 1:
		g.b.WriteString(" /* c */ ")
		g.styles["block-comment"] = true
	case 2:
		g.b.WriteString(" // c\n ")
		g.styles["line-comment"] = true
	case 3:
		g.b.WriteString("   ")
	case 4:
		g.b.WriteString(" /* a ; { } \" ' */ ")
		g.styles["block-comment"] = true
	default:
		g.b.WriteString(" ")
	}
}

var c06Texts = []string{"plain", "two words", "a \"quoted\" word", "it's", "back\\slash", "semi;colon", "brace{s}", "tab\there", "line1\nline2", "line1\n\nline3", "a+b", "a + b",
	"// not a comment", "/* nor this */", "trailing space ", " leading", "é ü 日本", "x", "", "1.0", "a/b:c", "\"", "'", "\\", "\\n literal", "q'uo\"te", "end\\"}

func canUnquoted(s string) bool {
	if s == "" || strings.ContainsAny(s, " \t\n\r;{}\"'+") || strings.Contains(s, "//") || strings.Contains(s, "/*") || strings.Contains(s, "*/") || strings.HasPrefix(s, "\\") {
		return false
	}
	return true
}

func dquote(s string) string {
	r := strings.NewReplacer("\\", "\\\\", "\"", "\\\"", "\n", "\\n", "\t", "\\t")
	return "\"" + r.Replace(s) + "\""
}

// str renders a string argument in one of the lexical styles RFC 7950 6.1.3 allows.
func (g *ygen) str(s string, allowConcat bool) (string, string) {
	var styles []string
	if canUnquoted(s) {
		styles = append(styles, "plain")
	}
	if !strings.Contains(s, "'") {
		styles = append(styles, "squote")
	}
	styles = append(styles, "dquote")
	if allowConcat && len([]rune(s)) >= 2 {
		styles = append(styles, "concat")
	}
	if strings.Contains(s, "\n") && !strings.Contains(s, " \n") && !strings.Contains(s, "\t\n") && !strings.Contains(s, "\n ") && !strings.Contains(s, "\n\t") {
		styles = append(styles, "multiline")
	}
	if !g.lexical {
		styles = styles[:1]
	}
	st := rapid.SampledFrom(styles).Draw(g.t, "style")
	switch st {
	case "plain":
		return s, st
	case "squote":
		return "'" + s + "'", st
	case "dquote":
		if strings.ContainsAny(s, "\\\"\n\t") {
			st = "dquote-escape"
		}
		return dquote(s), st
	case "concat":
		r := []rune(s)
		if rapid.IntRange(0, 5).Draw(g.t, "many-parts") == 0 {
			// one character per part, padded with empty parts: any number of parts is legal
			var parts []string
			for _, c := range r {
				parts = append(parts, dquote(string(c)))
			}
			for want := rapid.SampledFrom([]int{3, 20, 31, 32, 33, 40, 70}).Draw(g.t, "nparts"); len(parts) < want; {
				at := rapid.IntRange(0, len(parts)).Draw(g.t, "pad-at")
				parts = append(parts[:at], append([]string{"''"}, parts[at:]...)...)
			}
			return strings.Join(parts, " + "), "concat-many"
		}
		k := rapid.IntRange(1, len(r)-1).Draw(g.t, "split")
		a, _ := g.str(string(r[:k]), false)
		b, _ := g.str(string(r[k:]), false)
		if !strings.HasPrefix(a, "\"") && !strings.HasPrefix(a, "'") {
			a = dquote(string(r[:k]))
		}
		if !strings.HasPrefix(b, "\"") && !strings.HasPrefix(b, "'") {
			b = dquote(string(r[k:]))
		}
		return a + " + " + b, st
	case "multiline":
		// the string starts on its own line at column 4; continuation lines are indented to column 5
		esc := strings.NewReplacer("\\", "\\\\", "\"", "\\\"", "\t", "\\t").Replace(s)
		return "\n    \"" + strings.ReplaceAll(esc, "\n", "\n     ") + "\"", st
	}
	return dquote(s), "dquote"
}

// sarg writes `kw <string>;` and records the expectation under key.
func (g *ygen) sarg(kw, value, key string, allowConcat bool) {
	r, st := g.str(value, allowConcat)
	g.styles[st] = true
	g.b.WriteString(kw)
	if st != "multiline" {
		g.gap()
	}
	g.b.WriteString(r)
	if g.lexical && rapid.IntRange(0, 5).Draw(g.t, "gap-before-semi") == 0 {
		g.gap()
	}
	g.b.WriteString(";")
	g.gap()
	if key != "" {
		g.exp[key] = value
		g.where[key] = kw + "|" + st
	}
}

func (g *ygen) text() string { return rapid.SampledFrom(c06Texts).Draw(g.t, "text") }

func (g *ygen) open(kw, arg string) {
	g.b.WriteString(kw)
	g.gap()
	g.b.WriteString(arg)
	g.gap()
	g.b.WriteString("{")
	g.gap()
}

// block writes `kw arg { body }`, or `kw arg;` when the body turns out empty (several statements have no
// rule for an empty body in the pinned grammar; the short form is equivalent).
func (g *ygen) block(kw, arg string, body func()) {
	saved := g.b
	g.b = strings.Builder{}
	body()
	inner := g.b.String()
	g.b = strings.Builder{}
	g.b.WriteString(saved.String())
	stripped := inner
	for _, c := range []string{"/* c */", "/* a ; { } \" ' */"} {
		stripped = strings.ReplaceAll(stripped, c, "")
	}
	for strings.Contains(stripped, "// c\n") {
		stripped = strings.ReplaceAll(stripped, "// c\n", "")
	}
	if strings.TrimSpace(stripped) == "" {
		g.b.WriteString(kw)
		g.gap()
		g.b.WriteString(arg + ";")
		g.gap()
		return
	}
	g.open(kw, arg)
	g.b.WriteString(inner)
	g.close()
}

func (g *ygen) close() {
	g.b.WriteString("}")
	g.gap()
}

func (g *ygen) maybe(label string) bool { return rapid.IntRange(0, 2).Draw(g.t, label) > 0 }

func (g *ygen) descRef(path string) {
	if g.maybe("desc?") {
		g.sarg("description", g.text(), path+"/Description", true)
	}
	if g.maybe("ref?") {
		g.sarg("reference", g.text(), path+"/Reference", true)
	}
}

func (g *ygen) musts(path string) {
	n := rapid.IntRange(0, 2).Draw(g.t, "nmust")
	for i := 0; i < n; i++ {
		expr := rapid.SampledFrom([]string{"a = 1", "../b != 'x'", "c", "count(d) > 0", "e = \"q\""}).Draw(g.t, "mustexpr")
		mp := fmt.Sprintf("%s/Musts[%d]", path, i)
		r, st := g.str(expr, true)
		g.styles[st] = true
		g.exp[mp+"/Expression"] = expr
		g.where[mp+"/Expression"] = "must|" + st
		if g.maybe("mustbody?") {
			g.block("must", r, func() {
				if g.maybe("em?") {
					g.sarg("error-message", g.text(), mp+"/ErrorMessage", true)
				}
				if g.maybe("eat?") {
					g.sarg("error-app-tag", rapid.SampledFrom([]string{"tag-1", "too big", "x"}).Draw(g.t, "eat"), mp+"/ErrorAppTag", true)
				}
				g.descRef(mp)
			})
		} else {
			g.b.WriteString("must")
			g.gap()
			g.b.WriteString(r + ";")
			g.gap()
		}
	}
}

func (g *ygen) exts(path string, pos *int) {
	if *pos != 0 || !g.maybe("ext?") {
		return
	}
	n := rapid.IntRange(1, 2).Draw(g.t, "next")
	for i := 0; i < n; i++ {
		ep := fmt.Sprintf("%s/Extensions[%s]", path, "x1")
		if i == 1 {
			ep = fmt.Sprintf("%s/Extensions[%s]", path, "x2")
		}
		if i == 0 {
			arg := rapid.SampledFrom([]string{"arg", "two words", "7", "a;b"}).Draw(g.t, "extarg")
			r, st := g.str(arg, false)
			g.styles[st] = true
			g.b.WriteString("p:x1")
			g.gap()
			g.b.WriteString(r + ";")
			g.gap()
			g.exp[ep+"/Argument"] = arg
			g.where[ep+"/Argument"] = "extension|" + st
		} else {
			g.b.WriteString("p:x2;")
			g.gap()
		}
		g.exp[ep+"/Prefix"] = "p"
		g.where[ep+"/Prefix"] = "extension|plain"
		g.exp[ep+"/_pos"] = fmt.Sprint(*pos)
		g.where[ep+"/_pos"] = "extension|order"
		*pos++
	}
}

func (g *ygen) typeStmt(path string) {
	switch rapid.IntRange(0, 6).Draw(g.t, "typekind") {
	case 0:
		g.b.WriteString("type string;")
		g.gap()
		g.exp[path+"/Type/Ident"] = "string"
		g.where[path+"/Type/Ident"] = "type|plain"
	case 1:
		g.open("type", "string")
		ln := rapid.SampledFrom([]string{"1..5", "0 | 2..10", "min..3", "4"}).Draw(g.t, "length")
		r, st := g.str(ln, true)
		g.styles[st] = true
		if g.maybe("lenbody?") {
			g.open("length", r)
			g.sarg("error-message", g.text(), path+"/Type/Length[0]/ErrorMessage", true)
			g.close()
		} else {
			g.b.WriteString("length " + r + ";")
			g.gap()
		}
		g.exp[path+"/Type/Length[0]/String"] = strings.Join(strings.Fields(strings.ReplaceAll(ln, "|", " | ")), "")
		g.where[path+"/Type/Length[0]/String"] = "length|" + st
		pat := rapid.SampledFrom([]string{"[a-z]+", "a\\d*", "x y", "[^\"']*", "(a|b)+"}).Draw(g.t, "pattern")
		if g.maybe("pattern?") {
			// the same few pattern texts recur on many leaves with different substatements
			pp := path + "/Type/Patterns[0]"
			r, st := g.str(pat, true)
			g.styles[st] = true
			g.exp[pp+"/.Pattern"] = pat
			g.where[pp+"/.Pattern"] = "pattern|" + st
			g.exp[pp+"/Inverted"], g.where[pp+"/Inverted"] = "false", "pattern-detail|plain"
			g.exp[pp+"/ErrorMessage"], g.where[pp+"/ErrorMessage"] = "", "pattern-detail|plain"
			g.exp[pp+"/ErrorAppTag"], g.where[pp+"/ErrorAppTag"] = "", "pattern-detail|plain"
			g.exp[pp+"/Description"], g.where[pp+"/Description"] = "", "pattern-detail|plain"
			if g.maybe("patbody?") {
				g.block("pattern", r, func() {
					if g.maybe("inv?") {
						g.b.WriteString("modifier")
						g.gap()
						g.b.WriteString("invert-match;")
						g.gap()
						g.exp[pp+"/Inverted"] = "true"
					}
					if g.maybe("em?") {
						g.sarg("error-message", g.text(), pp+"/ErrorMessage", true)
					}
					if g.maybe("eat?") {
						g.sarg("error-app-tag", rapid.SampledFrom([]string{"tag-1", "too big", "x"}).Draw(g.t, "eat"), pp+"/ErrorAppTag", true)
					}
					if g.maybe("desc?") {
						g.sarg("description", g.text(), pp+"/Description", true)
					}
				})
			} else {
				g.b.WriteString("pattern")
				if st != "multiline" {
					g.gap()
				}
				g.b.WriteString(r + ";")
				g.gap()
			}
		}
		g.close()
	case 2:
		g.open("type", "int32")
		rg := rapid.SampledFrom([]string{"1..10", "-5..5 | 100", "min..0", "7"}).Draw(g.t, "range")
		g.sarg("range", rg, "", true)
		g.exp[path+"/Type/Range[0]/String"] = strings.Join(strings.Fields(rg), "")
		g.where[path+"/Type/Range[0]/String"] = "range|?"
		g.close()
	case 3:
		g.open("type", "enumeration")
		n := rapid.IntRange(1, 3).Draw(g.t, "nenum")
		val := 0
		for i := 0; i < n; i++ {
			name := []string{"alpha", "beta-2", "gamma_3"}[i]
			ep := fmt.Sprintf("%s/Type/Enums[%s]", path, name)
			if g.maybe("enumbody?") {
				g.block("enum", name, func() {
					if g.maybe("enumval?") {
						val += rapid.IntRange(1, 5).Draw(g.t, "dv")
						g.b.WriteString(fmt.Sprintf("value %d;", val))
						g.gap()
					} else if i > 0 {
						val++
					}
					g.descRef(ep)
				})
			} else {
				if i > 0 {
					val++
				}
				g.b.WriteString("enum " + name + ";")
				g.gap()
			}
			g.exp[ep+"/Value"] = fmt.Sprint(val)
			g.where[ep+"/Value"] = "enum|value"
			g.exp[ep+"/_pos"] = fmt.Sprint(i)
			g.where[ep+"/_pos"] = "enum|order"
		}
		g.close()
	case 4:
		g.open("type", "union")
		g.b.WriteString("type int8; type string;")
		g.gap()
		g.close()
		g.exp[path+"/Type/UnionFormats[0]"] = "int8"
		g.exp[path+"/Type/UnionFormats[1]"] = "string"
		g.where[path+"/Type/UnionFormats[0]"], g.where[path+"/Type/UnionFormats[1]"] = "union|order", "union|order"
	case 5:
		g.open("type", "decimal64")
		fd := rapid.IntRange(1, 6).Draw(g.t, "fd")
		g.b.WriteString(fmt.Sprintf("fraction-digits %d;", fd))
		g.gap()
		g.close()
		g.exp[path+"/Type/FractionDigits"] = fmt.Sprint(fd)
		g.where[path+"/Type/FractionDigits"] = "fraction-digits|plain"
	default:
		g.b.WriteString("type td1;")
		g.gap()
		g.exp[path+"/Type/Ident"] = "td1"
		g.where[path+"/Type/Ident"] = "type|plain"
	}
}

func (g *ygen) boolStmt(kw, key string) {
	v := rapid.Bool().Draw(g.t, kw)
	g.b.WriteString(fmt.Sprintf("%s %v;", kw, v))
	g.gap()
	g.exp[key] = fmt.Sprint(v)
	g.where[key] = kw + "|plain"
}

// dataNode writes one data definition under parent path; returns its name.
func (g *ygen) dataNode(parent string, depth int, cfgParent bool) string {
	kinds := []string{"leaf", "leaf", "leaf-list", "anyxml"}
	if depth < 2 {
		kinds = append(kinds, "container", "list", "choice")
	}
	kind := rapid.SampledFrom(kinds).Draw(g.t, "kind")
	name := g.id(map[string]string{"leaf": "lf", "leaf-list": "ll", "anyxml": "ax", "container": "co", "list": "li", "choice": "ch"}[kind])
	path := parent + "/DataDefinitions[" + name + "]"
	extPos := 0
	switch kind {
	case "leaf":
		g.open("leaf", name)
		// substatements in random order where YANG gives order no meaning
		parts := []func(){func() { g.typeStmt(path) }, func() { g.descRef(path) }, func() { g.musts(path) }, func() { g.exts(path, &extPos) },
			func() {
				if g.maybe("units?") {
					g.sarg("units", rapid.SampledFrom([]string{"ms", "km/h", "per cent", "°C"}).Draw(g.t, "units"), path+"/Units", false)
				}
			},
			func() {
				if g.maybe("mandatory?") {
					g.boolStmt("mandatory", path+"/Mandatory")
				}
			},
			func() {
				if rapid.IntRange(0, 3).Draw(g.t, "status?") == 0 {
					st := rapid.SampledFrom([]string{"current", "deprecated", "obsolete"}).Draw(g.t, "status")
					g.b.WriteString("status " + st + ";")
					g.gap()
					g.exp[path+"/Status"] = map[string]string{"current": "0", "deprecated": "1", "obsolete": "2"}[st]
					g.where[path+"/Status"] = "status|plain"
				}
			},
			func() {
				if cfgParent && g.maybe("config?") {
					g.boolStmt("config", path+"/Config")
				}
			},
			func() {
				if extPos == 0 && rapid.IntRange(0, 3).Draw(g.t, "default-ext?") == 0 {
					// an extension written inside the body of a secondary statement belongs to that statement
					g.b.WriteString("default \"dv\" { p:x2; }")
					g.gap()
					g.exp[path+"/Default"] = "dv"
					g.where[path+"/Default"] = "default|dquote"
					ep := path + "/Extensions[x2]"
					g.exp[ep+"/Keyword"] = "default"
					g.where[ep+"/Keyword"] = "extension|secondary"
					g.exp[ep+"/Prefix"] = "p"
					g.where[ep+"/Prefix"] = "extension|secondary"
					g.exp[ep+"/_pos"] = "0"
					g.where[ep+"/_pos"] = "extension|secondary"
					extPos = 100 // no further extensions on this leaf (positions would interleave)
				}
			},
			func() {
				if g.maybe("when?") {
					g.sarg("when", rapid.SampledFrom([]string{"../a = 1", "b", "c != 'x y'"}).Draw(g.t, "when"), path+"/When/Expression", true)
				}
			}}
		perm := rapid.Permutation(parts).Draw(g.t, "perm")
		// musts and extensions keep their own relative order; everything else may move
		for _, p := range perm {
			p()
		}
		g.close()
	case "leaf-list":
		g.open("leaf-list", name)
		g.b.WriteString("type string;")
		g.gap()
		g.descRef(path)
		if g.maybe("min?") {
			n := rapid.IntRange(0, 3).Draw(g.t, "min")
			g.b.WriteString(fmt.Sprintf("min-elements %d;", n))
			g.gap()
			g.exp[path+"/MinElements"] = fmt.Sprint(n)
			g.where[path+"/MinElements"] = "min-elements|plain"
		}
		if g.maybe("max?") {
			if rapid.Bool().Draw(g.t, "unbounded") {
				g.b.WriteString("max-elements unbounded;")
				g.exp[path+"/Unbounded"] = "true"
				g.where[path+"/Unbounded"] = "max-elements|plain"
			} else {
				n := rapid.IntRange(4, 9).Draw(g.t, "max")
				g.b.WriteString(fmt.Sprintf("max-elements %d;", n))
				g.exp[path+"/MaxElements"] = fmt.Sprint(n)
				g.where[path+"/MaxElements"] = "max-elements|plain"
			}
			g.gap()
		}
		if g.maybe("ordered?") {
			ob := rapid.SampledFrom([]string{"user", "system"}).Draw(g.t, "ob")
			g.b.WriteString("ordered-by " + ob + ";")
			g.gap()
			g.exp[path+"/OrderedBy"] = map[string]string{"system": "0", "user": "1"}[ob]
			g.where[path+"/OrderedBy"] = "ordered-by|plain"
		}
		nd := rapid.IntRange(0, 3).Draw(g.t, "ndefault")
		for i := 0; i < nd; i++ {
			g.sarg("default", rapid.SampledFrom([]string{"d one", "d2", "it's", "d;4"}).Draw(g.t, "lldefault"), fmt.Sprintf("%s/Default[%d]", path, i), true)
		}
		g.close()
	case "anyxml":
		g.open("anyxml", name)
		g.sarg("description", g.text(), path+"/Description", true)
		g.close()
	case "container":
		g.open("container", name)
		cfg := cfgParent
		if g.maybe("presence?") {
			g.sarg("presence", g.text(), path+"/Presence", true)
		}
		if cfgParent && g.maybe("config?") {
			v := rapid.Bool().Draw(g.t, "config")
			g.b.WriteString(fmt.Sprintf("config %v;", v))
			g.gap()
			g.exp[path+"/Config"] = fmt.Sprint(v)
			g.where[path+"/Config"] = "config|plain"
			cfg = v
		}
		g.descRef(path)
		g.musts(path)
		g.exts(path, &extPos)
		g.children(path, depth+1, cfg)
		g.close()
	case "list":
		g.open("list", name)
		// key leaves first so names are known
		keys := []string{g.id("k"), g.id("k")}
		nk := rapid.IntRange(1, 2).Draw(g.t, "nkeys")
		keys = keys[:nk]
		keyArg := strings.Join(keys, " ")
		if g.lexical && nk == 2 && rapid.Bool().Draw(g.t, "keyws") {
			keyArg = strings.Join(keys, rapid.SampledFrom([]string{"  ", "\t", "\n  "}).Draw(g.t, "keysep"))
		}
		r, st := g.str(keyArg, false)
		if st == "plain" {
			r, st = "\""+keyArg+"\"", "dquote"
		}
		g.styles[st] = true
		g.b.WriteString("key")
		g.gap()
		g.b.WriteString(r + ";")
		g.gap()
		g.exp[path+"/KeyMeta"] = "[" + strings.Join(keys, " ") + "]"
		g.where[path+"/KeyMeta"] = "key|" + st
		g.descRef(path)
		for i, k := range keys {
			g.b.WriteString("leaf " + k + " { type string; }")
			g.gap()
			g.exp[path+"/DataDefinitions["+k+"]/_pos"] = fmt.Sprint(i)
			g.where[path+"/DataDefinitions["+k+"]/_pos"] = "leaf|order"
		}
		u1, u2 := g.id("u"), g.id("u")
		g.b.WriteString("leaf " + u1 + " { type string; } leaf " + u2 + " { type string; }")
		g.gap()
		if g.maybe("unique?") {
			g.sarg("unique", u1+" "+u2, "", false)
			g.exp[path+"/Unique[0][0]"], g.exp[path+"/Unique[0][1]"] = u1, u2
			g.where[path+"/Unique[0][0]"], g.where[path+"/Unique[0][1]"] = "unique|?", "unique|?"
		}
		g.close()
	case "choice":
		g.open("choice", name)
		g.descRef(path)
		nc := rapid.IntRange(1, 3).Draw(g.t, "ncases")
		for i := 0; i < nc; i++ {
			cn := g.id("cs")
			cp := path + "/Cases/" + cn
			if rapid.Bool().Draw(g.t, "shorthand") {
				g.b.WriteString("leaf " + cn + " { type string; }")
				g.gap()
				g.exp[cp+"/DataDefinitions["+cn+"]/Ident"] = cn
				g.where[cp+"/DataDefinitions["+cn+"]/Ident"] = "case|shorthand"
			} else {
				g.open("case", cn)
				g.descRef(cp)
				g.children(cp, depth+2, cfgParent)
				g.close()
			}
		}
		g.close()
	}
	return name
}

func (g *ygen) children(path string, depth int, cfg bool) {
	n := rapid.IntRange(1, 4).Draw(g.t, "nchildren")
	for i := 0; i < n; i++ {
		name := g.dataNode(path, depth, cfg)
		key := path + "/DataDefinitions[" + name + "]/_pos"
		g.exp[key] = fmt.Sprint(i)
		g.where[key] = "sibling|order"
	}
}

func c06Gen(lexical bool) func(t *rapid.T) c06Case {
	return func(t *rapid.T) c06Case {
		g := &ygen{t: t, exp: map[string]string{}, where: map[string]string{}, styles: map[string]bool{}, lexical: lexical}
		g.open("module", "fm")
		g.sarg("namespace", rapid.SampledFrom([]string{"urn:fm", "http://example.com/ns?x=1&y=2", "urn:a b"}).Draw(t, "ns"), "/Namespace", true)
		g.sarg("prefix", "p", "/Prefix", false)
		hdr := []func(){
			func() { g.sarg("organization", g.text(), "/Organization", true) },
			func() { g.sarg("contact", g.text(), "/Contact", true) },
			func() { g.sarg("description", g.text(), "/Description", true) },
			func() { g.sarg("reference", g.text(), "/Reference", true) },
		}
		for _, h := range rapid.Permutation(hdr).Draw(t, "hdrperm") {
			if g.maybe("hdr?") {
				h()
			}
		}
		nrev := rapid.IntRange(0, 3).Draw(t, "nrev")
		years := rapid.Permutation([]int{18, 19, 20}).Draw(t, "revyears") // revisions are kept as written, whatever their dates
		for i := 0; i < nrev; i++ {
			rev := fmt.Sprintf("20%02d-0%d-1%d", years[i], i+1, i)
			rp := "/Revisions[" + rev + "]"
			if g.maybe("revbody?") {
				g.block("revision", rev, func() { g.descRef(rp) })
			} else {
				g.b.WriteString("revision " + rev + ";")
				g.gap()
			}
			g.exp[rp+"/_pos"] = fmt.Sprint(i)
			g.where[rp+"/_pos"] = "revision|order"
		}
		g.b.WriteString("extension x1 { argument a; } extension x2;")
		g.gap()
		nf := rapid.IntRange(0, 2).Draw(t, "nfeat")
		for i := 0; i < nf; i++ {
			fn := g.id("feat")
			g.block("feature", fn, func() { g.descRef("/Features/" + fn) })
		}
		ni := rapid.IntRange(0, 3).Draw(t, "nident")
		var idents []string
		for i := 0; i < ni; i++ {
			in := g.id("idn")
			g.block("identity", in, func() {
				if len(idents) > 0 && g.maybe("base?") {
					base := rapid.SampledFrom(idents).Draw(t, "base")
					g.b.WriteString("base " + base + ";")
					g.gap()
					g.exp["/Identities/"+in+"/BaseIds[0]"] = base
					g.where["/Identities/"+in+"/BaseIds[0]"] = "base|plain"
				}
				g.descRef("/Identities/" + in)
			})
			idents = append(idents, in)
		}
		g.open("typedef", "td1")
		g.b.WriteString("type int32;")
		g.gap()
		if g.maybe("tdunits?") {
			g.sarg("units", rapid.SampledFrom([]string{"s", "m s", "kg"}).Draw(t, "tdunits"), "/Typedefs/td1/Units", false)
		}
		g.descRef("/Typedefs/td1")
		g.close()
		g.children("", 0, true)
		if g.maybe("rpc?") {
			rn := g.id("rp")
			g.open("rpc", rn)
			g.sarg("description", g.text(), "/Actions/"+rn+"/Description", true)
			if g.maybe("input?") {
				g.open("input", "")
				g.children("/Actions/"+rn+"/Input", 2, true)
				g.close()
			}
			g.close()
		}
		if g.maybe("notif?") {
			nn := g.id("nt")
			g.open("notification", nn)
			g.descRef("/Notifications/" + nn)
			g.children("/Notifications/"+nn, 2, true)
			g.close()
		}
		g.b.WriteString("}")
		if lexical && rapid.Bool().Draw(t, "trailing") {
			g.b.WriteString(rapid.SampledFrom([]string{"\n", " // end", " /* end */", "\n\n"}).Draw(t, "trail"))
		}
		c := c06Case{Text: g.b.String(), Expect: g.exp, Where: g.where}
		for s := range g.styles {
			c.Styles = append(c.Styles, s)
		}
		sort.Strings(c.Styles)
		return c
	}
}

func c06Run(c c06Case, o *hx.Obs) {
	for _, s := range c.Styles {
		o.Class("style=%s", s)
		if s != "plain" && s != "squote" && s != "dquote" {
			o.NonTrivial()
		}
	}
	var flats []map[string]string
	for round := 0; round < 3; round++ {
		var f map[string]string
		var err error
		if o.Guard("LoadModule", func() {
			m, e := parser.LoadModuleFromString(nil, c.Text)
			if e != nil {
				err = e
				return
			}
			d, dd := ydump.Module(m)
			if len(dd.Panics) > 0 {
				err = fmt.Errorf("accessor panics: %v", dd.Panics)
				return
			}
			f = ydump.Flatten(d)
		}) {
			return
		}
		if err != nil {
			o.Failf("fidelity|module|rejected|"+strings.Join(c.Styles, "+"), "a well-formed module was rejected: %v\n%s", err, c.Text)
			return
		}
		flats = append(flats, f)
	}
	f := flats[0]
	keys := make([]string, 0, len(c.Expect))
	for k := range c.Expect {
		keys = append(keys, k)
	}
	sort.Strings(keys)
	nfail := 0
	for _, k := range keys {
		want := c.Expect[k]
		got, ok := f[k]
		w := c.Where[k]
		switch {
		case !ok && want == "":
		case !ok:
			o.Failf("fidelity|"+w+"|lost", "%s: written %q, nothing read back\n%s", k, want, c.Text)
			nfail++
		case got != want:
			clause := "altered"
			if strings.HasSuffix(k, "/_pos") {
				clause = "order"
			}
			o.Failf("fidelity|"+w+"|"+clause, "%s: written %q, read back %q\n%s", k, want, got, c.Text)
			nfail++
		}
		// every expectation is checked (a known finding on one statement must not hide another statement)
		if nfail >= 12 {
			break
		}
	}
	// extensions: exactly the ones written
	for k := range f {
		if strings.Contains(k, "/Extensions[") && strings.HasSuffix(k, "/Ident") {
			base := strings.TrimSuffix(k, "/Ident")
			if _, expected := c.Expect[base+"/Prefix"]; !expected {
				o.Failf("fidelity|extension|duplicated", "%s: an extension instance appears that was not written there\n%s", base, c.Text)
				return
			}
		}
	}
	// the same text with CR LF line ends gives the same schema whichever way it reaches the parser: as a string, by
	// name through an opener, and as an imported module (whose dump is taken through the importing module)
	crlf := strings.ReplaceAll(c.Text, "\n", "\r\n")
	flatOf := func(load func() (*meta.Module, error)) (map[string]string, error) {
		var out map[string]string
		var err error
		if o.Guard("LoadModule(CR LF)", func() {
			m, e := load()
			if e != nil {
				err = e
				return
			}
			d, _ := ydump.Module(m)
			out = ydump.Flatten(d)
		}) {
			return nil, fmt.Errorf("panic")
		}
		return out, err
	}
	files := map[string]string{"fm.yang": crlf}
	viaString, e1 := flatOf(func() (*meta.Module, error) { return parser.LoadModuleFromString(nil, crlf) })
	viaOpener, e2 := flatOf(func() (*meta.Module, error) { return parser.LoadModule(memOpener(files), "fm") })
	if (e1 == nil) != (e2 == nil) {
		o.Failf("fidelity|module|load-path|rejected", "with CR LF line ends LoadModuleFromString says %v, LoadModule through an opener says %v\n%q", e1, e2, crlf)
		return
	}
	if e1 == nil {
		for k, v := range viaString {
			if viaOpener[k] != v {
				o.Failf("fidelity|module|load-path", "with CR LF line ends %s is %q when the text is given as a string and %q when it is loaded by name through an opener", k, v, viaOpener[k])
				return
			}
		}
		if len(viaOpener) != len(viaString) {
			o.Failf("fidelity|module|load-path", "with CR LF line ends the two ways of loading give %d and %d dump entries", len(viaString), len(viaOpener))
			return
		}
	}
	// loading the same text again yields an identical schema
	for i := 1; i < len(flats); i++ {
		if len(flats[i]) != len(f) {
			o.Failf("fidelity|module|nondeterministic", "load %d produced %d dump entries, the first %d", i, len(flats[i]), len(f))
			return
		}
		for k, v := range f {
			if flats[i][k] != v {
				o.Failf("fidelity|module|nondeterministic", "load %d: %s is %q, was %q in the first load", i, k, flats[i][k], v)
				return
			}
		}
	}
}

var c06Plain = hx.Register(&hx.Check[c06Case]{
	Name: "c06-fidelity-plain",
	Rule: "a generated module exercising header statements, revisions, extension definitions and instances, features, identities, typedefs and every data node kind with description / reference / presence / config / mandatory / min-max-elements / ordered-by / key / unique / when / must (error-message, error-app-tag) / units / defaults / type details, rendered in the simplest lexical style; every written argument must be read back unchanged through the public accessors, siblings in textual order, and three loads must agree; non-trivial cases are counted by the lexical check",
	Gen:  c06Gen(false),
	Run:  c06Run,
})

var c06Lexical = hx.Register(&hx.Check[c06Case]{
	Name: "c06-fidelity-lexical",
	Rule: "the same modules rendered with random lexical styles per argument (unquoted, single-quoted, double-quoted with the escapes \\n \\t \\\" \\\\, '+' concatenation, multi-line strings with layout indentation) and block / line comments and arbitrary white space between any two tokens; oracle = RFC 7950 6.1.3 value of each argument; non-trivial = an argument needed escapes, concatenation or multi-line layout, or a comment sits between tokens",
	Gen:  c06Gen(true),
	Run:  c06Run,
})

func TestC06(t *testing.T) {
	s := hx.Begin(t, "C06")
	defer s.End()
	hx.Run(s, c06Plain, s.N(1500, 12000))
	hx.Run(s, c06Lexical, s.N(2500, 25000))
}
