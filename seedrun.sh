#!/bin/bash
# seedrun.sh <id> [tier] [property] : apply seeded/<id>/patch.diff to /repo, run the property's check, undo. Prints CAUGHT / MISSED.
id=$1; tier=${2:-quick}
if grep -q "\"obsolete\"" /verif/seeded/$id/meta.json; then echo "$id: OBSOLETE"; exit 0; fi
prop=${3:-${id%%-*}}   # a third argument runs another property's check against the change
cd /repo || exit 2
if [ -n "$(git status --porcelain)" ]; then echo "/repo not clean"; exit 2; fi
git apply /verif/seeded/$id/patch.diff || { echo "$id: patch does not apply"; exit 2; }
cd /verif
# the evidence file must describe runs against /repo itself: keep the committed one
cp evidence/$prop.json /tmp/seedrun-evidence-$prop.json 2>/dev/null
out=$(./check $prop --tier $tier 2>&1); rc=$?
[ -f /tmp/seedrun-evidence-$prop.json ] && mv /tmp/seedrun-evidence-$prop.json evidence/$prop.json
git -C /repo checkout -- . ; 
if [ $rc -eq 1 ]; then echo "$id $tier: CAUGHT  $(echo "$out" | grep -c VIOLATION) violation line(s); $(echo "$out" | grep -E "^$prop $tier:" | cut -c1-120)"; 
elif [ $rc -eq 0 ]; then echo "$id $tier: MISSED  $(echo "$out" | grep -E "^$prop $tier:" | cut -c1-120)";
else echo "$id $tier: INCONCLUSIVE rc=$rc $(echo "$out" | tail -2 | cut -c1-200)"; fi
rm -rf /verif/replays/$prop
