#!/bin/sh
# wit.sh <fix-commit> <PROP> <witness.json>...: temporarily reverts one fix: commit in /repo (working tree only),
# replays the witnesses (each must FAIL), then restores /repo. Development aid; not used by the checks.
c=$1; prop=$2; shift 2
cd /repo || exit 2
if [ -n "$(git status --porcelain)" ]; then echo "/repo not clean"; exit 2; fi
git revert --no-commit $c >/dev/null 2>&1 || { echo "revert of $c conflicts"; git revert --abort 2>/dev/null; git reset -q --hard; exit 2; }
cd /verif
for w in "$@"; do
  out=$(./check $prop --replay $w 2>&1 | grep -E "^(VIOLATION|replay:|FAIL)" | head -2 | cut -c1-200)
  echo "[$c reverted] $w => $out"
done
cd /repo && git revert --abort 2>/dev/null; git reset -q --hard; git status --porcelain
