#!/usr/bin/env python3
"""Regenerates the generated parts of DESIGN.md (findings table, seeded-change table) from committed files."""
import json, os, re, subprocess, glob
ROOT = os.path.dirname(os.path.abspath(__file__))
def findings():
    out = ["| id | state | commit | what failed |", "|---|---|---|---|"]
    for l in open(os.path.join(ROOT, "known_findings.txt")):
        l = l.strip()
        if not (l.startswith("fixed:") or l.startswith("known:")):
            continue
        state = l.split(":")[0]
        body, _, meta = l.partition("#")
        m = re.search(r"id=(\S+)", meta)
        fid = m.group(1) if m else "?"
        body = body.split(None, 2)[2] if len(body.split(None, 2)) > 2 else ""
        commit = ""
        if state == "fixed":
            commit, _, body = body.partition(" ")
        out.append("| %s | %s | %s | %s |" % (fid, state, commit, body.strip().replace("|", "\\|")))
    return "\n".join(out)
def seeded():
    rows = ["| seeded change | property | what it changes | needs | caught by (quick tier) |", "|---|---|---|---|---|"]
    for d in sorted(glob.glob(os.path.join(ROOT, "seeded", "*"))):
        mf = os.path.join(d, "meta.json")
        if not os.path.exists(mf):
            continue
        m = json.load(open(mf))
        rows.append("| %s | %s | %s | %s | %s |" % (os.path.basename(d), m.get("property", ""), m.get("summary", "").replace("|", "\\|"), m.get("needs", "").replace("|", "\\|"), m.get("caught_by", "").replace("|", "\\|")))
    return "\n".join(rows)
p = os.path.join(ROOT, "DESIGN.md")
s = open(p).read()
for name, fn in (("FINDINGS", findings), ("SEEDED", seeded)):
    b, e = "<!-- %s:BEGIN -->" % name, "<!-- %s:END -->" % name
    if b in s:
        s = s[:s.index(b) + len(b)] + "\n" + fn() + "\n" + s[s.index(e):]
open(p, "w").write(s)
print("DESIGN.md regenerated")
