#!/bin/bash
# seedsweep.sh <repo-checkout> [tier] [ids...]: runs every seeded change (or the ids given) against the property's check, in a
# checkout of freeconf/yang other than /repo (VERIF_REPO), so that it can run in the background (vp run --with-repo --
# ./seedsweep.sh '$VP_RUN_REPO') while /repo is being worked on. Prints one CAUGHT / MISSED line per change. Development aid.
repo=$1; tier=${2:-quick}; shift 2
here=$(cd "$(dirname "$0")" && pwd)
cd "$here" || exit 2
ids="$@"; [ -z "$ids" ] && ids=$(ls seeded)
export VERIF_REPO=$repo
for id in $ids; do
  prop=${id%%-*}
  if grep -q '"obsolete"' seeded/$id/meta.json; then echo "$id $tier: OBSOLETE"; continue; fi
  git -C $repo checkout -q -- . ; git -C $repo clean -fdq
  git -C $repo apply $here/seeded/$id/patch.diff || { echo "$id: patch does not apply"; continue; }
  out=$(./check $prop --tier $tier 2>&1); rc=$?
  git -C $repo checkout -q -- .
  if [ $rc -eq 1 ]; then echo "$id $tier: CAUGHT  $(echo "$out" | grep -c VIOLATION) violation line(s); $(echo "$out" | grep -E "^$prop $tier:" | cut -c1-120)";
  elif [ $rc -eq 0 ]; then echo "$id $tier: MISSED  $(echo "$out" | grep -E "^$prop $tier:" | cut -c1-120)";
  else echo "$id $tier: INCONCLUSIVE rc=$rc $(echo "$out" | tail -2 | cut -c1-200)"; fi
  rm -rf replays/$prop
done
