#!/bin/bash
# seedverify.sh <dir-with-patch.diff,demo_test.go,meta.json> : confirms a seeded change in a scratch worktree of /repo's HEAD:
# demo passes on the clean tree, patch applies, builds, whole suite green with the patch, demo fails with the patch.
# Prints one line: <id>: clean-demo=.. apply=.. build=.. suite=.. mutant-demo=..   Development aid.
export GOFLAGS=-mod=mod GOPROXY=off GOSUMDB=off GOTOOLCHAIN=local
d=$(cd "$1" && pwd); id=$(basename $d)
wt=/tmp/vfy-$id-$$
git -C /repo worktree add -q --detach $wt HEAD || exit 2
trap 'git -C /repo worktree remove --force $wt >/dev/null 2>&1; git -C /repo worktree prune' EXIT
dp=$(python3 -c "import json;print(json.load(open('$d/meta.json'))['demo_path'])")
dc=$(python3 -c "import json;print(json.load(open('$d/meta.json'))['demo_cmd'])")
dc=${dc#*&& }   # drop a leading "cd ... &&"
cd $wt
cp $d/demo_test.go $dp
if (eval "$dc") >/tmp/vfy-$id.clean.log 2>&1 && ! grep -q 'no tests to run' /tmp/vfy-$id.clean.log; then r1=pass; else r1=FAIL; fi
rm -f $dp
if git apply $d/patch.diff 2>/tmp/vfy-$id.apply.log; then r2=ok; else r2=FAIL; fi
if go build ./... >/tmp/vfy-$id.build.log 2>&1; then r3=ok; else r3=FAIL; fi
if go test -vet=off -count=1 ./... >/tmp/vfy-$id.suite.log 2>&1; then r4=pass; else r4=FAIL; fi
cp $d/demo_test.go $dp
if (eval "$dc") >/tmp/vfy-$id.mut.log 2>&1; then r5="PASS(unwanted)"; else r5="fail(as-wanted)"; fi
echo "$id: clean-demo=$r1 apply=$r2 build=$r3 suite=$r4 mutant-demo=$r5"
