#!/bin/sh
# prints check + case of every replay file of a property:  ./showreplays.sh C14
for f in /verif/replays/$1/*.json; do python3 - "$f" <<'PY'
import json,sys
o=json.load(open(sys.argv[1]))
c=json.dumps(o['case'])
print(o['check'], c[:int(sys.argv[2]) if len(sys.argv)>2 else 700])
for f in o.get('fails',[])[:3]: print('   ', f['sig'], '::', f['msg'][:400].replace('\n',' | '))
PY
done
